// Package gen holds the generators and encoders that serve as oracles: an
// independent TIFF/Exif writer with a layout model, container writers, an XMP
// serialiser, ISOBMFF and JPEG stream writers and hostile mutators. Nothing
// in this package imports the library under test.
package gen

import (
	"encoding/binary"
	"fmt"

	"pgregory.net/rapid"
)

// TIFF field types (TIFF 6.0 section 2 + supplement).
const (
	TByte      = 1
	TASCII     = 2
	TShort     = 3
	TLong      = 4
	TRational  = 5
	TSByte     = 6
	TUndefined = 7
	TSShort    = 8
	TSLong     = 9
	TSRational = 10
	TFloat     = 11
	TDouble    = 12
)

var typeSize = map[uint16]int{1: 1, 2: 1, 3: 2, 4: 4, 5: 8, 6: 1, 7: 1, 8: 2, 9: 4, 10: 8, 11: 4, 12: 8}

// Val is a logical field value; Bytes renders it in a byte order.
type Val struct {
	Type uint16      `json:"t"`
	B    []byte      `json:"b,omitempty"` // 1-byte units
	S    []uint16    `json:"s,omitempty"` // 2-byte units
	L    []uint32    `json:"l,omitempty"` // 4-byte units
	R    [][2]uint32 `json:"r,omitempty"` // 8-byte rationals
	D    []uint64    `json:"d,omitempty"` // 8-byte doubles (bit patterns)
}

// Count is the TIFF unit count.
func (v Val) Count() uint32 {
	switch typeSize[v.Type] {
	case 1:
		return uint32(len(v.B))
	case 2:
		return uint32(len(v.S))
	case 4:
		return uint32(len(v.L))
	default:
		if v.Type == TDouble {
			return uint32(len(v.D))
		}
		return uint32(len(v.R))
	}
}

func order(mm bool) binary.ByteOrder {
	if mm {
		return binary.BigEndian
	}
	return binary.LittleEndian
}

// Bytes serialises the value.
func (v Val) Bytes(mm bool) []byte {
	bo := order(mm)
	switch typeSize[v.Type] {
	case 1:
		return append([]byte{}, v.B...)
	case 2:
		out := make([]byte, 2*len(v.S))
		for i, s := range v.S {
			bo.PutUint16(out[2*i:], s)
		}
		return out
	case 4:
		out := make([]byte, 4*len(v.L))
		for i, l := range v.L {
			bo.PutUint32(out[4*i:], l)
		}
		return out
	default:
		if v.Type == TDouble {
			out := make([]byte, 8*len(v.D))
			for i, d := range v.D {
				bo.PutUint64(out[8*i:], d)
			}
			return out
		}
		out := make([]byte, 8*len(v.R))
		for i, r := range v.R {
			bo.PutUint32(out[8*i:], r[0])
			bo.PutUint32(out[8*i+4:], r[1])
		}
		return out
	}
}

// ASCII builds a NUL-terminated ASCII value.
func ASCII(s string) Val { return Val{Type: TASCII, B: append([]byte(s), 0)} }

// Short / Long / Rat helpers.
func Short(v ...uint16) Val        { return Val{Type: TShort, S: v} }
func Long(v ...uint32) Val         { return Val{Type: TLong, L: v} }
func Rat(v ...[2]uint32) Val       { return Val{Type: TRational, R: v} }
func SRat(v ...[2]uint32) Val      { return Val{Type: TSRational, R: v} }
func Bytes(t uint16, b []byte) Val { return Val{Type: t, B: b} }

// Entry is one directory entry.
type Entry struct {
	Tag      uint16
	V        Val
	Child    *Dir   // pointer entry (LONG, count 1) to a sub-directory
	Children []*Dir // SubIFDs array (LONG, count n >= 2)
	Foreign  bool
}

// Dir is one image file directory.
type Dir struct {
	Name    string
	Entries []Entry
	Next    *Dir // IFD1 chain
	Shuffle []int
}

// SlotJunk, when non-zero, fills the bytes of a 4-byte value slot that an embedded value shorter
// than 4 bytes leaves unused (TIFF 6.0 leaves them unspecified; readers must not look at them).
// It is set by GenExif around its Encode calls only.
var SlotJunk byte

// Site is an addressable place in the encoded file (for structure-aware malformation).
type Site struct {
	Name string `json:"name"`
	Off  int    `json:"off"`
	Size int    `json:"size"`
}

// Layout holds the random placement decisions.
type Layout struct {
	FirstIFD   int   // offset of IFD0 (8 or padded)
	Pads       []int // padding before each placed block (consumed in order)
	Picks      []int // choice index among available blocks (consumed in order)
	Trailing   int
	SortedTags bool
}

type block struct {
	dir   *Dir   // table block
	entry *Entry // value block
	owner *Dir
	off   int
	size  int
}

// Encoded is the result of laying a directory tree out.
type Encoded struct {
	II, MM      []byte
	Sites       []Site
	ValueOff    map[string]int // "IFD0:010f" -> offset of the out-of-line value (absent = embedded)
	PendingHW   int            // high-water mark of the reader's pending out-of-line tag list
	MaxEntries  int
	BlockOrder  string
	ValueBlocks int
	Tail        int // number of trailing bytes appended after the last block
}

func entrySize(e *Entry) int {
	if e.Child != nil {
		return 4
	}
	if len(e.Children) > 0 {
		return 4 * len(e.Children)
	}
	return int(e.V.Count()) * typeSize[e.V.Type]
}

func tableSize(d *Dir) int { return 2 + 12*len(d.Entries) + 4 }

// Encode lays out root (IFD0) and everything reachable from it in forward
// layout: every value and sub-directory is placed after the entry table that
// references it. The order of blocks is otherwise free and chosen through
// pick(n) (uniform index among the n currently placeable blocks) and pad().
func Encode(root *Dir, firstIFD int, pick func(isTable []bool) int, pad func() int, trailing []byte) *Encoded {
	type placed struct {
		b *block
	}
	var blocks []*block
	tableOff := map[*Dir]int{}
	valueOff := map[*Entry]int{}
	avail := []*block{}
	cur := firstIFD
	order := ""
	place := func(b *block) {
		b.off = cur
		cur += b.size
		blocks = append(blocks, b)
		if b.dir != nil {
			tableOff[b.dir] = b.off
			order += "T(" + b.dir.Name + ")"
			d := b.dir
			for i := range d.Entries {
				e := &d.Entries[i]
				switch {
				case e.Child != nil:
					avail = append(avail, &block{dir: e.Child, size: tableSize(e.Child)})
				case len(e.Children) > 0:
					avail = append(avail, &block{entry: e, owner: d, size: entrySize(e)})
				case entrySize(e) > 4:
					avail = append(avail, &block{entry: e, owner: d, size: entrySize(e)})
				}
			}
			if d.Next != nil {
				avail = append(avail, &block{dir: d.Next, size: tableSize(d.Next)})
			}
		} else {
			valueOff[b.entry] = b.off
			order += "v"
			if len(b.entry.Children) > 0 {
				for _, c := range b.entry.Children {
					avail = append(avail, &block{dir: c, size: tableSize(c)})
				}
			}
		}
	}
	place(&block{dir: root, size: tableSize(root)})
	for len(avail) > 0 {
		kinds := make([]bool, len(avail))
		for k, a := range avail {
			kinds[k] = a.dir != nil
		}
		i := pick(kinds)
		b := avail[i]
		avail = append(avail[:i], avail[i+1:]...)
		cur += pad()
		place(b)
	}
	total := cur
	enc := &Encoded{BlockOrder: order, ValueOff: map[string]int{}}
	for _, b := range blocks {
		if b.entry != nil {
			enc.ValueOff[fmt.Sprintf("%s:%04x", b.owner.Name, b.entry.Tag)] = b.off
		}
	}
	for _, mm := range []bool{false, true} {
		bo := binary.ByteOrder(binary.LittleEndian)
		out := make([]byte, total, total+len(trailing))
		if mm {
			bo = binary.BigEndian
			copy(out, "MM\x00*")
		} else {
			copy(out, "II*\x00")
		}
		bo.PutUint32(out[4:], uint32(firstIFD))
		// filler between blocks: a pattern that is no TIFF signature
		for i := 8; i < total; i++ {
			out[i] = 0xEE
		}
		for _, b := range blocks {
			if b.dir != nil {
				d := b.dir
				o := b.off
				bo.PutUint16(out[o:], uint16(len(d.Entries)))
				idx := make([]int, len(d.Entries))
				for i := range idx {
					idx[i] = i
				}
				if len(d.Shuffle) == len(idx) {
					idx = d.Shuffle
				}
				for slot, ei := range idx {
					e := &d.Entries[ei]
					p := o + 2 + 12*slot
					bo.PutUint16(out[p:], e.Tag)
					var typ uint16
					var cnt uint32
					var inline []byte
					switch {
					case e.Child != nil:
						typ, cnt = TLong, 1
						inline = make([]byte, 4)
						bo.PutUint32(inline, uint32(tableOff[e.Child]))
					case len(e.Children) > 0:
						typ, cnt = TLong, uint32(len(e.Children))
					default:
						typ, cnt = e.V.Type, e.V.Count()
						if entrySize(e) <= 4 {
							inline = []byte{SlotJunk, SlotJunk, SlotJunk, SlotJunk}
							copy(inline, e.V.Bytes(mm))
						}
					}
					bo.PutUint16(out[p+2:], typ)
					bo.PutUint32(out[p+4:], cnt)
					if inline != nil {
						copy(out[p+8:], inline)
					} else {
						bo.PutUint32(out[p+8:], uint32(valueOff[e]))
					}
					if !mm {
						n := fmt.Sprintf("%s.entry[%d:%04x]", d.Name, slot, e.Tag)
						enc.Sites = append(enc.Sites, Site{n + ".tag", p, 2}, Site{n + ".type", p + 2, 2}, Site{n + ".count", p + 4, 4}, Site{n + ".value", p + 8, 4})
					}
				}
				np := o + 2 + 12*len(d.Entries)
				if d.Next != nil {
					bo.PutUint32(out[np:], uint32(tableOff[d.Next]))
				} else {
					bo.PutUint32(out[np:], 0)
				}
				if !mm {
					enc.Sites = append(enc.Sites, Site{d.Name + ".count", o, 2}, Site{d.Name + ".next", np, 4})
				}
			} else {
				e := b.entry
				if len(e.Children) > 0 {
					for i, c := range e.Children {
						bo.PutUint32(out[b.off+4*i:], uint32(tableOff[c]))
					}
				} else {
					copy(out[b.off:], e.V.Bytes(mm))
				}
			}
		}
		out = append(out, trailing...)
		if mm {
			enc.MM = out
		} else {
			enc.II = out
			enc.Sites = append(enc.Sites, Site{"header.firstifd", 4, 4})
		}
	}
	// simulate the streaming reader's pending list to get its high-water mark
	enc.Tail = len(trailing)
	enc.PendingHW, enc.MaxEntries = simulatePending(root, tableOff, valueOff)
	for _, b := range blocks {
		if b.entry != nil {
			enc.ValueBlocks++
		}
	}
	return enc
}

// simulatePending computes, from the TIFF structure only, the largest number
// of out-of-line references a streaming reader that visits them in offset order
// holds at any moment. Following the reader's documented bookkeeping, the list
// is compacted (consumed references dropped) only when a sub-directory is
// entered, the reference being processed still counts, and the optional IFD1
// pointer counts as one reference. The documented limit is 84.
func simulatePending(root *Dir, tableOff map[*Dir]int, valueOff map[*Entry]int) (hw int, maxEntries int) {
	type ref struct {
		off   int
		dir   *Dir
		entry *Entry
	}
	var list []ref
	pos := 0
	insert := func(r ref) {
		i := len(list)
		for i > 0 && list[i-1].off > r.off {
			i--
		}
		list = append(list, ref{})
		copy(list[i+1:], list[i:])
		list[i] = r
		if len(list) > hw {
			hw = len(list)
		}
	}
	addDir := func(d *Dir) {
		if len(d.Entries) > maxEntries {
			maxEntries = len(d.Entries)
		}
		for i := range d.Entries {
			e := &d.Entries[i]
			switch {
			case e.Child != nil:
				insert(ref{tableOff[e.Child], e.Child, nil})
			case len(e.Children) > 0:
				insert(ref{valueOff[e], nil, e})
			case entrySize(e) > 4:
				insert(ref{valueOff[e], nil, e})
			}
		}
		if d.Next != nil {
			insert(ref{tableOff[d.Next], nil, nil}) // kept as a reference, never followed
		}
	}
	addDir(root)
	for pos < len(list) {
		r := list[pos]
		if r.dir != nil {
			list = append([]ref{}, list[pos:]...)
			pos = 0
			addDir(r.dir)
		} else if r.entry != nil && len(r.entry.Children) > 0 {
			for _, c := range r.entry.Children {
				insert(ref{tableOff[c], c, nil})
			}
		}
		pos++
	}
	return hw, maxEntries
}

// ---- rapid-driven generation ------------------------------------------------

// Printable draws 'n' printable ASCII bytes that do not end in space (nor NUL / newline).
func Printable(rt *rapid.T, label string, min, max int) string {
	n := rapid.IntRange(min, max).Draw(rt, label+".len")
	if n == 0 {
		return ""
	}
	b := make([]byte, n)
	raw := rapid.SliceOfN(rapid.IntRange(0x20, 0x7e), n, n).Draw(rt, label)
	for i, c := range raw {
		b[i] = byte(c)
	}
	if b[n-1] == ' ' {
		b[n-1] = 'x'
	}
	return string(b)
}
