package gen

import (
	"fmt"
	"math"

	"pgregory.net/rapid"
)

// DateTime is an Exif "YYYY:MM:DD HH:MM:SS" value.
type DateTime struct{ Y, Mo, D, H, Mi, S int }

func (d DateTime) String() string {
	return fmt.Sprintf("%04d:%02d:%02d %02d:%02d:%02d", d.Y, d.Mo, d.D, d.H, d.Mi, d.S)
}

// Stamp groups the three tags that make one composite timestamp.
type Stamp struct {
	Date   *DateTime `json:"date,omitempty"`
	SubSec *string   `json:"subsec,omitempty"` // ASCII digits
	Offset *string   `json:"offset,omitempty"` // "+HH:MM"
	// Unknown (only with Date == nil): the date tag is present and says "unknown" the way Exif 2.3 section 4.6.4 spells it
	// ("blank": digits replaced by spaces, colons kept) or the way many writers do ("zeros": 0000:00:00 00:00:00)
	Unknown string `json:"unknown,omitempty"`
}

// dateText returns the text of the date tag, nil if the tag is absent.
func (s Stamp) dateText() *string {
	var t string
	switch {
	case s.Date != nil:
		t = s.Date.String()
	case s.Unknown == "blank":
		t = "    :  :     :  :  "
	case s.Unknown == "zeros":
		t = "0000:00:00 00:00:00"
	default:
		return nil
	}
	return &t
}

// Record is the logical metadata (what the file says, independent of layout).
type Record struct {
	Make, Model                                       *string
	ImageDescription, Software, Artist, Copyright     *string
	Width, Height                                     *uint32
	WidthLong, HeightLong                             bool
	Orientation                                       *uint16
	StripOffsets, StripByteCounts                     *uint32
	StripShort                                        bool
	DNGVersion                                        bool
	SerialIFD0, SerialExif, OwnerName                 *string
	PixelX, PixelY                                    *uint32
	PixelLong                                         bool
	Modify, Original, Create                          Stamp
	ExposureTime, FNumber, ApertureValue, FocalLength *[2]uint32
	ISO                                               *uint32
	ISOLong                                           bool
	ISOSecond                                         *uint16 // ISOSpeedRatings has count "any": a second SHORT in the slot (the reported speed is the first)
	// ISOMore: further values after the first (count 3..5 SHORT, or count 2..3 LONG): the array no longer fits the slot and is stored
	// out of line; the reported speed is still the first value. StripMore: further strips (offset and byte count arrays of 2..5 entries).
	ISOMore                         []uint32 `json:",omitempty"`
	StripMore                       []uint32 `json:",omitempty"`
	Bias                            *[2]int32
	Program, Mode, Metering, Flash  *uint16
	FL35                            *uint16
	LensSpec                        *[4][2]uint32
	LensMake, LensModel, LensSerial *string
	LatRef, LonRef                  *string // "N"/"S", "E"/"W"
	Lat, Lon                        *[3][2]uint32
	AltRef                          *uint8
	Alt                             *[2]uint32
	GPSTime                         *[3][2]uint32
	GPSDate                         *string // "YYYY:MM:DD"
	// classification helpers filled by the generator
	Fields int `json:"fields"`
}

// Options steer the record / layout generator. The "Ext*" switches enable
// generator features whose failure is a listed known finding; the main search
// runs with them off.
type Options struct {
	MaxForeign      int  // foreign tags per directory (default 6)
	BigPending      bool // aim for 60..84 pending out-of-line tags
	HeavyWriter     bool // writer-like block order with 20-35 out-of-line IFD0 values consumed before a sub-directory that pushes the pending list to 70..84
	ExtSubSecDigits bool // sub-second strings of 1,2,4..6 digits (main: 3 digits)
	ExtModelFirst   bool // Model value placed before Make value
	NoGPS           bool
	Split           bool // also encode IFD0 / Exif / GPS as three separate TIFF blocks (CR3 CMT1/CMT2/CMT4)
	Unbuffered      bool // file will be read through the unbuffered path: directories <= 85 entries, values <= 1024
	PlainStrings    bool
	FirstIFD        int  // > 0: offset of IFD0 (the bytes between the TIFF header and it are padding)
	BigDims         bool // image dimensions beyond 65535 (LONG)
	MistypedText    bool // text tags the record leaves out are present with a numeric type (SHORT / LONG, embedded or not): not text, so the field stays empty
	CameraBias      bool // exposure compensation the way cameras write it (n/100, n/10, n/6 ... up to +-5 EV: numerators beyond +-127)
	Arrays          bool // ISOSpeedRatings with 3..5 SHORT / 2..4 LONG values and StripOffsets / StripByteCounts with 2..5 entries (stored out of line; the first value is the reported one)
	LongText        bool // one or two of ImageDescription / Software / Copyright are 1023..20000 bytes long (around and beyond the readers' 1 KiB / 4 KiB windows)
	ManyEntries     bool // one directory is filled with embedded-value foreign tags up to (or just below) the entry limit: 128, or 85 with Unbuffered
}

// KnownMakes maps every spelling the library documents to the canonical make name.
var KnownMakes = map[string]string{
	"Acer": "Acer", "Agfa": "Agfa", "Aiptek": "Aiptek", "Apple": "Apple", "Asus": "Asus", "BenQ": "BenQ", "Canon": "Canon",
	"Casio": "Casio", "DJI": "DJI", "FujiFilm": "FujiFilm", "Ge": "Ge", "Genius": "Genius", "Google": "Google", "GoPro": "GoPro",
	"Hasselblad": "Hasselblad", "HP": "HP", "Hitachi": "Hitachi", "HTC": "HTC", "HUAWEI": "Huawei", "Insta360": "Insta360",
	"Kodak": "Kodak", "Konica": "Konica", "Kyocera": "Kyocera", "Leica": "Leica", "LG": "LG", "Mamyia": "Mamyia", "Microsoft": "Microsoft",
	"Minolta": "Minolta", "Motorola": "Motorola", "Nikon": "Nikon", "NIKON CORPORATION": "Nikon", "Nokia": "Nokia", "Olympus": "Olympus",
	"OnePlus": "OnePlus", "Panasonic": "Panasonic", "Pentax": "Pentax", "PhaseOne": "PhaseOne", "Polaroid": "Polaroid", "RIM": "RIM",
	"Ricoh": "Ricoh", "Samsung": "Samsung", "Sanyo": "Sanyo", "Sharp": "Sharp", "Sigma": "Sigma", "Sony": "Sony", "SONY": "Sony",
	"SonyEricsson": "SonyEricsson", "Toshiba": "Toshiba", "Vivitar": "Vivitar", "Xiamoi": "Xiamoi", "ZTE": "ZTE", "Hisilicon": "Hisilicon",
}

var knownMakeList []string

func init() {
	for k := range KnownMakes {
		knownMakeList = append(knownMakeList, k)
	}
	sortStrings(knownMakeList)
}

func sortStrings(s []string) {
	for i := 1; i < len(s); i++ {
		for j := i; j > 0 && s[j] < s[j-1]; j-- {
			s[j], s[j-1] = s[j-1], s[j]
		}
	}
}

// KnownCanonModels / KnownAppleModels: documented names that map to themselves.
var KnownCanonModels = []string{"Canon EOS R5", "Canon EOS R6", "Canon EOS 6D", "Canon EOS 90D", "Canon EOS R", "Canon PowerShot G9", "Canon EOS 7D", "Canon EOS 80D"}

// Chance is true with probability p. rapid's numeric generators are heavily
// biased towards small values, so the probability is built from fair bits.
func Chance(rt *rapid.T, label string, p float64) bool {
	bits := rapid.SliceOfN(rapid.Bool(), 7, 7).Draw(rt, label)
	v := 0
	for _, b := range bits {
		v <<= 1
		if b {
			v++
		}
	}
	return float64(v)/128 < p
}

func optStr(rt *rapid.T, label string, p float64, min, max int) *string {
	if !Chance(rt, label+"?", p) {
		return nil
	}
	// bias towards the embedded lengths 1..3 and the boundary 4
	var s string
	switch rapid.IntRange(0, 5).Draw(rt, label+".class") {
	case 0:
		s = Printable(rt, label, 1, 3)
	case 1:
		s = Printable(rt, label, 3, 5)
	default:
		s = Printable(rt, label, min, max)
	}
	return &s
}

func optU16(rt *rapid.T, label string, p float64, g *rapid.Generator[uint16]) *uint16 {
	if !Chance(rt, label+"?", p) {
		return nil
	}
	v := g.Draw(rt, label)
	return &v
}

func genRat(rt *rapid.T, label string) [2]uint32 {
	switch rapid.IntRange(0, 4).Draw(rt, label+".class") {
	case 0: // 1/n
		return [2]uint32{1, rapid.Uint32Range(1, 64000).Draw(rt, label+".d")}
	case 1: // n/10
		return [2]uint32{rapid.Uint32Range(0, 6000).Draw(rt, label+".n"), 10}
	case 2: // full range
		return [2]uint32{rapid.Uint32().Draw(rt, label+".n"), rapid.Uint32Range(1, 0xffffffff).Draw(rt, label+".d")}
	case 3: // extremes
		return [2]uint32{rapid.SampledFrom([]uint32{0, 1, 0x7fffffff, 0x80000000, 0xffffffff}).Draw(rt, label+".n"),
			rapid.SampledFrom([]uint32{1, 2, 0x7fffffff, 0x80000000, 0xffffffff}).Draw(rt, label+".d")}
	default:
		return [2]uint32{rapid.Uint32Range(0, 100000).Draw(rt, label+".n"), rapid.Uint32Range(1, 1000).Draw(rt, label+".d")}
	}
}

func genDate(rt *rapid.T, label string) DateTime {
	pick := func(l string, lo, hi int) int {
		switch rapid.IntRange(0, 3).Draw(rt, label+l+".c") {
		case 0:
			return lo
		case 1:
			return hi
		default:
			return rapid.IntRange(lo, hi).Draw(rt, label+l)
		}
	}
	d := DateTime{Y: pick("Y", 1970, 2099), Mo: pick("M", 1, 12), H: pick("h", 0, 23), Mi: pick("m", 0, 59), S: pick("s", 0, 59)}
	dim := []int{31, 28, 31, 30, 31, 30, 31, 31, 30, 31, 30, 31}[d.Mo-1]
	if d.Mo == 2 && d.Y%4 == 0 && (d.Y%100 != 0 || d.Y%400 == 0) {
		dim = 29
	}
	d.D = pick("D", 1, dim)
	return d
}

func genStamp(rt *rapid.T, label string, o Options) Stamp {
	var s Stamp
	if Chance(rt, label+"?", 0.7) {
		d := genDate(rt, label)
		s.Date = &d
	}
	if s.Date == nil && Chance(rt, label+".unknown", 0.2) {
		s.Unknown = rapid.SampledFrom([]string{"blank", "zeros"}).Draw(rt, label+".unknownform")
	}
	if s.Date == nil && !Chance(rt, label+".qualifiers-alone", 0.15) {
		return s // (mostly) sub-seconds and offsets come with their date; alone they define no timestamp, which must then be reported as absent
	}
	if Chance(rt, label+".sub?", 0.5) {
		n := 3
		if o.ExtSubSecDigits {
			n = rapid.IntRange(1, 6).Draw(rt, label+".subn")
		}
		digits := rapid.SliceOfN(rapid.IntRange(0, 9), n, n).Draw(rt, label+".sub")
		b := make([]byte, n)
		for i, d := range digits {
			b[i] = byte('0' + d)
		}
		str := string(b)
		s.SubSec = &str
	}
	if Chance(rt, label+".off?", 0.5) {
		h := rapid.IntRange(-12, 14).Draw(rt, label+".offh")
		m := rapid.SampledFrom([]int{0, 0, 15, 30, 45}).Draw(rt, label+".offm")
		if h == 14 || h == -12 {
			m = 0
		}
		sign := byte('+')
		if h < 0 || (h == 0 && rapid.Bool().Draw(rt, label+".negzero")) {
			sign = '-'
			h = -h
		}
		str := fmt.Sprintf("%c%02d:%02d", sign, h, m)
		s.Offset = &str
	}
	return s
}

// GenRecord draws a logical record.
func GenRecord(rt *rapid.T, o Options) *Record {
	r := &Record{}
	p := rapid.SampledFrom([]float64{0.25, 0.6, 0.9}).Draw(rt, "density")
	if Chance(rt, "make?", p) {
		var s string
		if rapid.Bool().Draw(rt, "make.known") {
			s = rapid.SampledFrom(knownMakeList).Draw(rt, "make")
		} else {
			s = Printable(rt, "make", 1, 40)
		}
		r.Make = &s
	}
	if Chance(rt, "model?", p) {
		var s string
		if r.Make != nil && *r.Make == "Canon" && rapid.Bool().Draw(rt, "model.known") {
			s = rapid.SampledFrom(KnownCanonModels).Draw(rt, "model")
		} else {
			s = Printable(rt, "model", 1, 40)
		}
		r.Model = &s
	}
	r.ImageDescription = optStr(rt, "desc", p, 0, 200)
	r.Software = optStr(rt, "software", p, 1, 60)
	r.Artist = optStr(rt, "artist", p, 1, 60)
	r.Copyright = optStr(rt, "copyright", p, 1, 120)
	if o.LongText {
		targets := []**string{&r.ImageDescription, &r.Software, &r.Copyright}
		for i, n := 0, rapid.IntRange(1, 2).Draw(rt, "long.n"); i < n; i++ {
			l := rapid.SampledFrom([]int{1022, 1023, 1024, 1025, 2000, 4094, 4095, 4096, 4097, 5000, 20000}).Draw(rt, "long.len")
			b := make([]byte, l)
			seed := rapid.IntRange(0, 1<<16).Draw(rt, "long.seed")
			for j := range b {
				b[j] = "abcdefghijklmnopqrstuvwxyzABCDEFGHIJKLMNOPQRSTUVWXYZ0123456789-_"[(j*7+seed+j/61)%64]
			}
			v := string(b)
			*targets[rapid.IntRange(0, 2).Draw(rt, "long.which")] = &v
		}
	}
	dim := func(label string) *uint32 {
		if !Chance(rt, label+"?", p) {
			return nil
		}
		v := uint32(rapid.SampledFrom([]int{1, 255, 256, 4000, 6000, 65535, 0}).Draw(rt, label+".c"))
		if v == 0 {
			v = rapid.Uint32Range(1, 65535).Draw(rt, label)
		}
		if o.BigDims && Chance(rt, label+".big", 0.5) { // panoramas, scans: a LONG beyond 16 bits
			v = uint32(rapid.SampledFrom([]int{65536, 65537, 70000, 131072, 1 << 24, 1<<31 - 1}).Draw(rt, label+".bigv"))
		}
		return &v
	}
	r.Width, r.Height = dim("width"), dim("height")
	r.WidthLong, r.HeightLong = rapid.Bool().Draw(rt, "widthLong"), rapid.Bool().Draw(rt, "heightLong")
	if r.Width != nil && *r.Width > 65535 {
		r.WidthLong = true
	}
	if r.Height != nil && *r.Height > 65535 {
		r.HeightLong = true
	}
	r.Orientation = optU16(rt, "orientation", p, rapid.Uint16Range(1, 8))
	if Chance(rt, "strip?", p/2) {
		r.StripShort = rapid.Bool().Draw(rt, "stripShort")
		max := uint32(0xffffffff)
		if r.StripShort {
			max = 0xffff
		}
		a, b := rapid.Uint32Range(1, max).Draw(rt, "stripOff"), rapid.Uint32Range(1, max).Draw(rt, "stripLen")
		r.StripOffsets, r.StripByteCounts = &a, &b
		if o.Arrays && Chance(rt, "strip.more?", 0.6) {
			for i, n := 0, rapid.IntRange(1, 4).Draw(rt, "strip.nmore"); i < n; i++ {
				r.StripMore = append(r.StripMore, rapid.Uint32Range(1, max).Draw(rt, "strip.more"))
			}
		}
	}
	r.DNGVersion = Chance(rt, "dng?", 0.15)
	switch rapid.IntRange(0, 3).Draw(rt, "serialsrc") {
	case 0:
		r.SerialIFD0 = optStr(rt, "serial0", 1, 1, 32)
	case 1:
		r.SerialExif = optStr(rt, "serialE", 1, 1, 32)
	case 2: // both, equal (the first-seen rule cannot matter)
		r.SerialIFD0 = optStr(rt, "serialB", 1, 1, 32)
		r.SerialExif = r.SerialIFD0
	}
	if r.Artist == nil || Chance(rt, "owner.too", 0.3) { // (with both present the Artist tag is the artist, whichever value comes first in the file)
		r.OwnerName = optStr(rt, "owner", p, 1, 40)
	}
	r.PixelX, r.PixelY = dim("pixelx"), dim("pixely")
	r.PixelLong = rapid.Bool().Draw(rt, "pixelLong")
	if r.PixelX != nil && *r.PixelX > 65535 || r.PixelY != nil && *r.PixelY > 65535 {
		r.PixelLong = true
	}
	r.Modify = genStamp(rt, "modify", o)
	r.Original = genStamp(rt, "original", o)
	r.Create = genStamp(rt, "create", o)
	optRat := func(label string) *[2]uint32 {
		if !Chance(rt, label+"?", p) {
			return nil
		}
		v := genRat(rt, label)
		return &v
	}
	r.ExposureTime = optRat("exposure")
	r.FNumber = optRat("fnumber")
	if r.FNumber != nil && r.FNumber[0] == 0 {
		r.FNumber[0] = 28 // an f-number of 0 means "unknown"; the ApertureValue precedence is modelled separately
	}
	if r.FNumber == nil && Chance(rt, "apv?", p) {
		v := [2]uint32{rapid.Uint32Range(0, 1600).Draw(rt, "apv.n"), 100}
		r.ApertureValue = &v
	}
	r.FocalLength = optRat("focal")
	if Chance(rt, "iso?", p) {
		r.ISOLong = rapid.Bool().Draw(rt, "isoLong")
		max := uint32(0xffff)
		if r.ISOLong {
			max = 0xffffffff
		}
		v := rapid.Uint32Range(1, max).Draw(rt, "iso")
		r.ISO = &v
		if !r.ISOLong && Chance(rt, "iso.second?", 0.25) {
			s2 := uint16(rapid.SampledFrom([]int{1, 100, 200, 400, 25600, 65535}).Draw(rt, "iso.second"))
			r.ISOSecond = &s2
		}
		if o.Arrays && Chance(rt, "iso.more?", 0.5) {
			for i, n := 0, rapid.IntRange(1, 3).Draw(rt, "iso.nmore"); i < n; i++ {
				r.ISOMore = append(r.ISOMore, uint32(rapid.SampledFrom([]int{1, 50, 100, 200, 400, 25600, 65535}).Draw(rt, "iso.more")))
			}
			if !r.ISOLong && r.ISOSecond == nil {
				s2 := uint16(200)
				r.ISOSecond = &s2
			}
		}
	}
	if Chance(rt, "bias?", p) {
		// (everything the 8 + 8 bits of meta.ExposureBias hold: numerators -128..127, denominators 1..255)
		v := [2]int32{int32(rapid.IntRange(-128, 127).Draw(rt, "bias.n")), int32(rapid.IntRange(1, 255).Draw(rt, "bias.d"))}
		if o.CameraBias && Chance(rt, "bias.camera", 0.7) {
			// the way cameras write compensation: steps of 1/3 or 1/2 EV up to +-5 EV over the denominators 1, 2, 3, 6, 10, 100
			d := int32(rapid.SampledFrom([]int{1, 2, 3, 6, 10, 100}).Draw(rt, "bias.cd"))
			steps := int32(rapid.IntRange(-30, 30).Draw(rt, "bias.sixths")) // sixths of an EV
			v = [2]int32{int32(math.Round(float64(steps) * float64(d) / 6)), d}
		}
		r.Bias = &v
	}
	r.Program = optU16(rt, "program", p, rapid.Uint16Range(0, 9))
	r.Mode = optU16(rt, "mode", p, rapid.Uint16Range(0, 2))
	r.Metering = optU16(rt, "metering", p, rapid.SampledFrom([]uint16{0, 1, 2, 3, 4, 5, 6, 255}))
	r.Flash = optU16(rt, "flash", p, rapid.SampledFrom([]uint16{0, 1, 5, 7, 8, 9, 0xd, 0xf, 0x10, 0x14, 0x18, 0x19, 0x1d, 0x1f, 0x20, 0x30, 0x41, 0x45, 0x47, 0x49, 0x4d, 0x4f, 0x50, 0x58, 0x59, 0x5d, 0x5f}))
	r.FL35 = optU16(rt, "fl35", p, rapid.Uint16Range(1, 2000))
	if Chance(rt, "lensspec?", p) {
		var v [4][2]uint32
		for i := range v {
			v[i] = genRat(rt, fmt.Sprintf("lensspec%d", i))
		}
		r.LensSpec = &v
	}
	r.LensMake = optStr(rt, "lensmake", p, 1, 40)
	r.LensModel = optStr(rt, "lensmodel", p, 1, 80)
	r.LensSerial = optStr(rt, "lensserial", p, 1, 32)
	if !o.NoGPS && Chance(rt, "gps?", 0.7) {
		coord := func(label string, maxDeg uint32) *[3][2]uint32 {
			if !Chance(rt, label+"?", 0.8) {
				return nil
			}
			den := func(l string) uint32 {
				return rapid.SampledFrom([]uint32{1, 1, 10, 100, 1000, 10000, 1000000}).Draw(rt, label+l)
			}
			d0, d1, d2 := den(".d0"), den(".d1"), den(".d2")
			v := [3][2]uint32{
				{rapid.Uint32Range(0, maxDeg-1).Draw(rt, label+".deg") * d0, d0},
				{rapid.Uint32Range(0, 59*d1+d1-1).Draw(rt, label+".min"), d1},
				{rapid.Uint32Range(0, 59*d2+d2-1).Draw(rt, label+".sec"), d2},
			}
			return &v
		}
		r.Lat, r.Lon = coord("lat", 90), coord("lon", 180)
		if Chance(rt, "latref?", 0.85) {
			s := rapid.SampledFrom([]string{"N", "S"}).Draw(rt, "latref")
			r.LatRef = &s
		}
		if Chance(rt, "lonref?", 0.85) {
			s := rapid.SampledFrom([]string{"E", "W"}).Draw(rt, "lonref")
			r.LonRef = &s
		}
		if Chance(rt, "alt?", 0.7) {
			v := genRat(rt, "alt")
			r.Alt = &v
			if Chance(rt, "altref?", 0.8) {
				a := uint8(rapid.IntRange(0, 1).Draw(rt, "altref"))
				r.AltRef = &a
			}
		}
		if Chance(rt, "gpstime?", 0.7) {
			den := func(l string) uint32 { return rapid.SampledFrom([]uint32{1, 1, 1, 10, 100, 1000, 1000000, 10000000}).Draw(rt, "gpstime"+l) }
			d0, d1, d2 := den(".d0"), den(".d1"), den(".d2")
			v := [3][2]uint32{
				{rapid.Uint32Range(0, 23).Draw(rt, "gpstime.h") * d0, d0},
				{rapid.Uint32Range(0, 59).Draw(rt, "gpstime.m") * d1, d1},
				{rapid.Uint32Range(0, 59).Draw(rt, "gpstime.s") * d2, d2},
			}
			r.GPSTime = &v
		}
		if Chance(rt, "gpsdate?", 0.7) {
			d := genDate(rt, "gpsdate")
			s := fmt.Sprintf("%04d:%02d:%02d", d.Y, d.Mo, d.D)
			r.GPSDate = &s
		}
	}
	return r
}

// foreignEntry draws a tag the library does not interpret.
func foreignEntry(rt *rapid.T, label string, used map[uint16]bool, pool []uint16, o Options) (Entry, bool) {
	var tag uint16
	for try := 0; try < 8; try++ {
		if len(pool) > 0 && rapid.Bool().Draw(rt, label+".poolTag") {
			tag = rapid.SampledFrom(pool).Draw(rt, label+".tag")
		} else {
			tag = rapid.Uint16Range(0x0002, 0xfffe).Draw(rt, label+".tagr")
		}
		if !used[tag] {
			break
		}
	}
	if used[tag] {
		return Entry{}, false
	}
	used[tag] = true
	t := uint16(rapid.IntRange(1, 12).Draw(rt, label+".type"))
	maxBytes := 300
	if o.Unbuffered {
		maxBytes = 200
	}
	n := 0
	switch rapid.IntRange(0, 3).Draw(rt, label+".cntc") {
	case 0:
		n = rapid.IntRange(0, 4/typeSize[t]).Draw(rt, label+".cntEmb")
	case 1:
		n = 4/typeSize[t] + 1
	default:
		n = rapid.IntRange(0, maxBytes/typeSize[t]).Draw(rt, label+".cnt")
	}
	raw := rapid.SliceOfN(rapid.Byte(), n*typeSize[t], n*typeSize[t]).Draw(rt, label+".raw")
	v := Val{Type: t}
	switch typeSize[t] {
	case 1:
		v.B = raw
	case 2:
		v.S = make([]uint16, n)
		for i := range v.S {
			v.S[i] = uint16(raw[2*i]) | uint16(raw[2*i+1])<<8
		}
	case 4:
		v.L = make([]uint32, n)
		for i := range v.L {
			v.L[i] = uint32(raw[4*i]) | uint32(raw[4*i+1])<<8 | uint32(raw[4*i+2])<<16 | uint32(raw[4*i+3])<<24
		}
	default:
		if t == TDouble {
			v.D = make([]uint64, n)
			for i := range v.D {
				for k := 0; k < 8; k++ {
					v.D[i] |= uint64(raw[8*i+k]) << (8 * k)
				}
			}
		} else {
			v.R = make([][2]uint32, n)
			for i := range v.R {
				v.R[i][0] = uint32(raw[8*i]) | uint32(raw[8*i+1])<<8 | uint32(raw[8*i+2])<<16 | uint32(raw[8*i+3])<<24
				v.R[i][1] = uint32(raw[8*i+4]) | uint32(raw[8*i+5])<<8 | uint32(raw[8*i+6])<<16 | uint32(raw[8*i+7])<<24
			}
		}
	}
	return Entry{Tag: tag, V: v, Foreign: true}, true
}

// tags of each directory that the library interprets (must not be used for foreign entries)
var reservedIFD0 = []uint16{0x0100, 0x0101, 0x010e, 0x010f, 0x0110, 0x0111, 0x0112, 0x0117, 0x0131, 0x0132, 0x013b, 0x014a, 0x8298, 0x8769, 0x8825, 0xc612, 0xc62f}
var reservedExif = []uint16{0x829a, 0x829d, 0x8822, 0x8827, 0x9003, 0x9004, 0x9010, 0x9011, 0x9012, 0x9202, 0x9204, 0x9207, 0x9209, 0x920a, 0x927c, 0x9290, 0x9291, 0x9292,
	0xa002, 0xa003, 0xa402, 0xa405, 0xa430, 0xa431, 0xa432, 0xa433, 0xa434, 0xa435}
var reservedGPS = []uint16{1, 2, 3, 4, 5, 6, 7, 0x1d}

// plausible foreign tags per directory (real tags the library ignores)
var foreignIFD0 = []uint16{0x00fe, 0x0102, 0x0103, 0x0106, 0x0115, 0x0116, 0x011a, 0x011b, 0x011c, 0x0128, 0x013e, 0x013f, 0x0211, 0x0213, 0x0214, 0x02bc, 0x4746, 0x83bb, 0x8773, 0xc614, 0xc621}
var foreignExif = []uint16{0x9000, 0x9101, 0x9102, 0x9201, 0x9203, 0x9205, 0x9206, 0x9208, 0x9214, 0x9286, 0xa000, 0xa001, 0xa005, 0xa20e, 0xa20f, 0xa210, 0xa217, 0xa300, 0xa301, 0xa401, 0xa403, 0xa404, 0xa406, 0xa420}
var foreignGPS = []uint16{0, 8, 9, 0xa, 0xb, 0xc, 0xd, 0xe, 0xf, 0x10, 0x11, 0x12, 0x1b, 0x1e, 0x1f}

// ExifFile is a generated, encoded Exif block plus everything the oracles need.
type ExifFile struct {
	Rec     *Record
	Enc     *Encoded
	Classes []string
	// feature counters for the non-trivial rule
	Supported, OutOfLineDirs, EmbShort, EmbASCII, OutRational, Foreign int
	FirstIFD                                                           int
	Split                                                              [4]*Encoded // CMT1..CMT4 style encodings (Options.Split)
	root                                                               *Dir
}

// Reencode lays the same record out again, writer-like (tables and values in first-in-first-out order, no padding),
// with IFD0 at offset first: a deterministic function of the record, used for offset sweeps.
func (f *ExifFile) Reencode(first int) *ExifFile {
	g := *f
	trailing := make([]byte, 64)
	for i := range trailing {
		trailing[i] = 0xEE
	}
	g.Enc = Encode(f.root, first, func([]bool) int { return 0 }, func() int { return 0 }, trailing)
	g.FirstIFD = first
	return &g
}

func sortEntries(d *Dir) {
	es := d.Entries
	for i := 1; i < len(es); i++ {
		for j := i; j > 0 && es[j].Tag < es[j-1].Tag; j-- {
			es[j], es[j-1] = es[j-1], es[j]
		}
	}
}

// BuildDirs turns a record into the three directories (no foreign content).
func BuildDirs(r *Record) (ifd0, exif, gps *Dir) {
	ifd0, exif, gps = &Dir{Name: "IFD0"}, &Dir{Name: "Exif"}, &Dir{Name: "GPS"}
	addS := func(d *Dir, tag uint16, s *string) {
		if s != nil {
			d.Entries = append(d.Entries, Entry{Tag: tag, V: ASCII(*s)})
		}
	}
	addU := func(d *Dir, tag uint16, v *uint32, long bool) {
		if v != nil {
			if long {
				d.Entries = append(d.Entries, Entry{Tag: tag, V: Long(*v)})
			} else {
				d.Entries = append(d.Entries, Entry{Tag: tag, V: Short(uint16(*v))})
			}
		}
	}
	addH := func(d *Dir, tag uint16, v *uint16) {
		if v != nil {
			d.Entries = append(d.Entries, Entry{Tag: tag, V: Short(*v)})
		}
	}
	addR := func(d *Dir, tag uint16, v *[2]uint32) {
		if v != nil {
			d.Entries = append(d.Entries, Entry{Tag: tag, V: Rat(*v)})
		}
	}
	addS(ifd0, 0x010e, r.ImageDescription)
	addS(ifd0, 0x010f, r.Make)
	addS(ifd0, 0x0110, r.Model)
	addU(ifd0, 0x0100, r.Width, r.WidthLong)
	addU(ifd0, 0x0101, r.Height, r.HeightLong)
	addH(ifd0, 0x0112, r.Orientation)
	arr := func(first uint32, more []uint32, long bool) Val {
		if long {
			return Long(append([]uint32{first}, more...)...)
		}
		v := []uint16{uint16(first)}
		for _, m := range more {
			v = append(v, uint16(m))
		}
		return Short(v...)
	}
	if r.StripOffsets != nil && len(r.StripMore) > 0 {
		ifd0.Entries = append(ifd0.Entries, Entry{Tag: 0x0111, V: arr(*r.StripOffsets, r.StripMore, !r.StripShort)}, Entry{Tag: 0x0117, V: arr(*r.StripByteCounts, r.StripMore, !r.StripShort)})
	} else {
		addU(ifd0, 0x0111, r.StripOffsets, !r.StripShort)
		addU(ifd0, 0x0117, r.StripByteCounts, !r.StripShort)
	}
	addS(ifd0, 0x0131, r.Software)
	addS(ifd0, 0x013b, r.Artist)
	addS(ifd0, 0x8298, r.Copyright)
	addS(ifd0, 0x0132, r.Modify.dateText())
	if r.DNGVersion {
		ifd0.Entries = append(ifd0.Entries, Entry{Tag: 0xc612, V: Bytes(TByte, []byte{1, 4, 0, 0})})
	}
	addS(ifd0, 0xc62f, r.SerialIFD0)

	addR(exif, 0x829a, r.ExposureTime)
	addR(exif, 0x829d, r.FNumber)
	addH(exif, 0x8822, r.Program)
	if r.ISO != nil && len(r.ISOMore) > 0 {
		more := r.ISOMore
		if !r.ISOLong {
			more = append([]uint32{uint32(*r.ISOSecond)}, more...)
		}
		exif.Entries = append(exif.Entries, Entry{Tag: 0x8827, V: arr(*r.ISO, more, r.ISOLong)})
	} else if r.ISO != nil && !r.ISOLong && r.ISOSecond != nil {
		exif.Entries = append(exif.Entries, Entry{Tag: 0x8827, V: Short(uint16(*r.ISO), *r.ISOSecond)})
	} else {
		addU(exif, 0x8827, r.ISO, r.ISOLong)
	}
	addS(exif, 0x9003, r.Original.dateText())
	addS(exif, 0x9004, r.Create.dateText())
	addS(exif, 0x9010, r.Modify.Offset)
	addS(exif, 0x9011, r.Original.Offset)
	addS(exif, 0x9012, r.Create.Offset)
	addR(exif, 0x9202, r.ApertureValue)
	if r.Bias != nil {
		exif.Entries = append(exif.Entries, Entry{Tag: 0x9204, V: SRat([2]uint32{uint32(r.Bias[0]), uint32(r.Bias[1])})})
	}
	addH(exif, 0x9207, r.Metering)
	addH(exif, 0x9209, r.Flash)
	addR(exif, 0x920a, r.FocalLength)
	addS(exif, 0x9290, r.Modify.SubSec)
	addS(exif, 0x9291, r.Original.SubSec)
	addS(exif, 0x9292, r.Create.SubSec)
	addU(exif, 0xa002, r.PixelX, r.PixelLong)
	addU(exif, 0xa003, r.PixelY, r.PixelLong)
	addH(exif, 0xa402, r.Mode)
	addH(exif, 0xa405, r.FL35)
	addS(exif, 0xa430, r.OwnerName)
	addS(exif, 0xa431, r.SerialExif)
	if r.LensSpec != nil {
		exif.Entries = append(exif.Entries, Entry{Tag: 0xa432, V: Rat(r.LensSpec[0], r.LensSpec[1], r.LensSpec[2], r.LensSpec[3])})
	}
	addS(exif, 0xa433, r.LensMake)
	addS(exif, 0xa434, r.LensModel)
	addS(exif, 0xa435, r.LensSerial)

	addS(gps, 1, r.LatRef)
	if r.Lat != nil {
		gps.Entries = append(gps.Entries, Entry{Tag: 2, V: Rat(r.Lat[0], r.Lat[1], r.Lat[2])})
	}
	addS(gps, 3, r.LonRef)
	if r.Lon != nil {
		gps.Entries = append(gps.Entries, Entry{Tag: 4, V: Rat(r.Lon[0], r.Lon[1], r.Lon[2])})
	}
	if r.AltRef != nil {
		gps.Entries = append(gps.Entries, Entry{Tag: 5, V: Bytes(TByte, []byte{*r.AltRef})})
	}
	addR(gps, 6, r.Alt)
	if r.GPSTime != nil {
		gps.Entries = append(gps.Entries, Entry{Tag: 7, V: Rat(r.GPSTime[0], r.GPSTime[1], r.GPSTime[2])})
	}
	addS(gps, 0x1d, r.GPSDate)
	return
}

// GenExif draws a record and a forward layout and encodes both byte orders.
func GenExif(rt *rapid.T, o Options) *ExifFile {
	r := GenRecord(rt, o)
	ifd0, exif, gps := BuildDirs(r)
	f := &ExifFile{Rec: r}
	f.Supported = len(ifd0.Entries) + len(exif.Entries) + len(gps.Entries)
	r.Fields = f.Supported
	if len(exif.Entries) > 0 || Chance(rt, "emptyExif?", 0.1) {
		ifd0.Entries = append(ifd0.Entries, Entry{Tag: 0x8769, Child: exif})
	} else {
		exif = nil
	}
	if len(gps.Entries) > 0 {
		ifd0.Entries = append(ifd0.Entries, Entry{Tag: 0x8825, Child: gps})
	} else {
		gps = nil
	}
	// a MakerNote blob for makes whose maker notes the library does not parse
	mk := ""
	if r.Make != nil {
		mk = KnownMakes[*r.Make]
	}
	if exif != nil && mk != "Canon" && mk != "Nikon" && Chance(rt, "makernote?", 0.2) {
		blob := rapid.SliceOfN(rapid.Byte(), 5, 200).Draw(rt, "makernote")
		exif.Entries = append(exif.Entries, Entry{Tag: 0x927c, V: Bytes(TUndefined, blob), Foreign: true})
		f.Foreign++
	}
	// SubIFDs pointing at small directories that reuse IFD0 tag numbers
	if Chance(rt, "subifds?", 0.2) {
		n := rapid.IntRange(2, 4).Draw(rt, "subifds.n")
		var kids []*Dir
		for i := 0; i < n; i++ {
			k := &Dir{Name: fmt.Sprintf("Sub%d", i)}
			k.Entries = append(k.Entries, Entry{Tag: 0x0100, V: Long(rapid.Uint32Range(1, 9000).Draw(rt, "sub.w")), Foreign: true},
				Entry{Tag: 0x0101, V: Long(rapid.Uint32Range(1, 9000).Draw(rt, "sub.h")), Foreign: true},
				Entry{Tag: 0x0111, V: Long(rapid.Uint32().Draw(rt, "sub.so")), Foreign: true},
				Entry{Tag: 0x0117, V: Long(rapid.Uint32().Draw(rt, "sub.sb")), Foreign: true})
			if rapid.Bool().Draw(rt, "sub.desc") {
				k.Entries = append(k.Entries, Entry{Tag: 0x010f, V: ASCII("SubIFD make text that must be ignored"), Foreign: true})
				sortEntries(k)
			}
			kids = append(kids, k)
		}
		ifd0.Entries = append(ifd0.Entries, Entry{Tag: 0x014a, Children: kids, Foreign: true})
		f.Foreign++
	}
	// IFD1 with thumbnail tags
	if !o.BigPending && Chance(rt, "ifd1?", 0.25) {
		ifd0.Next = &Dir{Name: "IFD1", Entries: []Entry{
			{Tag: 0x0103, V: Short(6), Foreign: true},
			{Tag: 0x011a, V: Rat([2]uint32{72, 1}), Foreign: true},
			{Tag: 0x011b, V: Rat([2]uint32{72, 1}), Foreign: true},
			{Tag: 0x0201, V: Long(rapid.Uint32().Draw(rt, "thumb.off")), Foreign: true},
			{Tag: 0x0202, V: Long(rapid.Uint32().Draw(rt, "thumb.len")), Foreign: true}}}
	}
	// foreign content; the number of out-of-line references (values > 4 bytes,
	// sub-directory pointers, the IFD1 pointer) is kept <= 84 in total, which
	// bounds the reader's pending list whatever the block order is.
	countRefs := func() int {
		n := 0
		var walk func(d *Dir)
		walk = func(d *Dir) {
			if d == nil {
				return
			}
			for i := range d.Entries {
				e := &d.Entries[i]
				switch {
				case e.Child != nil:
					n++
					walk(e.Child)
				case len(e.Children) > 0:
					n += 1 + len(e.Children)
					for _, c := range e.Children {
						walk(c)
					}
				case entrySize(e) > 4:
					n++
				}
			}
			if d.Next != nil {
				n++
				walk(d.Next)
			}
		}
		walk(ifd0)
		return n
	}
	refs := countRefs()
	pendingLimit := 80 // total references; the simulated peak (<= total + 1) must stay <= 84
	if o.BigPending {
		pendingLimit = 50
	}
	maxF := o.MaxForeign
	if maxF == 0 {
		maxF = 6
	}
	dirs := []struct {
		d        *Dir
		reserved []uint16
		pool     []uint16
	}{{ifd0, reservedIFD0, foreignIFD0}, {exif, reservedExif, foreignExif}, {gps, reservedGPS, foreignGPS}}
	lim := 128
	if o.Unbuffered {
		lim = 85
	}
	usedBy := map[*Dir]map[uint16]bool{}
	for _, dd := range dirs {
		if dd.d == nil {
			continue
		}
		used := map[uint16]bool{}
		for _, t := range dd.reserved {
			used[t] = true
		}
		usedBy[dd.d] = used
		nf := rapid.IntRange(0, maxF).Draw(rt, dd.d.Name+".nforeign")
		for i := 0; i < nf && len(dd.d.Entries) < lim; i++ {
			if e, ok := foreignEntry(rt, fmt.Sprintf("%s.f%d", dd.d.Name, i), used, dd.pool, o); ok {
				if entrySize(&e) > 4 {
					if refs >= pendingLimit {
						continue
					}
					refs++
				}
				dd.d.Entries = append(dd.d.Entries, e)
				f.Foreign++
			}
		}
	}
	if o.MistypedText {
		for _, dd := range dirs[:2] {
			if dd.d == nil {
				continue
			}
			texts := []uint16{0x010e, 0x010f, 0x0110, 0x0131, 0x013b, 0x8298, 0xc62f}
			if dd.d == exif {
				texts = []uint16{0xa430, 0xa431, 0xa433, 0xa434, 0xa435, 0xa432} // (0xa432 LensSpecification: four rationals, here sixteen SHORTs)
			}
			for _, id := range texts {
				have := false
				for _, e := range dd.d.Entries {
					have = have || e.Tag == id
				}
				if have || len(dd.d.Entries) >= lim || !Chance(rt, fmt.Sprintf("mistyped.%04x", id), 0.3) {
					continue
				}
				var v Val
				if id == 0xa432 {
					if refs >= pendingLimit {
						continue
					}
					refs++
					dd.d.Entries = append(dd.d.Entries, Entry{Tag: id, V: Short(1, 2, 3, 4, 5, 6, 7, 8, 9, 10, 11, 12, 13, 14, 15, 16)})
					usedBy[dd.d][id] = true
					f.Classes = append(f.Classes, "mistyped-lens-specification")
					continue
				}
				switch rapid.IntRange(0, 3).Draw(rt, "mistyped.kind") {
				case 0:
					v = Short(0x4142, 0x4344)
				case 1:
					v = Short(0x4100 | uint16(rapid.IntRange(0x42, 0x5a).Draw(rt, "mistyped.c")))
				case 2:
					v = Long(0x41424344)
				default:
					if refs >= pendingLimit {
						continue
					}
					refs++
					v = Short(0x4142, 0x4344, 0x4546, 0x4748, 0x494a, 0x4b00)
				}
				dd.d.Entries = append(dd.d.Entries, Entry{Tag: id, V: v})
				usedBy[dd.d][id] = true
				f.Classes = append(f.Classes, "mistyped-text-tag")
			}
		}
	}
	if o.ManyEntries {
		var cands []int
		for i, dd := range dirs {
			if dd.d != nil {
				cands = append(cands, i)
			}
		}
		dd := dirs[cands[rapid.IntRange(0, len(cands)-1).Draw(rt, "many.dir")]]
		target := lim - rapid.SampledFrom([]int{0, 0, 1, 2, 10, 28}).Draw(rt, "many.below")
		for tag := uint16(0x5200); len(dd.d.Entries) < target && tag < 0x5400; tag++ {
			if usedBy[dd.d][tag] {
				continue
			}
			usedBy[dd.d][tag] = true
			var v Val
			switch tag % 4 {
			case 0:
				v = Short(tag)
			case 1:
				v = Long(uint32(tag) * 65537)
			case 2:
				v = Bytes(TByte, []byte{byte(tag), 1, 2})
			default:
				v = Short(tag, ^tag)
			}
			dd.d.Entries = append(dd.d.Entries, Entry{Tag: tag, V: v, Foreign: true})
			f.Foreign++
		}
		f.Classes = append(f.Classes, fmt.Sprintf("dir-entries:%d", len(dd.d.Entries)))
	}
	for _, d := range []*Dir{ifd0, exif, gps} {
		if d == nil {
			continue
		}
		sortEntries(d)
		if Chance(rt, d.Name+".shuffle?", 0.15) {
			d.Shuffle = rapid.Permutation(seq(len(d.Entries))).Draw(rt, d.Name+".perm")
		}
	}
	first := 8
	if Chance(rt, "firstifd?", 0.2) {
		first = 8 + rapid.IntRange(1, 64).Draw(rt, "firstifd")
	}
	if o.FirstIFD > 0 {
		first = o.FirstIFD
	}
	f.FirstIFD = first
	padMode := rapid.IntRange(0, 2).Draw(rt, "padmode")
	if o.BigPending || o.HeavyWriter {
		padMode = 0
	}
	blockMode := rapid.IntRange(0, 4).Draw(rt, "blockmode") // 0 = writer-like (FIFO), 1 = LIFO, 2 = random, 3 = tables first, 4 = values first
	if o.BigPending {
		blockMode = 3
	}
	if o.HeavyWriter {
		blockMode = 0
	}
	pick := func(isTable []bool) int {
		n := len(isTable)
		switch blockMode {
		case 0:
			return 0
		case 1:
			return n - 1
		case 3, 4:
			for i, t := range isTable {
				if t == (blockMode == 3) {
					return i
				}
			}
			return 0
		default:
			return rapid.IntRange(0, n-1).Draw(rt, "pick")
		}
	}
	// "Make before Model": the reader resolves the model table through the make,
	// so writers' tag-ordered value placement is part of the main domain.
	// one or two large holes (unused space a writer left behind, longer than the 1 KiB scratch buffer) in 8 % of the layouts
	bigGaps := 0
	if padMode != 0 && Chance(rt, "biggap?", 0.12) {
		bigGaps = rapid.IntRange(1, 2).Draw(rt, "biggaps")
		f.Classes = append(f.Classes, "hole-over-1KiB")
	}
	pad := func() int {
		if bigGaps > 0 && rapid.IntRange(0, 3).Draw(rt, "gaphere") == 0 {
			bigGaps--
			return rapid.SampledFrom([]int{1023, 1024, 1025, 1100, 2048, 2049, 3000, 5000}).Draw(rt, "gap")
		}
		switch padMode {
		case 0:
			return 0
		case 1:
			return rapid.IntRange(0, 1).Draw(rt, "pad1")
		default:
			return rapid.IntRange(0, 9).Draw(rt, "pad")
		}
	}
	trailing := rapid.SliceOfN(rapid.Byte(), 0, 64).Draw(rt, "trailing")
	// the header search needs the signature to be followed by >= 28 bytes (C12's
	// precondition); image data normally follows, so tiny blocks get a longer tail
	for len(trailing) < 64 {
		trailing = append(trailing, 0xEE)
	}
	if Chance(rt, "slotJunk?", 0.3) {
		SlotJunk = rapid.SampledFrom([]byte{0xFF, 0x01, 0x20, 0x80, 0x7F, 0xC8}).Draw(rt, "slotJunk")
		f.Classes = append(f.Classes, "slot-junk")
	}
	defer func() { SlotJunk = 0 }()
	f.Enc = Encode(ifd0, first, pick, pad, trailing)
	f.root = ifd0
	if o.BigPending {
		// Fill with foreign out-of-line tags until the reader's pending list peaks at
		// an exact size at (or just below) the documented limit. Block order is
		// tables-first and padding is off in this mode, so re-encoding draws nothing.
		target := rapid.SampledFrom([]int{84, 84, 83, 82, 70, 60}).Draw(rt, "pendingTarget")
		di := 0
		for guard := 0; f.Enc.PendingHW < target && guard < 400; guard++ {
			dd := dirs[2-di%3] // prefer the directory visited last
			di++
			if dd.d == nil || len(dd.d.Entries) >= lim {
				continue
			}
			tag := uint16(0x5000 + guard)
			if usedBy[dd.d][tag] {
				continue
			}
			usedBy[dd.d][tag] = true
			dd.d.Entries = append(dd.d.Entries, Entry{Tag: tag, V: Long(uint32(guard), 0xdeadbeef), Foreign: true})
			dd.d.Shuffle = nil
			sortEntries(dd.d)
			f.Foreign++
			f.Enc = Encode(ifd0, first, pick, pad, trailing)
		}
	}
	if o.HeavyWriter && dirs[1].d != nil {
		// Many IFD0 values are consumed before the Exif directory is entered (their slots must be given back:
		// the documented limit is on tags pending at one moment, not on tags ever queued), then the Exif
		// directory brings the pending list close to the limit.
		add := func(d *Dir, tag uint16) {
			if usedBy[d][tag] || len(d.Entries) >= lim {
				return
			}
			usedBy[d][tag] = true
			d.Entries = append(d.Entries, Entry{Tag: tag, V: Long(uint32(tag), 0xfeedface), Foreign: true})
			d.Shuffle = nil
			sortEntries(d)
			f.Foreign++
		}
		for i, n := 0, rapid.IntRange(20, 35).Draw(rt, "heavy.ifd0"); i < n; i++ {
			add(ifd0, uint16(0x5000+i)) // below 0x8769: written before the Exif directory
		}
		f.Enc = Encode(ifd0, first, pick, pad, trailing)
		target := rapid.SampledFrom([]int{84, 84, 83, 80, 76, 70}).Draw(rt, "heavy.target")
		for guard := 0; f.Enc.PendingHW < target && guard < 200; guard++ {
			before := len(dirs[1].d.Entries)
			add(dirs[1].d, uint16(0x5100+guard))
			if len(dirs[1].d.Entries) == before {
				break
			}
			f.Enc = Encode(ifd0, first, pick, pad, trailing)
		}
		for f.Enc.PendingHW > 84 && len(dirs[1].d.Entries) > 0 { // never beyond the documented limit
			es := dirs[1].d.Entries
			for i := len(es) - 1; i >= 0; i-- {
				if es[i].Foreign && es[i].Tag >= 0x5100 {
					dirs[1].d.Entries = append(es[:i], es[i+1:]...)
					break
				}
			}
			f.Enc = Encode(ifd0, first, pick, pad, trailing)
		}
		f.Classes = append(f.Classes, "heavy-writer")
	}
	if o.Split {
		// the same record as cameras write CR3 metadata: one TIFF block per directory
		root0 := &Dir{Name: "IFD0", Next: ifd0.Next}
		for _, e := range ifd0.Entries {
			if e.Child == nil {
				root0.Entries = append(root0.Entries, e)
			}
		}
		f.Split[0] = Encode(root0, first, pick, pad, trailing)
		if exif != nil {
			f.Split[1] = Encode(exif, first, pick, pad, trailing)
		}
		if gps != nil {
			f.Split[3] = Encode(gps, first, pick, pad, trailing)
		}
	}
	// class counters
	for _, d := range []*Dir{ifd0, exif, gps} {
		if d == nil {
			continue
		}
		ool := false
		for i := range d.Entries {
			e := &d.Entries[i]
			if e.Foreign || e.Child != nil {
				continue
			}
			sz := entrySize(e)
			switch {
			case sz > 4:
				ool = true
				if e.V.Type == TRational || e.V.Type == TSRational {
					f.OutRational++
				}
			case e.V.Type == TShort:
				f.EmbShort++
			case e.V.Type == TASCII:
				f.EmbASCII++
			}
		}
		if ool {
			f.OutOfLineDirs++
		}
	}
	f.Classes = append(f.Classes, fmt.Sprintf("blockmode-%d", blockMode), fmt.Sprintf("padmode-%d", padMode))
	if first != 8 {
		f.Classes = append(f.Classes, "firstifd-padded")
	}
	switch {
	case f.Enc.PendingHW >= 80:
		f.Classes = append(f.Classes, "pending>=80")
	case f.Enc.PendingHW >= 40:
		f.Classes = append(f.Classes, "pending>=40")
	}
	if f.Foreign > 0 {
		f.Classes = append(f.Classes, "foreign-tags")
	}
	if f.EmbASCII > 0 {
		f.Classes = append(f.Classes, "embedded-ascii")
	}
	if ifd0.Next != nil {
		f.Classes = append(f.Classes, "ifd1")
	}
	return f
}

func seq(n int) []int {
	s := make([]int, n)
	for i := range s {
		s[i] = i
	}
	return s
}

// NonTrivial is C03's rule: >= 5 supported fields and out-of-line values in >= 2 directories.
func (f *ExifFile) NonTrivial() bool { return f.Supported >= 5 && f.OutOfLineDirs >= 2 }
