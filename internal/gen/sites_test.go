package gen

import "testing"

func TestDiscoverSitesOnCorpus(t *testing.T) {
	for _, s := range Corpus() {
		n := len(DiscoverSites(s.Data))
		t.Logf("%-32s kind=%-5s sites=%d", s.Name, kindOfSample(s.Name, s.Data), n)
	}
}
