package gen

import (
	"encoding/binary"
	"os"
	"path/filepath"
	"sort"

	"pgregory.net/rapid"
)

var interesting32 = []uint32{0, 1, 2, 3, 4, 7, 8, 9, 12, 16, 20, 21, 24, 84, 85, 128, 129, 255, 256, 1023, 1024, 1025, 4095, 4096, 4097,
	0x7fff, 0x8000, 0xffff, 0x10000, 0x7fffffff, 0x80000000, 0xfffffff0, 0xfffffff7, 0xfffffff8, 0xffffffff}

// MutateOnce applies one hostile edit. sites (optional) address structural fields.
func MutateOnce(rt *rapid.T, b []byte, sites []Site) ([]byte, string) {
	if len(b) == 0 {
		return []byte{rapid.Byte().Draw(rt, "m.byte")}, "grow"
	}
	// positions are biased to the first 4 KiB, where the structure lives
	pos := func(label string) int {
		if len(b) > 4096 && !Chance(rt, label+".far", 0.15) {
			return rapid.IntRange(0, 4095).Draw(rt, label)
		}
		return rapid.IntRange(0, len(b)-1).Draw(rt, label)
	}
	op := rapid.IntRange(0, 8).Draw(rt, "m.op")
	if len(sites) > 0 && rapid.Bool().Draw(rt, "m.structural") {
		op = 9
	}
	out := append([]byte{}, b...)
	switch op {
	case 0:
		return out[:pos("m.trunc")], "truncate"
	case 1:
		p := pos("m.flip")
		out[p] ^= 1 << uint(rapid.IntRange(0, 7).Draw(rt, "m.bit"))
		return out, "bitflip"
	case 2:
		out[pos("m.set")] = rapid.SampledFrom([]byte{0, 1, 0x7f, 0x80, 0xff, 0xfe, 'I', 'M', '*', '<', '>', '"', '/', 0xd8, 0xd9, 0xe1}).Draw(rt, "m.val")
		return out, "byteset"
	case 3, 4:
		p := pos("m.i32")
		v := rapid.SampledFrom(interesting32).Draw(rt, "m.i32v")
		if rapid.Bool().Draw(rt, "m.i32rel") {
			v = uint32(len(b)) + uint32(rapid.IntRange(-9, 9).Draw(rt, "m.i32d"))
		}
		w := rapid.SampledFrom([]int{2, 4, 4, 8}).Draw(rt, "m.w")
		if p+w > len(out) {
			p = len(out) - w
			if p < 0 {
				return out, "noop"
			}
		}
		be := rapid.Bool().Draw(rt, "m.be")
		switch w {
		case 2:
			if be {
				binary.BigEndian.PutUint16(out[p:], uint16(v))
			} else {
				binary.LittleEndian.PutUint16(out[p:], uint16(v))
			}
		case 4:
			if be {
				binary.BigEndian.PutUint32(out[p:], v)
			} else {
				binary.LittleEndian.PutUint32(out[p:], v)
			}
		default:
			if be {
				binary.BigEndian.PutUint64(out[p:], uint64(v))
			} else {
				binary.LittleEndian.PutUint64(out[p:], uint64(v))
			}
		}
		return out, "interesting-int"
	case 5: // duplicate a block
		p := pos("m.dupFrom")
		n := rapid.IntRange(1, 64).Draw(rt, "m.dupLen")
		if p+n > len(out) {
			n = len(out) - p
		}
		q := pos("m.dupTo")
		blk := append([]byte{}, out[p:p+n]...)
		return append(append(append([]byte{}, out[:q]...), blk...), out[q:]...), "duplicate"
	case 6: // overwrite with a copy from elsewhere
		p, q := pos("m.cpFrom"), pos("m.cpTo")
		n := rapid.IntRange(1, 32).Draw(rt, "m.cpLen")
		for i := 0; i < n && p+i < len(out) && q+i < len(out); i++ {
			out[q+i] = b[p+i]
		}
		return out, "splice"
	case 7: // delete a range
		p := pos("m.delAt")
		n := rapid.IntRange(1, 32).Draw(rt, "m.delLen")
		if p+n > len(out) {
			n = len(out) - p
		}
		return append(out[:p], out[p+n:]...), "delete"
	case 8: // zero / 0xFF a range
		p := pos("m.fillAt")
		n := rapid.IntRange(1, 24).Draw(rt, "m.fillLen")
		v := rapid.SampledFrom([]byte{0, 0xff}).Draw(rt, "m.fillV")
		for i := 0; i < n && p+i < len(out); i++ {
			out[p+i] = v
		}
		return out, "fill"
	default: // structural: set an addressed field to a hostile value
		// pick the kind of field first (size / count / type / value / len ...), then a field of that kind
		kinds := map[string][]Site{}
		var names []string
		for _, st := range sites {
			k := siteKind(st.Name)
			if _, ok := kinds[k]; !ok {
				names = append(names, k)
			}
			kinds[k] = append(kinds[k], st)
		}
		sortStrings(names)
		group := kinds[rapid.SampledFrom(names).Draw(rt, "m.sitekind")]
		s := group[rapid.IntRange(0, len(group)-1).Draw(rt, "m.site")]
		if s.Off < 0 || s.Off+s.Size > len(out) {
			return out, "noop"
		}
		be := rapid.Bool().Draw(rt, "m.sitebe")
		var cur uint32
		switch {
		case s.Size == 1:
			cur = uint32(out[s.Off])
		case s.Size == 2 && be:
			cur = uint32(binary.BigEndian.Uint16(out[s.Off:]))
		case s.Size == 2:
			cur = uint32(binary.LittleEndian.Uint16(out[s.Off:]))
		case be:
			cur = binary.BigEndian.Uint32(out[s.Off:])
		default:
			cur = binary.LittleEndian.Uint32(out[s.Off:])
		}
		var v uint32
		switch rapid.IntRange(0, 5).Draw(rt, "m.sitemode") {
		case 0, 1:
			v = uint32(rapid.IntRange(0, 40).Draw(rt, "m.sitesmall"))
		case 2:
			v = cur + uint32(rapid.IntRange(-9, 9).Draw(rt, "m.sitedelta"))
		case 3:
			v = rapid.SampledFrom(interesting32).Draw(rt, "m.sitev")
		case 4:
			v = uint32(len(b)) + uint32(rapid.IntRange(-9, 9).Draw(rt, "m.sited"))
		default:
			v = uint32(s.Off) + uint32(rapid.IntRange(-16, 16).Draw(rt, "m.siteself")) // pointing at itself / backwards
		}
		switch {
		case s.Size == 1:
			out[s.Off] = byte(v)
		case s.Size == 2 && be:
			binary.BigEndian.PutUint16(out[s.Off:], uint16(v))
		case s.Size == 2:
			binary.LittleEndian.PutUint16(out[s.Off:], uint16(v))
		case s.Size == 8 && be:
			binary.BigEndian.PutUint64(out[s.Off:], uint64(v))
		case be:
			binary.BigEndian.PutUint32(out[s.Off:], v)
		default:
			binary.LittleEndian.PutUint32(out[s.Off:], v)
		}
		return out, "site:" + siteKind(s.Name)
	}
}

func siteKind(n string) string {
	for i := len(n) - 1; i >= 0; i-- {
		if n[i] == '.' {
			return n[i+1:]
		}
	}
	return n
}

// Mutate applies 1..4 edits.
func Mutate(rt *rapid.T, b []byte, sites []Site) ([]byte, []string) {
	n := rapid.IntRange(1, 4).Draw(rt, "m.n")
	var ops []string
	for i := 0; i < n; i++ {
		var op string
		b, op = MutateOnce(rt, b, sites)
		ops = append(ops, op)
	}
	return b, ops
}

// ---- corpus of the repository's sample files -------------------------------------

// Sample is one corpus file (first 256 KiB).
type Sample struct {
	Name string
	Data []byte
}

var corpusCache []Sample

// Corpus loads the repository's sample files.
func Corpus() []Sample {
	if corpusCache != nil {
		return corpusCache
	}
	root := os.Getenv("VERIF_REPO")
	if root == "" {
		root = "/repo"
	}
	var files []string
	for _, pat := range []string{"testImages/*", "assets/*", "isobmff/samples/*", "xmp/test/*.xmp"} {
		m, _ := filepath.Glob(filepath.Join(root, pat))
		files = append(files, m...)
	}
	sort.Strings(files)
	for _, f := range files {
		if filepath.Ext(f) == ".json" {
			continue
		}
		b, err := os.ReadFile(f)
		if err != nil {
			continue
		}
		if len(b) > 256<<10 {
			b = b[:256<<10]
		}
		rel, _ := filepath.Rel(root, f)
		corpusCache = append(corpusCache, Sample{rel, b})
	}
	return corpusCache
}
