package gen

import (
	"bytes"
	"encoding/binary"
	"fmt"
	"hash/crc32"
	"verif/internal/ev"

	"pgregory.net/rapid"
)

// ---------------------------------------------------------------- JPEG -------

// Seg is one JPEG marker segment.
type Seg struct {
	Marker  byte   `json:"marker"`
	Payload []byte `json:"payload"` // without the two length bytes
	Kind    string `json:"kind"`    // exif | xmp | xmpext | other | nearmiss | dqt | sof | dri | com
	Fill    int    `json:"fill"`    // 0xFF fill bytes before the marker (extended switch)
}

const (
	ExifPrefix   = "Exif\x00\x00"
	XMPPrefix    = "http://ns.adobe.com/xap/1.0/\x00"
	XMPExtPrefix = "http://ns.adobe.com/xmp/extension/\x00"
)

// SegBytes serialises one segment.
func SegBytes(s Seg) []byte {
	out := bytes.Repeat([]byte{0xFF}, s.Fill)
	out = append(out, 0xFF, s.Marker)
	var l [2]byte
	binary.BigEndian.PutUint16(l[:], uint16(len(s.Payload)+2))
	out = append(out, l[:]...)
	return append(out, s.Payload...)
}

// JPEGStream serialises SOI + segments + tail (tail = entropy-coded data etc.).
func JPEGStream(segs []Seg, tail []byte) []byte {
	out := []byte{0xFF, 0xD8}
	for _, s := range segs {
		out = append(out, SegBytes(s)...)
	}
	return append(out, tail...)
}

// randomPayload draws a payload that may contain 0xFF bytes and nested SOI/EOI.
func randomPayload(rt *rapid.T, label string, max int) []byte {
	b := rapid.SliceOfN(rapid.Byte(), 0, max).Draw(rt, label)
	if len(b) >= 8 && rapid.Bool().Draw(rt, label+".nested") {
		copy(b[len(b)/2:], []byte{0xFF, 0xD8, 0xFF, 0xE1, 0x00, 0x04})
		copy(b[len(b)-2:], []byte{0xFF, 0xD9})
	}
	return b
}

// OtherSeg draws a non-metadata segment the scanner must skip.
func OtherSeg(rt *rapid.T, label string) Seg {
	switch rapid.IntRange(0, 7).Draw(rt, label+".kind") {
	case 0:
		return Seg{Marker: 0xE0, Payload: append([]byte("JFIF\x00\x01\x02\x00\x00\x48\x00\x48\x00\x00"), randomPayload(rt, label, 30)...), Kind: "other"}
	case 1:
		return Seg{Marker: 0xFE, Payload: randomPayload(rt, label, 300), Kind: "com"}
	case 2: // APP1 that is neither Exif nor XMP (near-miss prefixes)
		pre := rapid.SampledFrom([]string{"Exif\x00", "Exif\x00\x01", "exif\x00\x00", "http://ns.adobe.com/xap/1.0/", "http://ns.adobe.com/xap/1.0/\x01", "http://ns.adobe.com/xap/2.0/\x00", "Exi", ""}).Draw(rt, label+".pre")
		p := append([]byte(pre), randomPayload(rt, label, 80)...)
		for len(p) < 40 {
			p = append(p, 'z')
		}
		// a near miss must stay a miss whatever the random bytes are
		if string(p[:6]) == ExifPrefix {
			p[5] = 0x01
		}
		if string(p[:29]) == XMPPrefix {
			p[28] = 0x01
		}
		return Seg{Marker: 0xE1, Payload: p, Kind: "nearmiss"}
	case 3:
		return Seg{Marker: 0xE2, Payload: append([]byte("ICC_PROFILE\x00\x01\x01"), randomPayload(rt, label, 400)...), Kind: "other"}
	case 4:
		return Seg{Marker: 0xED, Payload: append([]byte("Photoshop 3.0\x008BIM"), randomPayload(rt, label, 200)...), Kind: "other"}
	case 5:
		// restart interval: any 16-bit value, including ones that look like markers
		ri := rapid.SampledFrom([][]byte{{0x00, 0x10}, {0x00, 0x00}, {0xFF, 0xDB}, {0xFF, 0xE1}, {0xFF, 0xD9}, {0xFF, 0xD8}, {0xFF, 0x00}, {0xFF, 0xFE}, {0x12, 0xFF}}).Draw(rt, label+".ri")
		return Seg{Marker: 0xDD, Payload: append([]byte{}, ri...), Kind: "dri"}
	case 6: // Exif-looking payload under a marker other than APP1
		m := rapid.SampledFrom([]byte{0xE0, 0xE2, 0xE3, 0xEC, 0xEF, 0xFE}).Draw(rt, label+".m")
		return Seg{Marker: m, Payload: append([]byte("Exif\x00\x00II*\x00\x08\x00\x00\x00\x00\x00"), randomPayload(rt, label, 60)...), Kind: "other"}
	default:
		m := byte(rapid.IntRange(0xE3, 0xEF).Draw(rt, label+".appn"))
		if m == 0xED {
			m = 0xEE
		}
		return Seg{Marker: m, Payload: randomPayload(rt, label, 500), Kind: "other"}
	}
}

// DQT is the segment at which the scanner documents that it stops.
func DQT() Seg {
	p := make([]byte, 65)
	for i := range p {
		p[i] = byte(i + 1)
	}
	p[0] = 0
	return Seg{Marker: 0xDB, Payload: p, Kind: "dqt"}
}

// JPEGTail is image data: SOF0, DHT, SOS header and >= 64 bytes, EOI.
func JPEGTail(rt *rapid.T) []byte {
	t := []byte{0xFF, 0xC0, 0x00, 0x0B, 0x08, 0x00, 0x10, 0x00, 0x10, 0x01, 0x01, 0x11, 0x00}
	t = append(t, 0xFF, 0xDA, 0x00, 0x08, 0x01, 0x01, 0x00, 0x00, 0x3F, 0x00)
	data := rapid.SliceOfN(rapid.Byte(), 64, 160).Draw(rt, "scan")
	for i := range data {
		if data[i] == 0xFF {
			data[i] = 0xFE
		}
	}
	t = append(t, data...)
	return append(t, 0xFF, 0xD9)
}

// Edge describes padding that moves the embedded TIFF block to a file offset next to a multiple of a
// reader buffer size (4 KiB bufio readers, 1 KiB / 2 KiB scratch buffers): look-aheads, discards and
// refills of the streaming readers then straddle a buffer boundary. The padding is format-valid
// (a JPEG COM segment, a PNG tEXt chunk, an ISOBMFF free box) and made of spaces (no accidental signature).
type Edge struct {
	On         bool
	Unit, K, D int
}

// DrawEdge decides once per wrapper whether, and where, the block is moved.
func DrawEdge(rt *rapid.T, label string) Edge {
	if !Chance(rt, label+".edge", 0.15) {
		return Edge{}
	}
	ev.GenClass(label + "-block-at-buffer-edge")
	return Edge{On: true, Unit: rapid.SampledFrom([]int{4096, 4096, 4096, 1024, 2048}).Draw(rt, label+".edge.unit"), K: rapid.SampledFrom([]int{1, 1, 2, 3}).Draw(rt, label+".edge.k"), D: rapid.IntRange(-48, 48).Draw(rt, label+".edge.d")}
}

// pad returns how many bytes to insert so that a block now at off lands at K*Unit+D (at least min bytes).
func (e Edge) pad(off, min int) int {
	p := e.K*e.Unit + e.D - off
	for p < min {
		p += e.Unit
	}
	return p
}

func spaces(n int) []byte { return bytes.Repeat([]byte{' '}, n) }

// JPEGWrap draws the surroundings once and returns a function embedding any
// TIFF payload as APP1-Exif among the same random segments.
func JPEGWrap(rt *rapid.T) func(payload []byte) []byte {
	var before, after []Seg
	for i, n := 0, rapid.IntRange(0, 3).Draw(rt, "jpeg.before"); i < n; i++ {
		before = append(before, OtherSeg(rt, "jpeg.b"))
	}
	for i, n := 0, rapid.IntRange(0, 3).Draw(rt, "jpeg.after"); i < n; i++ {
		after = append(after, OtherSeg(rt, "jpeg.a"))
	}
	tail := JPEGTail(rt)
	edge := DrawEdge(rt, "jpeg")
	return func(payload []byte) []byte {
		build := func(pad int) []byte {
			var segs []Seg
			if pad > 0 {
				segs = append(segs, Seg{Marker: 0xFE, Payload: spaces(pad - 4), Kind: "pad"})
			}
			segs = append(segs, before...)
			segs = append(segs, Seg{Marker: 0xE1, Payload: append([]byte(ExifPrefix), payload...), Kind: "exif"})
			segs = append(segs, after...)
			segs = append(segs, DQT())
			return JPEGStream(segs, tail)
		}
		out := build(0)
		if edge.On && len(payload) >= 8 {
			if off := bytes.Index(out, payload); off > 0 {
				out = build(edge.pad(off, 4))
			}
		}
		return out
	}
}

// JPEGWith embeds a TIFF payload as APP1-Exif among random segments.
func JPEGWith(rt *rapid.T, payload []byte) []byte { return JPEGWrap(rt)(payload) }

// ----------------------------------------------------------------- PNG -------

func pngChunk(typ string, data []byte) []byte {
	out := make([]byte, 8, 12+len(data))
	binary.BigEndian.PutUint32(out, uint32(len(data)))
	copy(out[4:], typ)
	out = append(out, data...)
	crc := crc32.ChecksumIEEE(out[4:])
	var c [4]byte
	binary.BigEndian.PutUint32(c[:], crc)
	return append(out, c[:]...)
}

// PNGWrap draws the surrounding chunks once.
func PNGWrap(rt *rapid.T) func(payload []byte) []byte {
	head := []byte("\x89PNG\r\n\x1a\n")
	head = append(head, pngChunk("IHDR", []byte{0, 0, 0, 16, 0, 0, 0, 16, 8, 2, 0, 0, 0})...)
	other := func(label string) []byte {
		var out []byte
		for i, n := 0, rapid.IntRange(0, 3).Draw(rt, label+".n"); i < n; i++ {
			typ := rapid.SampledFrom([]string{"tEXt", "gAMA", "pHYs", "iTXt", "zTXt", "sBIT", "tIME", "prVt"}).Draw(rt, label+".type")
			out = append(out, pngChunk(typ, rapid.SliceOfN(rapid.Byte(), 0, 300).Draw(rt, label+".data"))...)
		}
		return out
	}
	idat := pngChunk("IDAT", rapid.SliceOfN(rapid.Byte(), 1, 200).Draw(rt, "png.idat"))
	b, a := other("png.b"), other("png.a")
	afterIDAT := rapid.Bool().Draw(rt, "png.exifAfterIDAT")
	edge := DrawEdge(rt, "png")
	return func(payload []byte) []byte {
		out := append([]byte{}, head...)
		if edge.On && len(payload) >= 8 {
			off := len(head) + len(b) + 8
			if afterIDAT {
				off += len(idat)
			}
			out = append(out, pngChunk("tEXt", append([]byte("Comment\x00"), spaces(edge.pad(off, 20)-20)...))...)
		}
		out = append(out, b...)
		if afterIDAT {
			out = append(out, idat...)
		}
		out = append(out, pngChunk("eXIf", payload)...)
		out = append(out, a...)
		if !afterIDAT {
			out = append(out, idat...)
		}
		return append(out, pngChunk("IEND", nil)...)
	}
}

// PNGWith embeds a TIFF payload as an eXIf chunk among other chunks.
func PNGWith(rt *rapid.T, payload []byte) []byte { return PNGWrap(rt)(payload) }

// ------------------------------------------------------------- ISOBMFF -------

// Box is one ISOBMFF box of the tree writer.
type Box struct {
	Type     string
	Full     bool   // FullBox: 4 bytes version/flags first
	VerFlags uint32 //
	Data     []byte // payload bytes before the children
	Kids     []*Box
	Large    bool // 64-bit size header
	// filled by Serialise
	Start, End, PayloadStart int
	// malformation: declared size = real size + Overstate (may be negative)
	Overstate int64
	ForceSize *uint32
}

// Serialise writes the tree and fills the offsets.
func (b *Box) Serialise(base int) []byte {
	b.Start = base
	hdr := 8
	if b.Large {
		hdr = 16
	}
	body := []byte{}
	if b.Full {
		var vf [4]byte
		binary.BigEndian.PutUint32(vf[:], b.VerFlags)
		body = append(body, vf[:]...)
	}
	b.PayloadStart = base + hdr
	body = append(body, b.Data...)
	for _, k := range b.Kids {
		body = append(body, k.Serialise(base+hdr+len(body))...)
	}
	size := int64(hdr + len(body))
	b.End = base + int(size)
	declared := size + b.Overstate
	out := make([]byte, hdr, hdr+len(body))
	if b.Large {
		binary.BigEndian.PutUint32(out, 1)
		copy(out[4:], b.Type)
		binary.BigEndian.PutUint64(out[8:], uint64(declared))
	} else {
		binary.BigEndian.PutUint32(out, uint32(declared))
		copy(out[4:], b.Type)
	}
	if b.ForceSize != nil {
		binary.BigEndian.PutUint32(out, *b.ForceSize)
	}
	return append(out, body...)
}

// Canon UUIDs.
var (
	UUIDCanon   = []byte{0x85, 0xc0, 0xb6, 0x87, 0x82, 0x0f, 0x11, 0xe0, 0x81, 0x11, 0xf4, 0xce, 0x46, 0x2b, 0x6a, 0x48}
	UUIDXPacket = []byte{0xbe, 0x7a, 0xcf, 0xcb, 0x97, 0xa9, 0x42, 0xe8, 0x9c, 0x71, 0x99, 0x94, 0x91, 0xe3, 0xaf, 0xac}
	UUIDPreview = []byte{0xea, 0xf4, 0x2b, 0x5e, 0x1c, 0x98, 0x4b, 0x88, 0xb9, 0xfb, 0xb7, 0xdc, 0x40, 0x6e, 0x4d, 0x16}
)

// Ftyp builds an ftyp box.
func Ftyp(major string, minor uint32, compat ...string) *Box {
	d := []byte(major)
	var m [4]byte
	binary.BigEndian.PutUint32(m[:], minor)
	d = append(d, m[:]...)
	for _, c := range compat {
		d = append(d, c...)
	}
	return &Box{Type: "ftyp", Data: d}
}

// fillerBox draws a box the reader does not interpret. Its payload contains no
// TIFF signature (the HEIF path locates Exif by signature scan).
func fillerBox(rt *rapid.T, label string) *Box {
	typ := rapid.SampledFrom([]string{"free", "skip", "mvhd", "zzzz", "THMB", "CCTP", "wide", "abcd"}).Draw(rt, label+".type")
	d := rapid.SliceOfN(rapid.Byte(), 0, 200).Draw(rt, label+".data")
	scrubSig(d)
	return &Box{Type: typ, Data: d, Large: Chance(rt, label+".large", 0.15)}
}

// scrubSig removes accidental TIFF signatures (and I/M pairs that could start one).
func scrubSig(d []byte) {
	for i := range d {
		if d[i] == 'I' || d[i] == 'M' {
			d[i] = 'x'
		}
	}
}

// CR3Wrap draws the box tree of a Canon CR3 file once; the returned function
// embeds TIFF payloads in its CMT boxes: cmt[0] = IFD0 block (CMT1), cmt[1] =
// Exif block (CMT2), cmt[2] = maker note (CMT3), cmt[3] = GPS block (CMT4); nil = absent.
func CR3Wrap(rt *rapid.T, edits ...func(moov, canon *Box)) func(cmt [4][]byte) ([]byte, *Box) {
	cctp := rapid.Bool().Draw(rt, "cr3.cctp")
	var f1 *Box
	if cctp {
		f1 = fillerBox(rt, "cr3.f1")
	}
	var mids [4]*Box
	for i := range mids {
		if Chance(rt, "cr3.mid", 0.2) {
			mids[i] = fillerBox(rt, "cr3.fm")
		}
	}
	mvhd := rapid.Bool().Draw(rt, "cr3.mvhd")
	traks := rapid.IntRange(0, 2).Draw(rt, "cr3.traks")
	canonLast := Chance(rt, "cr3.canonLast", 0.3)
	mdat := rapid.SliceOfN(rapid.Byte(), 64, 300).Draw(rt, "cr3.mdat")
	// a sibling of the CMT boxes whose own parser rejects it (a version box or a table cut short, an empty maker-note box):
	// the boxes next to it are not its business
	odd := rapid.SampledFrom([]string{"", "", "", "", "short-cncv", "empty-cmt3", "short-ctbo"}).Draw(rt, "cr3.odd")
	oddLen := rapid.IntRange(0, 29).Draw(rt, "cr3.oddlen")
	edge := DrawEdge(rt, "cr3")
	edgeAt := rapid.IntRange(1, 2).Draw(rt, "cr3.edge.at") // (never between ftyp and moov: the CR3 entry points read the box after ftyp as moov, which is the layout every camera writes)
	build := func(cmt [4][]byte, pad int) ([]byte, *Box) {
		canon := &Box{Type: "uuid", Data: append([]byte{}, UUIDCanon...)}
		add := func(b *Box) { canon.Kids = append(canon.Kids, b) }
		cncv := make([]byte, 30)
		copy(cncv, "CanonCR3_001/00.09.00/00.00.00")
		if odd == "short-cncv" {
			cncv = cncv[:oddLen]
		}
		add(&Box{Type: "CNCV", Data: cncv})
		if f1 != nil {
			add(&Box{Type: f1.Type, Data: f1.Data, Large: f1.Large})
		}
		ctbo := make([]byte, 4+20*4)
		binary.BigEndian.PutUint32(ctbo, 4)
		for i := 0; i < 4; i++ {
			binary.BigEndian.PutUint32(ctbo[4+20*i:], uint32(i+1))
			binary.BigEndian.PutUint64(ctbo[8+20*i:], uint64(1000*(i+1)))
			binary.BigEndian.PutUint64(ctbo[16+20*i:], uint64(100*(i+1)))
		}
		if odd == "short-ctbo" {
			ctbo = ctbo[:oddLen%4]
		}
		add(&Box{Type: "CTBO", Data: ctbo})
		var padBox *Box
		if pad > 0 {
			padBox = &Box{Type: "free", Data: spaces(pad - 8)}
			if edgeAt == 2 { // inside the Canon box, in front of the CMT boxes
				add(padBox)
			}
		}
		for i, name := range []string{"CMT1", "CMT2", "CMT3", "CMT4"} {
			if cmt[i] != nil {
				add(&Box{Type: name, Data: cmt[i]})
			} else if i == 2 && odd == "empty-cmt3" {
				add(&Box{Type: name})
			}
			if mids[i] != nil {
				add(&Box{Type: mids[i].Type, Data: mids[i].Data, Large: mids[i].Large})
			}
		}
		moov := &Box{Type: "moov", Kids: []*Box{canon}}
		if mvhd {
			moov.Kids = append(moov.Kids, &Box{Type: "mvhd", Full: true, Data: make([]byte, 96)})
		}
		for i := 0; i < traks; i++ {
			moov.Kids = append(moov.Kids, &Box{Type: "trak", Kids: []*Box{{Type: "tkhd", Full: true, Data: make([]byte, 80)}}})
		}
		if canonLast { // uuid after the other moov children
			moov.Kids = append(moov.Kids[1:], moov.Kids[0])
		}
		if padBox != nil && edgeAt == 1 { // first child of moov
			moov.Kids = append([]*Box{padBox}, moov.Kids...)
		}
		for _, e := range edits {
			e(moov, canon)
		}
		top := []*Box{Ftyp("crx ", 1, "crx ", "isom")}
		top = append(top, moov, &Box{Type: "mdat", Data: mdat})
		var out []byte
		root := &Box{Type: "file", Kids: top}
		for _, b := range top {
			out = append(out, b.Serialise(len(out))...)
		}
		return out, root
	}
	return func(cmt [4][]byte) ([]byte, *Box) {
		out, root := build(cmt, 0)
		if !edge.On {
			return out, root
		}
		for _, c := range cmt {
			if len(c) >= 8 {
				if off := bytes.Index(out, c); off > 0 {
					return build(cmt, edge.pad(off, 8))
				}
				break
			}
		}
		return out, root
	}
}

// CR3With embeds TIFF payloads in the CMT boxes of a Canon CR3 file.
func CR3With(rt *rapid.T, cmt [4][]byte) ([]byte, *Box) { return CR3Wrap(rt)(cmt) }

// HEIFWrap draws the surroundings of a HEIF file once; the returned function
// embeds a TIFF payload the way HEIF stores Exif: an item in mdat holding
// exif_tiff_header_offset, "Exif\0\0" and the TIFF block.
func HEIFWrap(rt *rapid.T, edits ...func(meta *Box)) func(payload []byte) []byte {
	brand := rapid.SampledFrom([][]string{{"heic", "mif1", "heic"}, {"heix", "mif1", "heix"}, {"mif1", "mif1", "heic"}, {"mif1", "heic", "miaf"}}).Draw(rt, "heif.brand")
	pre := rapid.SliceOfN(rapid.Byte(), 0, 120).Draw(rt, "heif.mdatpre")
	scrubSig(pre)
	post := rapid.SliceOfN(rapid.Byte(), 32, 200).Draw(rt, "heif.mdatpost")
	var free *Box
	if rapid.Bool().Draw(rt, "heif.free") {
		free = fillerBox(rt, "heif.f")
	}
	edge := DrawEdge(rt, "heif")
	edgeAt := rapid.IntRange(0, 2).Draw(rt, "heif.edge.at")
	var build func(payload []byte, pad int) []byte
	wrapped := func(payload []byte) []byte {
		out := build(payload, 0)
		if edge.On && len(payload) >= 8 {
			if off := bytes.Index(out, payload); off > 0 {
				out = build(payload, edge.pad(off, 8))
			}
		}
		return out
	}
	build = func(payload []byte, pad int) []byte {
		ft := Ftyp(brand[0], 0, brand[1], brand[2])
		hdlr := &Box{Type: "hdlr", Full: true, Data: append(append(make([]byte, 4), []byte("pict")...), make([]byte, 13)...)}
		pitm := &Box{Type: "pitm", Full: true, Data: []byte{0, 1}}
		infe := func(id uint16, typ string) *Box {
			d := []byte{byte(id >> 8), byte(id), 0, 0}
			d = append(d, typ...)
			d = append(d, 0)
			return &Box{Type: "infe", Full: true, VerFlags: 2 << 24, Data: d}
		}
		iinf := &Box{Type: "iinf", Full: true, Data: []byte{0, 2}, Kids: []*Box{infe(1, "hvc1"), infe(2, "Exif")}}
		meta := &Box{Type: "meta", Full: true, Kids: []*Box{hdlr, pitm, iinf}}
		item := []byte{0, 0, 0, 6}
		item = append(item, ExifPrefix...)
		item = append(item, payload...)
		mdat := &Box{Type: "mdat", Data: append(append(append([]byte{}, pre...), item...), post...)}
		// iloc with one extent for item 2 (offset filled after layout)
		iloc := &Box{Type: "iloc", Full: true, Data: make([]byte, 2+2+2+2+2+4+4)}
		meta.Kids = append(meta.Kids, iloc)
		if pad > 0 && edgeAt == 0 { // last child of meta
			meta.Kids = append(meta.Kids, &Box{Type: "free", Data: spaces(pad - 8)})
		}
		for _, e := range edits {
			e(meta)
		}
		top := []*Box{ft, meta}
		if pad > 0 && edgeAt == 1 { // between meta and mdat
			top = append(top, &Box{Type: "free", Data: spaces(pad - 8)})
		}
		inMdat := 0
		if pad > 0 && edgeAt == 2 { // inside mdat, in front of the item
			inMdat = pad
			mdat.Data = append(append(append(spaces(pad), pre...), item...), post...)
		}
		if free != nil {
			top = append(top, &Box{Type: free.Type, Data: free.Data, Large: free.Large})
		}
		top = append(top, mdat)
		serial := func() []byte {
			var out []byte
			for _, b := range top {
				out = append(out, b.Serialise(len(out))...)
			}
			return out
		}
		serial()
		d := iloc.Data
		d[0], d[1] = 0x44, 0x00 // offset_size 4, length_size 4, base_offset_size 0
		binary.BigEndian.PutUint16(d[2:], 1)
		binary.BigEndian.PutUint16(d[4:], 2) // item id
		binary.BigEndian.PutUint16(d[6:], 0) // data reference index
		binary.BigEndian.PutUint16(d[8:], 1) // extent count
		binary.BigEndian.PutUint32(d[10:], uint32(mdat.PayloadStart+inMdat+len(pre)))
		binary.BigEndian.PutUint32(d[14:], uint32(len(item)))
		return serial()
	}
	return wrapped
}

// ---- deterministic minimal containers with an explicit amount of padding in front of the block ----

// PadJPEG: SOI, [COM segments totalling pad bytes], APP1-Exif, DQT, SOS + data, EOI. pad = 0 or >= 4.
func PadJPEG(payload []byte, pad int) []byte {
	var segs []Seg
	for pad > 0 {
		n := pad
		if n > 60000 {
			n = 60000
			if pad-n < 4 {
				n -= 4
			}
		}
		segs = append(segs, Seg{Marker: 0xFE, Payload: spaces(n - 4), Kind: "pad"})
		pad -= n
	}
	segs = append(segs, Seg{Marker: 0xE1, Payload: append([]byte(ExifPrefix), payload...), Kind: "exif"}, DQT())
	return JPEGStream(segs, []byte{0xFF, 0xDA, 0x00, 0x08, 0x01, 0x01, 0x00, 0x00, 0x3F, 0x00, 0x12, 0x34, 0xFF, 0xD9})
}

// PadPNG: signature, IHDR, [tEXt chunk of pad bytes in total], eXIf, IDAT, IEND. pad = 0 or >= 20.
func PadPNG(payload []byte, pad int) []byte {
	out := []byte("\x89PNG\r\n\x1a\n")
	out = append(out, pngChunk("IHDR", []byte{0, 0, 0, 16, 0, 0, 0, 16, 8, 2, 0, 0, 0})...)
	if pad > 0 {
		out = append(out, pngChunk("tEXt", append([]byte("Comment\x00"), spaces(pad-20)...))...)
	}
	out = append(out, pngChunk("eXIf", payload)...)
	out = append(out, pngChunk("IDAT", []byte{0x78, 0x9c, 0x03, 0x00, 0x00, 0x00, 0x00, 0x01})...)
	return append(out, pngChunk("IEND", nil)...)
}

// PadCR3: ftyp, moov{[free], uuid Canon{CNCV, CTBO, [free], CMT1}}, mdat; the free box (pad bytes in total, 0 or >= 8)
// is the first child of moov (at = 0) or sits in front of CMT1 (at = 1).
func PadCR3(payload []byte, pad, at int) []byte {
	cncv := make([]byte, 30)
	copy(cncv, "CanonCR3_001/00.09.00/00.00.00")
	canon := &Box{Type: "uuid", Data: append([]byte{}, UUIDCanon...), Kids: []*Box{{Type: "CNCV", Data: cncv}, {Type: "CTBO", Data: make([]byte, 84)}}}
	moov := &Box{Type: "moov"}
	if pad > 0 && at == 0 {
		moov.Kids = append(moov.Kids, &Box{Type: "free", Data: spaces(pad - 8)})
	}
	if pad > 0 && at != 0 {
		canon.Kids = append(canon.Kids, &Box{Type: "free", Data: spaces(pad - 8)})
	}
	canon.Kids = append(canon.Kids, &Box{Type: "CMT1", Data: payload})
	moov.Kids = append(moov.Kids, canon)
	out := Ftyp("crx ", 1, "crx ", "isom").Serialise(0)
	out = append(out, moov.Serialise(len(out))...)
	return append(out, (&Box{Type: "mdat", Data: make([]byte, 64)}).Serialise(len(out))...)
}

// PadHEIF: ftyp, meta{hdlr, pitm, iinf, iloc, [free]}, [free], mdat{[spaces] item}; pad bytes (0 or >= 8) as the last
// child of meta (at = 0), between meta and mdat (at = 1), inside mdat in front of the item (at = 2) or as the first child of meta (at = 3).
func PadHEIF(payload []byte, pad, at int) []byte {
	infe := func(id uint16, typ string) *Box {
		return &Box{Type: "infe", Full: true, VerFlags: 2 << 24, Data: append(append([]byte{byte(id >> 8), byte(id), 0, 0}, typ...), 0)}
	}
	iloc := &Box{Type: "iloc", Full: true, Data: make([]byte, 18)}
	meta := &Box{Type: "meta", Full: true, Kids: []*Box{
		{Type: "hdlr", Full: true, Data: append(append(make([]byte, 4), "pict"...), make([]byte, 13)...)},
		{Type: "pitm", Full: true, Data: []byte{0, 1}},
		{Type: "iinf", Full: true, Data: []byte{0, 2}, Kids: []*Box{infe(1, "hvc1"), infe(2, "Exif")}}, iloc}}
	item := append(append([]byte{0, 0, 0, 6}, ExifPrefix...), payload...)
	mdat := &Box{Type: "mdat", Data: append(append([]byte{}, item...), make([]byte, 32)...)}
	top := []*Box{Ftyp("heic", 0, "mif1", "heic"), meta}
	inMdat := 0
	switch {
	case pad > 0 && at == 0:
		meta.Kids = append(meta.Kids, &Box{Type: "free", Data: spaces(pad - 8)})
	case pad > 0 && at == 1:
		top = append(top, &Box{Type: "free", Data: spaces(pad - 8)})
	case pad > 0 && at == 3: // first child of meta: hdlr, pitm, iinf and iloc follow the filler
		meta.Kids = append([]*Box{{Type: "free", Data: spaces(pad - 8)}}, meta.Kids...)
	case pad > 0:
		inMdat = pad
		mdat.Data = append(spaces(pad), mdat.Data...)
	}
	top = append(top, mdat)
	serial := func() []byte {
		var out []byte
		for _, b := range top {
			out = append(out, b.Serialise(len(out))...)
		}
		return out
	}
	serial()
	d := iloc.Data
	d[0] = 0x44
	binary.BigEndian.PutUint16(d[2:], 1)
	binary.BigEndian.PutUint16(d[4:], 2)
	binary.BigEndian.PutUint16(d[8:], 1)
	binary.BigEndian.PutUint32(d[10:], uint32(mdat.PayloadStart+inMdat))
	binary.BigEndian.PutUint32(d[14:], uint32(len(item)))
	return serial()
}

// WrapLying moves a run of parent's children into a new box whose declared size is wrong (it states more
// than the parent holds, or less than its own children): a reader that cannot close the wrapper finds
// the wrapped boxes at its position. Returns a description.
func WrapLying(rt *rapid.T, parent *Box) string {
	if len(parent.Kids) == 0 {
		return "no-children"
	}
	i := rapid.IntRange(0, len(parent.Kids)-1).Draw(rt, "wrap.from")
	j := rapid.IntRange(i, len(parent.Kids)-1).Draw(rt, "wrap.to")
	if rapid.IntRange(0, 3).Draw(rt, "wrap.none") == 0 {
		j = i - 1 // the lying box holds none of the parent's children: it stands in front of child i
	}
	typ := rapid.SampledFrom([]string{"free", "skip", "zzzz", "iprp", "dinf", "uuid", "iref", "iref", "ipco", "grpl", "trak"}).Draw(rt, "wrap.type")
	overs := []int64{1, 7, 8, 9, 100, 4096, 1 << 20, 1 << 30, -1, -8, -9}
	over := rapid.SampledFrom(overs).Draw(rt, "wrap.over")
	w := &Box{Type: typ, Kids: append([]*Box{}, parent.Kids[i:j+1]...), Overstate: over}
	if typ == "uuid" {
		w.Data = make([]byte, 16)
	}
	w.Full = typ == "iref"
	desc := fmt.Sprintf("%s[%d..%d]%+d in %s", typ, i, j, over, parent.Type)
	if rapid.Bool().Draw(rt, "wrap.nest") {
		// the wrapper's first child lies as well: a reader that walks the wrapper's children meets a child it cannot close
		c := &Box{Type: rapid.SampledFrom([]string{"dimg", "thmb", "cdsc", "auxl", "free", "ipma"}).Draw(rt, "wrap.ctype"), Overstate: rapid.SampledFrom(overs).Draw(rt, "wrap.cover"),
			Data: make([]byte, rapid.SampledFrom([]int{0, 0, 4, 12}).Draw(rt, "wrap.clen"))}
		w.Kids = append([]*Box{c}, w.Kids...)
		desc += fmt.Sprintf(" first child %s%+d", c.Type, c.Overstate)
	}
	parent.Kids = append(append(append([]*Box{}, parent.Kids[:i]...), w), parent.Kids[j+1:]...)
	return desc
}

// HEIFWith embeds a TIFF payload in a HEIF file.
func HEIFWith(rt *rapid.T, payload []byte) []byte { return HEIFWrap(rt)(payload) }

// BoxTypes are the box types of ISO BMFF / HEIF / Canon CR3 (ISO 14496-12, 23008-12, Canon CR3 notes).
var BoxTypes = []string{"auxC", "auxl", "av01", "av1C", "avcC", "CCDT", "CCTP", "cdsc", "clap", "CMT1", "CMT2", "CMT3", "CMT4", "CNCV", "co64", "colr",
	"CRAW", "crtt", "CTBO", "CTMD", "dimg", "dinf", "dref", "etyp", "free", "ftyp", "grpl", "hdlr", "hvcC", "idat", "iinf", "iloc", "imir", "infe", "iovl",
	"ipco", "ipma", "iprp", "iref", "irot", "ispe", "lhvC", "mdat", "mdft", "mdhd", "mdia", "meta", "minf", "moov", "mvhd", "nmhd", "oinf", "pasp", "pitm",
	"pixi", "PRVW", "stbl", "stsc", "stsd", "stsz", "stts", "thmb", "THMB", "tkhd", "tols", "trak", "uuid", "vmhd", "Exif", "zzzz"}

// SmallBoxFiles enumerates files in which one box of every known type with a
// payload of 0..maxLen bytes (zeros, ones or 0xFF) sits between well-formed
// siblings inside meta, moov, the Canon uuid box and at top level.
// SmallBoxFilesAtEdge: like SmallBoxFiles, with the box under test placed so that its payload ends gap bytes before the
// end of the first 4 KiB of the file (the reader's buffer): a parser that slices past the bytes it asked for runs out
// of buffer there instead of silently reading whatever follows.
func SmallBoxFilesAtEdge(lens, gaps []int, visit func(name string, kind string, data []byte)) {
	boxFilesAtEdge(false, lens, gaps, visit)
}

// LargeBoxFilesAtEdge: the box under test has a 64-bit size header (size field 1, the real size in the eight bytes after
// the type) and a payload of 0, 4 or 8 bytes; its 16-byte header starts 1..24 bytes before the end of the first 4 KiB, so
// that the size/type words, the 64-bit size or the payload are the first bytes the reader's buffer does not hold yet.
func LargeBoxFilesAtEdge(lens []int, visit func(name string, kind string, data []byte)) {
	for _, n := range lens {
		var gaps []int
		for before := 1; before <= 24; before++ {
			gaps = append(gaps, before-16-n) // payload ends gap bytes before the edge (negative: after it)
		}
		boxFilesAtEdge(true, []int{n}, gaps, visit)
	}
}

func boxFilesAtEdge(large bool, lens, gaps []int, visit func(name string, kind string, data []byte)) {
	for _, typ := range BoxTypes {
		for _, n := range lens {
			for _, gap := range gaps {
				payload := make([]byte, n)
				for i := range payload {
					payload[i] = 0x01
				}
				for _, where := range []string{"meta", "moov", "canon", "top", "top-heif"} {
					build := func(pad int) ([]byte, *Box) {
						tb := &Box{Type: typ, Data: payload, Large: large}
						first := &Box{Type: "free", Data: spaces(pad)}
						sib := &Box{Type: "free", Data: make([]byte, 24)}
						var top []*Box
						switch where {
						case "meta":
							top = []*Box{Ftyp("heic", 0, "mif1", "heic"), {Type: "meta", Full: true, Kids: []*Box{first, tb, sib}}}
						case "moov":
							canon := &Box{Type: "uuid", Data: append([]byte{}, UUIDCanon...), Kids: []*Box{sib}}
							top = []*Box{Ftyp("crx ", 1, "crx ", "isom"), {Type: "moov", Kids: []*Box{first, canon, tb, sib}}}
						case "top":
							canon := &Box{Type: "uuid", Data: append([]byte{}, UUIDCanon...), Kids: []*Box{sib}}
							top = []*Box{Ftyp("crx ", 1, "crx ", "isom"), first, tb, {Type: "moov", Kids: []*Box{canon, sib}}}
						case "top-heif":
							top = []*Box{Ftyp("heic", 0, "mif1", "heic"), first, tb, {Type: "meta", Full: true, Kids: []*Box{sib}}}
						default:
							canon := &Box{Type: "uuid", Data: append([]byte{}, UUIDCanon...), Kids: []*Box{first, tb, sib}}
							top = []*Box{Ftyp("crx ", 1, "crx ", "isom"), {Type: "moov", Kids: []*Box{canon, sib}}}
						}
						top = append(top, &Box{Type: "mdat", Data: make([]byte, 64)})
						var o []byte
						for _, b := range top {
							o = append(o, b.Serialise(len(o))...)
						}
						return o, tb
					}
					_, tb := build(0)
					pad := 4096 - gap - (tb.PayloadStart + n)
					for pad < 0 {
						pad += 4096
					}
					o, _ := build(pad)
					kind := "cr3"
					if where == "meta" || where == "top-heif" {
						kind = "heif"
					}
					name := fmt.Sprintf("%s-in-%s-len%d-gap%d", typ, where, n, gap)
					if large {
						name = "large-" + name
					}
					visit(name, kind, o)
				}
			}
		}
	}
}

func SmallBoxFiles(maxLen int, visit func(name string, kind string, data []byte)) {
	fills := []byte{0x00, 0x01, 0xFF}
	for _, typ := range BoxTypes {
		for n := 0; n <= maxLen; n++ {
			for _, fill := range fills {
				if n == 0 && fill != 0 {
					continue
				}
				payload := make([]byte, n)
				for i := range payload {
					payload[i] = fill
				}
				mk := func() *Box { return &Box{Type: typ, Data: payload} }
				sib := func() *Box { return &Box{Type: "free", Data: make([]byte, 24)} }
				// HEIF: inside meta
				ft := Ftyp("heic", 0, "mif1", "heic")
				meta := &Box{Type: "meta", Full: true, Kids: []*Box{sib(), mk(), sib()}}
				out := ft.Serialise(0)
				out = append(out, meta.Serialise(len(out))...)
				out = append(out, (&Box{Type: "mdat", Data: make([]byte, 64)}).Serialise(len(out))...)
				visit(typ+"-in-meta", "heif", out)
				// CR3: inside moov, inside the Canon uuid, and at top level
				for _, where := range []string{"moov", "canon", "top"} {
					canon := &Box{Type: "uuid", Data: append([]byte{}, UUIDCanon...), Kids: []*Box{sib()}}
					moov := &Box{Type: "moov", Kids: []*Box{canon, sib()}}
					top := []*Box{Ftyp("crx ", 1, "crx ", "isom"), moov}
					switch where {
					case "moov":
						moov.Kids = []*Box{canon, mk(), sib()}
					case "canon":
						canon.Kids = []*Box{sib(), mk(), sib()}
					default:
						top = []*Box{Ftyp("crx ", 1, "crx ", "isom"), mk(), moov}
					}
					top = append(top, &Box{Type: "mdat", Data: make([]byte, 64)})
					var o []byte
					for _, b := range top {
						o = append(o, b.Serialise(len(o))...)
					}
					visit(typ+"-in-"+where, "cr3", o)
				}
				if typ == "uuid" && n >= 16 {
					for ui, u := range [][]byte{UUIDCanon, UUIDXPacket, UUIDPreview} {
						p := append(append([]byte{}, u...), payload[16:]...)
						top := []*Box{Ftyp("crx ", 1, "crx ", "isom"), {Type: "uuid", Data: p}, {Type: "mdat", Data: make([]byte, 64)}}
						var o []byte
						for _, b := range top {
							o = append(o, b.Serialise(len(o))...)
						}
						visit([]string{"uuid-canon", "uuid-xpacket", "uuid-preview"}[ui]+"-top", "cr3", o)
					}
				}
			}
		}
	}
}
