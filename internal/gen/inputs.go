package gen

import (
	"encoding/binary"
	"fmt"

	"pgregory.net/rapid"

	"verif/internal/xmpgen"
)

// Input is a (mostly) well-formed file of some kind plus its addressable sites.
type Input struct {
	Kind  string
	Data  []byte
	Sites []Site
	Exif  *ExifFile // set when the file was generated from a record
}

// EntriesFor lists the entry points that make sense for a kind of input.
func EntriesFor(kind string) []string {
	switch kind {
	case "tiff":
		return []string{"Decode", "DecodeTiff", "ExifParse", "DecodeCR2", "ScanTiffHeader", "DecodeHeif"}
	case "jpeg":
		return []string{"Decode", "DecodeJPEG", "ScanJPEG", "ScanJPEGDrain", "ExifParse"}
	case "png":
		return []string{"DecodePng", "ScanPngHeader", "Decode"}
	case "cr3":
		return []string{"Decode", "DecodeCR3", "PreviewCR3", "BMFF", "BMFFRaw"}
	case "heif":
		return []string{"Decode", "DecodeHeif", "BMFF", "BMFFRaw", "DecodeTiff"}
	case "avif":
		return []string{"Decode", "BMFF", "BMFFRaw"}
	case "xmp":
		return []string{"ParseXmp"}
	default:
		return []string{"Decode", "ItScan", "ItBuf", "ItReadAt", "ItScanBuf"}
	}
}

// AllEntries mirrors worker.Entries (kept here so that gen does not import the worker).
var AllEntries = []string{
	"Decode", "DecodeTiff", "DecodeJPEG", "DecodePng", "DecodeCR3", "DecodeCR2", "DecodeHeif", "PreviewCR3",
	"ExifParse", "ScanJPEG", "ScanJPEGDrain", "ScanTiffHeader", "ScanPngHeader", "BMFF", "BMFFRaw", "ParseXmp",
	"ItScan", "ItScanBuf", "ItReadAt", "ItBuf", "ItHelpers",
}

func kindOfSample(name string, b []byte) string {
	switch {
	case len(b) > 2 && b[0] == 0xff && b[1] == 0xd8:
		return "jpeg"
	case len(b) > 4 && (string(b[:4]) == "II*\x00" || string(b[:4]) == "MM\x00*"):
		return "tiff"
	case len(b) > 12 && string(b[4:8]) == "ftyp" && string(b[8:12]) == "crx ":
		return "cr3"
	case len(b) > 12 && string(b[4:8]) == "ftyp" && string(b[8:12]) == "avif":
		return "avif"
	case len(b) > 12 && string(b[4:8]) == "ftyp":
		return "heif"
	case len(b) > 4 && string(b[1:4]) == "PNG":
		return "png"
	case len(b) > 10 && (string(b[:10]) == "<x:xmpmeta" || string(b[:5]) == "<?xpa"):
		return "xmp"
	}
	return "other"
}

var sampleSites = map[string][]Site{}

func sitesOfSample(s Sample) []Site {
	if v, ok := sampleSites[s.Name]; ok {
		return v
	}
	v := DiscoverSites(s.Data)
	sampleSites[s.Name] = v
	return v
}

func shiftSites(s []Site, by int) []Site {
	out := make([]Site, len(s))
	for i, x := range s {
		x.Off += by
		out[i] = x
	}
	return out
}

// GenInput draws a well-formed input: a repository sample or encoder output in some container.
func GenInput(rt *rapid.T, xmpPacket func(*rapid.T) []byte) Input {
	k := rapid.IntRange(0, 9).Draw(rt, "in.kind")
	if k <= 2 {
		c := Corpus()
		s := rapid.SampledFrom(c).Draw(rt, "in.sample")
		return Input{Kind: kindOfSample(s.Name, s.Data), Data: s.Data, Sites: sitesOfSample(s)}
	}
	if k == 9 {
		if xmpPacket == nil {
			xmpPacket = xmpgen.RandomPacket
		}
		if rapid.IntRange(0, 2).Draw(rt, "in.xmpstandalone") > 0 {
			return Input{Kind: "xmp", Data: xmpPacket(rt)}
		}
		// the packet inside a JPEG APP1 segment, next to an Exif segment
		f := GenExif(rt, Options{Unbuffered: true, MaxForeign: 2})
		pkt := xmpPacket(rt)
		if len(pkt) > 60000 {
			pkt = pkt[:60000]
		}
		segs := []Seg{{Marker: 0xE1, Payload: append([]byte(XMPPrefix), pkt...), Kind: "xmp"}}
		if len(f.Enc.II) < 60000 {
			e := Seg{Marker: 0xE1, Payload: append([]byte(ExifPrefix), f.Enc.II...), Kind: "exif"}
			if rapid.Bool().Draw(rt, "in.exiffirst") {
				segs = append([]Seg{e}, segs...)
			} else {
				segs = append(segs, e)
			}
		}
		segs = append(segs, DQT())
		d := JPEGStream(segs, JPEGTail(rt))
		return Input{Kind: "jpeg", Data: d, Sites: DiscoverSites(d), Exif: f}
	}
	if k == 7 && Chance(rt, "in.multipreview", 0.2) {
		d, _ := MultiPreviewCR3(rt)
		return Input{Kind: "cr3", Data: d, Sites: DiscoverSites(d)}
	}
	if (k == 3 || k == 4) && Chance(rt, "in.subifds", 0.15) {
		d, _ := SubIFDsTIFF(rt)
		return Input{Kind: "tiff", Data: d, Sites: DiscoverSites(d)}
	}
	f := GenExif(rt, Options{Unbuffered: true, MaxForeign: 4, Arrays: true})
	payload := f.Enc.II
	if rapid.Bool().Draw(rt, "in.mm") {
		payload = f.Enc.MM
	}
	switch k {
	case 3, 4:
		// a bare block sometimes ends on the last byte of its last value (no trailing image data)
		if n := len(payload) - f.Enc.Tail; f.Enc.Tail > 0 && n >= 64 && Chance(rt, "in.exactTiff", 0.3) {
			payload = payload[:n]
		}
		return Input{Kind: "tiff", Data: payload, Sites: f.Enc.Sites, Exif: f}
	case 5:
		d := JPEGWith(rt, payload)
		return Input{Kind: "jpeg", Data: d, Sites: DiscoverSites(d), Exif: f}
	case 6:
		d := PNGWith(rt, payload)
		return Input{Kind: "png", Data: d, Sites: DiscoverSites(d), Exif: f}
	case 7:
		d, _ := CR3With(rt, [4][]byte{payload, nil, nil, nil})
		return Input{Kind: "cr3", Data: d, Sites: DiscoverSites(d), Exif: f}
	default:
		d := HEIFWith(rt, payload)
		return Input{Kind: "heif", Data: d, Sites: DiscoverSites(d), Exif: f}
	}
}

// MultiPreviewCR3: a camera-layout CR3 (moov, xpacket, then preview boxes) with 1..3 Canon preview uuid boxes whose PRVW
// previews have different honest sizes (a reader object serves all of them in turn).
func MultiPreviewCR3(rt *rapid.T) ([]byte, string) {
	canon := &Box{Type: "uuid", Data: append([]byte{}, UUIDCanon...), Kids: []*Box{{Type: "CNCV", Data: make([]byte, 30)}}}
	top := []*Box{Ftyp("crx ", 1, "crx ", "isom"), {Type: "moov", Kids: []*Box{canon}},
		{Type: "uuid", Data: append(append([]byte{}, UUIDXPacket...), []byte("<x:xmpmeta xmlns:x=\"adobe:ns:meta/\"></x:xmpmeta>")...)}}
	var sizes []int
	for i, n := 0, rapid.IntRange(1, 3).Draw(rt, "mp.n"); i < n; i++ {
		sz := rapid.SampledFrom([]int{0, 1, 16, 100, 2047, 2048, 2049, 5000, 70000}).Draw(rt, "mp.size")
		sizes = append(sizes, sz)
		f := make([]byte, 16)
		binary.BigEndian.PutUint16(f[4:], 1)
		binary.BigEndian.PutUint16(f[6:], uint16(rapid.SampledFrom([]int{160, 1620, 0, 0xffff}).Draw(rt, "mp.w")))
		binary.BigEndian.PutUint16(f[8:], uint16(rapid.SampledFrom([]int{120, 1080, 0, 0xffff}).Draw(rt, "mp.h")))
		binary.BigEndian.PutUint16(f[10:], 1)
		binary.BigEndian.PutUint32(f[12:], uint32(sz))
		data := make([]byte, sz)
		for j := range data {
			data[j] = byte(j*7 + i)
		}
		top = append(top, &Box{Type: "uuid", Data: append(append([]byte{}, UUIDPreview...), 0, 0, 0, 0, 0, 0, 0, 1), Kids: []*Box{{Type: "PRVW", Data: append(f, data...)}}})
	}
	top = append(top, &Box{Type: "mdat", Data: make([]byte, 64)})
	var out []byte
	for _, b := range top {
		out = append(out, b.Serialise(len(out))...)
	}
	return out, fmt.Sprintf("previews %v", sizes)
}

// SubIFDsTIFF: a TIFF whose IFD0 carries a SubIFDs (0x014a) LONG array of 1..128 directory pointers: forward to small
// well-formed directories, backwards (to IFD0 itself or into the header), or beyond the end of the file; optionally the
// file ends right after IFD0. Returns the file and a description.
func SubIFDsTIFF(rt *rapid.T) ([]byte, string) {
	mm := rapid.Bool().Draw(rt, "sub.mm")
	bo := binary.AppendByteOrder(binary.LittleEndian)
	out := []byte("II*\x00\x08\x00\x00\x00")
	if mm {
		bo = binary.BigEndian
		out = []byte("MM\x00*\x00\x00\x00\x08")
	}
	n := rapid.SampledFrom([]int{1, 2, 6, 7, 8, 9, 10, 12, 17, 40, 80, 128}).Draw(rt, "sub.count")
	kind := rapid.SampledFrom([]string{"forward", "mixed", "backward", "beyond-eof"}).Draw(rt, "sub.kind")
	// IFD0: Make (embedded), SubIFDs, Orientation
	ifd0 := 8
	arrayAt := ifd0 + 2 + 3*12 + 4
	subAt := arrayAt + 4*n
	if n == 1 {
		subAt = arrayAt
	}
	out = bo.AppendUint16(out, 3)
	out = bo.AppendUint16(out, 0x010f)
	out = bo.AppendUint16(out, 2)
	out = bo.AppendUint32(out, 4)
	out = append(out, 'A', 'b', 'c', 0)
	out = bo.AppendUint16(out, 0x0112)
	out = bo.AppendUint16(out, 3)
	out = bo.AppendUint32(out, 1)
	out = bo.AppendUint16(out, 6)
	out = bo.AppendUint16(out, 0)
	out = bo.AppendUint16(out, 0x014a)
	out = bo.AppendUint16(out, 4)
	declared := uint32(n)
	if n >= 2 && rapid.IntRange(0, 3).Draw(rt, "sub.wrap?") == 0 {
		// a count whose size in bytes (4 x count) wraps 32 bits to the real size of the array: the value is read like an
		// honest one, and whatever loops up to the count loops a billion times
		declared |= uint32(rapid.IntRange(1, 3).Draw(rt, "sub.wrap")) << 30
	}
	out = bo.AppendUint32(out, declared)
	ptr := func(i int) uint32 {
		fwd := uint32(subAt + i*18)
		switch kind {
		case "forward":
			return fwd
		case "backward":
			return uint32(rapid.SampledFrom([]int{0, 2, 8, 10, arrayAt}).Draw(rt, "sub.back"))
		case "beyond-eof":
			return uint32(subAt + 18*n + 1000 + i*7)
		default:
			switch rapid.IntRange(0, 3).Draw(rt, "sub.mix") {
			case 0:
				return uint32(rapid.SampledFrom([]int{0, 8, arrayAt}).Draw(rt, "sub.back"))
			case 1:
				return uint32(subAt + 18*n + 5000)
			}
			return fwd
		}
	}
	if n == 1 {
		out = bo.AppendUint32(out, ptr(0))
	} else {
		out = bo.AppendUint32(out, uint32(arrayAt))
	}
	out = bo.AppendUint32(out, 0) // next IFD
	if n > 1 {
		for i := 0; i < n; i++ {
			out = bo.AppendUint32(out, ptr(i))
		}
	}
	if !Chance(rt, "sub.cut", 0.3) {
		for i := 0; i < n; i++ { // one-entry sub-directories: ImageWidth
			out = bo.AppendUint16(out, 1)
			out = bo.AppendUint16(out, 0x0100)
			out = bo.AppendUint16(out, 3)
			out = bo.AppendUint32(out, 1)
			out = bo.AppendUint16(out, uint16(100+i))
			out = bo.AppendUint16(out, 0)
			out = bo.AppendUint32(out, 0)
		}
		out = append(out, make([]byte, 64)...)
	}
	return out, fmt.Sprintf("SubIFDs x%d %s mm=%v len=%d", n, kind, mm, len(out))
}

func indexOf(hay, needle []byte) int {
	if len(needle) == 0 {
		return 0
	}
outer:
	for i := 0; i+len(needle) <= len(hay); i++ {
		for j := range needle {
			if hay[i+j] != needle[j] {
				continue outer
			}
		}
		return i
	}
	return 0
}

// Magics are the prefixes behind which arbitrary bytes are fed to the decoders.
var Magics = [][]byte{
	[]byte("II*\x00\x08\x00\x00\x00"), []byte("MM\x00*\x00\x00\x00\x08"), []byte("\xff\xd8\xff\xe1"), []byte("\xff\xd8"),
	[]byte("\x00\x00\x00\x18ftypcrx \x00\x00\x00\x01crx isom"), []byte("\x00\x00\x00\x18ftypheic\x00\x00\x00\x00mif1heic"),
	[]byte("\x00\x00\x00\x1cftypavif\x00\x00\x00\x00avifmif1miaf"), []byte("\x89PNG\r\n\x1a\n"), []byte("<x:xmpmeta xmlns:x=\"adobe:ns:meta/\">"),
	[]byte("II*\x00\x10\x00\x00\x00CR\x02\x00"), []byte("IIU\x00\x18\x00\x00\x00\x88\xe7\x74\xd8"),
}

// Embedding is one container holding the same Exif payload in both byte orders
// with identical surroundings.
type Embedding struct {
	Name    string   `json:"name"`
	II      []byte   `json:"ii"`
	MM      []byte   `json:"mm"`
	Entries []string `json:"entries"`         // decode entry points that correspond to this container
	Type    string   `json:"type"`            // expected image type: tiff | jpeg | png | cr3 | heif
	Exact   bool     `json:"exact,omitempty"` // the container carries the block without trailing bytes
}

// Embed wraps f in every container of property C06. f must have been generated with Options.Split for the cr3-split variant.
func Embed(rt *rapid.T, f *ExifFile) []Embedding {
	var out []Embedding
	out = append(out, Embedding{Name: "tiff", II: f.Enc.II, MM: f.Enc.MM, Entries: []string{"Decode", "DecodeTiff", "ExifParse"}, Type: "tiff"})
	// containers that state the block's length carry it exactly (no bytes after the last
	// value) in about half of the cases: the block then ends on the last byte of a value
	exact := rapid.Bool().Draw(rt, "embed.exactBlock")
	cut := func(e *Encoded, b []byte) []byte {
		if exact && e.Tail > 0 && e.Tail < len(b) {
			return b[:len(b)-e.Tail]
		}
		return b
	}
	pII, pMM := cut(f.Enc, f.Enc.II), cut(f.Enc, f.Enc.MM)
	if len(pII) <= 65000 {
		w := JPEGWrap(rt)
		out = append(out, Embedding{Name: "jpeg", II: w(pII), MM: w(pMM), Entries: []string{"Decode", "DecodeJPEG"}, Type: "jpeg"})
	}
	pw := PNGWrap(rt)
	out = append(out, Embedding{Name: "png", II: pw(pII), MM: pw(pMM), Entries: []string{"DecodePng"}, Type: "png"})
	cw := CR3Wrap(rt)
	a, _ := cw([4][]byte{pII, nil, nil, nil})
	b, _ := cw([4][]byte{pMM, nil, nil, nil})
	out = append(out, Embedding{Name: "cr3", II: a, MM: b, Entries: []string{"Decode", "DecodeCR3"}, Type: "cr3"})
	// The decoder resolves the camera-model table through the make, so whether the Make value is read
	// before the Model value is part of what a result legitimately depends on (DESIGN Appendix A). The
	// split encoding places its blocks independently; it is used only when it keeps that order.
	if f.Split[0] != nil && MakeBeforeModel(f.Split[0]) != MakeBeforeModel(f.Enc) {
		f.Classes = append(f.Classes, "cr3-split-skipped(make/model value order differs from the single block)")
	} else if f.Split[0] != nil {
		var ii, mm [4][]byte
		for i, e := range f.Split {
			if e != nil {
				ii[i], mm[i] = cut(e, e.II), cut(e, e.MM)
			}
		}
		a, _ := cw(ii)
		b, _ := cw(mm)
		out = append(out, Embedding{Name: "cr3-split", II: a, MM: b, Entries: []string{"Decode", "DecodeCR3"}, Type: "cr3"})
	}
	hw := HEIFWrap(rt)
	out = append(out, Embedding{Name: "heif", II: hw(pII), MM: hw(pMM), Entries: []string{"Decode", "DecodeHeif"}, Type: "heif"})
	if exact {
		for i := range out[1:] {
			out[i+1].Exact = true
		}
	}
	return out
}

// MakeBeforeModel reports whether a streaming reader meets the Make value before the Model value.
func MakeBeforeModel(e *Encoded) bool {
	mo, mok := e.ValueOff["IFD0:010f"]
	to, tok := e.ValueOff["IFD0:0110"]
	switch {
	case !mok: // make embedded (parsed while the table is read) or absent
		return true
	case !tok: // model embedded but make out of line
		return false
	default:
		return mo < to
	}
}
