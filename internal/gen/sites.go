package gen

import (
	"encoding/binary"
	"fmt"
)

// DiscoverSites walks a (well-formed) file of any supported container with
// small independent parsers and returns the structural fields worth
// malforming: box sizes, segment lengths, chunk lengths, IFD counts, entry
// types/counts/offsets, iloc/infe/pitm/PRVW/CTBO fields.
func DiscoverSites(b []byte) []Site {
	var s []Site
	switch kindOfSample("", b) {
	case "jpeg":
		s = jpegSites(b)
	case "tiff":
		s = tiffSites(b, 0)
	case "png":
		s = pngSites(b)
	case "cr3", "heif", "avif":
		s = bmffSites(b, 0, len(b), 0)
		// Exif item / any TIFF block found by signature
		for i := 0; i+8 < len(b) && i < 1<<16; i++ {
			if (b[i] == 'I' && b[i+1] == 'I' && b[i+2] == '*' && b[i+3] == 0) || (b[i] == 'M' && b[i+1] == 'M' && b[i+2] == 0 && b[i+3] == '*') {
				s = append(s, tiffSites(b, i)...)
				i += 8
			}
		}
	}
	if len(s) > 600 {
		s = s[:600]
	}
	return s
}

func jpegSites(b []byte) []Site {
	var s []Site
	i := 2
	for n := 0; i+4 <= len(b) && n < 64; n++ {
		if b[i] != 0xFF {
			break
		}
		m := b[i+1]
		l := int(binary.BigEndian.Uint16(b[i+2:]))
		s = append(s, Site{fmt.Sprintf("jpeg.seg[%02x].marker", m), i + 1, 1}, Site{fmt.Sprintf("jpeg.seg[%02x].len", m), i + 2, 2})
		if m == 0xE1 && i+10 < len(b) && string(b[i+4:i+10]) == ExifPrefix {
			s = append(s, tiffSites(b, i+10)...)
		}
		if m == 0xDA || m == 0xDB {
			break
		}
		i += 2 + l
	}
	return s
}

func pngSites(b []byte) []Site {
	var s []Site
	i := 8
	for n := 0; i+8 <= len(b) && n < 64; n++ {
		l := int(binary.BigEndian.Uint32(b[i:]))
		typ := string(b[i+4 : i+8])
		s = append(s, Site{"png." + typ + ".len", i, 4}, Site{"png." + typ + ".type", i + 4, 4})
		if typ == "eXIf" {
			s = append(s, tiffSites(b, i+8)...)
		}
		i += 12 + l
	}
	return s
}

// tiffSites walks the IFD structure that starts at base.
func tiffSites(b []byte, base int) []Site {
	var s []Site
	if base+8 > len(b) {
		return nil
	}
	var bo binary.ByteOrder = binary.LittleEndian
	if b[base] == 'M' {
		bo = binary.BigEndian
	}
	s = append(s, Site{"header.firstifd", base + 4, 4}, Site{"header.magic", base + 2, 2})
	seen := map[int]bool{}
	var walk func(name string, off int, depth int)
	walk = func(name string, off int, depth int) {
		p := base + off
		if depth > 4 || seen[off] || p+2 > len(b) || off <= 0 {
			return
		}
		seen[off] = true
		n := int(bo.Uint16(b[p:]))
		s = append(s, Site{name + ".count", p, 2})
		if n > 200 {
			return
		}
		for i := 0; i < n; i++ {
			e := p + 2 + 12*i
			if e+12 > len(b) {
				return
			}
			tag := bo.Uint16(b[e:])
			typ := bo.Uint16(b[e+2:])
			cnt := bo.Uint32(b[e+4:])
			val := bo.Uint32(b[e+8:])
			en := fmt.Sprintf("%s.entry[%d:%04x]", name, i, tag)
			s = append(s, Site{en + ".tag", e, 2}, Site{en + ".type", e + 2, 2}, Site{en + ".count", e + 4, 4}, Site{en + ".value", e + 8, 4})
			switch {
			case tag == 0x8769 && name == "IFD0":
				walk("Exif", int(val), depth+1)
			case tag == 0x8825 && name == "IFD0":
				walk("GPS", int(val), depth+1)
			case tag == 0x927c && name == "Exif":
				s = append(s, Site{"makernote.head", base + int(val), 4}, Site{"makernote.count", base + int(val) + 18, 2})
				walk("MakerNote", int(val), depth+1)
			case tag == 0x014a && typ == 4 && cnt >= 2 && cnt < 8:
				for k := 0; k < int(cnt); k++ {
					q := base + int(val) + 4*k
					if q+4 <= len(b) {
						s = append(s, Site{fmt.Sprintf("subifds[%d]", k), q, 4})
						walk(fmt.Sprintf("Sub%d", k), int(bo.Uint32(b[q:])), depth+1)
					}
				}
			}
		}
		np := p + 2 + 12*n
		if np+4 <= len(b) {
			s = append(s, Site{name + ".next", np, 4})
			if name == "IFD0" {
				walk("IFD1", int(bo.Uint32(b[np:])), depth+1)
			}
		}
	}
	walk("IFD0", int(bo.Uint32(b[base+4:])), 0)
	return s
}

var bmffContainers = map[string]int{"moov": 0, "trak": 0, "mdia": 0, "minf": 0, "stbl": 0, "dinf": 0, "iprp": 0, "ipco": 0, "meta": 4, "iref": 4, "iinf": 6}

func bmffSites(b []byte, from, to, depth int) []Site {
	var s []Site
	i := from
	for n := 0; i+8 <= to && i+8 <= len(b) && n < 200 && depth < 8; n++ {
		size := int(binary.BigEndian.Uint32(b[i:]))
		typ := string(b[i+4 : i+8])
		hdr := 8
		s = append(s, Site{"box." + typ + ".size", i, 4}, Site{"box." + typ + ".type", i + 4, 4})
		if size == 1 && i+16 <= len(b) {
			s = append(s, Site{"box." + typ + ".size64", i + 8, 8}, Site{"box." + typ + ".size64lo", i + 12, 4})
			size = int(binary.BigEndian.Uint64(b[i+8:]))
			hdr = 16
		}
		if size < hdr {
			break
		}
		end := i + size
		if end > len(b) {
			end = len(b)
		}
		body := i + hdr
		if skip, ok := bmffContainers[typ]; ok {
			if typ == "iinf" {
				s = append(s, Site{"iinf.count", body + 4, 2})
			}
			s = append(s, bmffSites(b, body+skip, end, depth+1)...)
		}
		switch typ {
		case "uuid":
			if body+16 <= len(b) {
				u := b[body : body+16]
				switch {
				case string(u) == string(UUIDCanon):
					s = append(s, bmffSites(b, body+16, end, depth+1)...)
				case string(u) == string(UUIDPreview):
					s = append(s, Site{"prvw.box.size", body + 24, 4}, Site{"prvw.box.type", body + 28, 4}, Site{"prvw.width", body + 32 + 14 - 8, 2}, Site{"prvw.jpegsize", body + 32 + 20 - 8, 4})
				}
				s = append(s, Site{"uuid.bytes", body, 4})
			}
		case "ftyp":
			s = append(s, Site{"ftyp.major", body, 4})
		case "iloc":
			s = append(s, Site{"iloc.sizes", body + 4, 2}, Site{"iloc.count", body + 6, 2}, Site{"iloc.entry0", body + 8, 4}, Site{"iloc.entry0b", body + 12, 4}, Site{"iloc.extent", body + 16, 4}, Site{"iloc.extentlen", body + 20, 4})
		case "infe":
			s = append(s, Site{"infe.flags", body, 4}, Site{"infe.id", body + 4, 2}, Site{"infe.type", body + 8, 4}, Site{"infe.term", body + 12, 1})
		case "pitm", "hdlr", "idat", "ipma":
			s = append(s, Site{typ + ".body", body, 4}, Site{typ + ".body4", body + 4, 4})
		case "CTBO":
			s = append(s, Site{"ctbo.count", body, 4}, Site{"ctbo.idx0", body + 4, 4}, Site{"ctbo.idx1", body + 24, 4})
		case "CMT1", "CMT2", "CMT3", "CMT4":
			s = append(s, tiffSites(b, body)...)
		}
		i += size
	}
	return s
}
