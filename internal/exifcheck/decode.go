package exifcheck

import (
	"bytes"
	"fmt"
	"strings"

	"github.com/evanoberholster/imagemeta"
	"github.com/evanoberholster/imagemeta/exif2"
	"github.com/evanoberholster/imagemeta/imagetype"
	"github.com/evanoberholster/imagemeta/isobmff"

	"verif/internal/digest"
)

// Decode runs one entry point in-process on b, converting a panic into a message.
func Decode(entry string, b []byte) (e exif2.Exif, err error, pan string) {
	defer func() {
		if r := recover(); r != nil {
			pan = fmt.Sprint(r)
		}
	}()
	rd := bytes.NewReader(b)
	switch entry {
	case "Decode":
		e, err = imagemeta.Decode(rd)
	case "DecodeTiff":
		e, err = imagemeta.DecodeTiff(rd)
	case "DecodeJPEG":
		e, err = imagemeta.DecodeJPEG(rd)
	case "DecodePng":
		e, err = imagemeta.DecodePng(rd)
	case "DecodeCR3":
		e, err = imagemeta.DecodeCR3(rd)
	case "DecodeCR2":
		e, err = imagemeta.DecodeCR2(rd)
	case "DecodeHeif":
		e, err = imagemeta.DecodeHeif(rd)
	case "ExifParse":
		e, err = exif2.Parse(rd)
	case "BMFFExif": // the box reader with the Exif reader as its callback, every top-level box
		ir := exif2.NewIfdReader(exif2.Logger)
		defer ir.Close()
		bmr := isobmff.NewReader(rd)
		defer bmr.Close()
		bmr.ExifReader = ir.DecodeIfd
		err = bmr.ReadFTYP()
		for i := 0; i < 8 && err == nil; i++ {
			err = bmr.ReadMetadata()
		}
		err = nil // asked for more top-level boxes than the file has; what was extracted is what the caller compares
		e = ir.Exif
	default:
		pan = "unknown entry " + entry
	}
	return
}

// WantType maps a container name to the image type it must report.
func WantType(container string, dng bool) imagetype.ImageType {
	switch container {
	case "tiff":
		if dng {
			return imagetype.ImageDNG
		}
		return imagetype.ImageTiff
	case "jpeg":
		return imagetype.ImageJPEG
	case "png":
		return imagetype.ImagePNG
	case "cr3":
		return imagetype.ImageCR3
	case "heif":
		return imagetype.ImageHEIF
	}
	return imagetype.ImageUnknown
}

// MaskedDigest renders the metadata with the ImageType line removed (the only
// thing allowed to differ between containers).
func MaskedDigest(e exif2.Exif) string {
	var out []string
	for _, ln := range strings.Split(digest.Of(e), "\n") {
		if strings.HasPrefix(ln, ".ImageType=") {
			continue
		}
		out = append(out, ln)
	}
	return strings.Join(out, "\n")
}

// FirstDiff returns the first differing line of two digests.
func FirstDiff(a, b string) string {
	la, lb := strings.Split(a, "\n"), strings.Split(b, "\n")
	for i := 0; i < len(la) || i < len(lb); i++ {
		var x, y string
		if i < len(la) {
			x = la[i]
		}
		if i < len(lb) {
			y = lb[i]
		}
		if x != y {
			return fmt.Sprintf("%q vs %q", x, y)
		}
	}
	return ""
}
