// Package exifcheck compares a decoded exif2.Exif with the logical record a
// file was generated from. Expectations follow the TIFF 6.0 / Exif 2.32 text
// (DESIGN.md Appendix A), not the decoder's own expressions.
package exifcheck

import (
	"fmt"
	"math"
	"reflect"
	"time"

	"github.com/evanoberholster/imagemeta/exif2"

	"verif/internal/gen"
)

// Ctx carries layout facts the expectation depends on.
type Ctx struct {
	MakeBeforeModel bool // Make value is read before the Model value
}

// CtxOf derives the context from an encoding.
func CtxOf(f *gen.ExifFile) Ctx {
	mo, mok := f.Enc.ValueOff["IFD0:010f"]
	to, tok := f.Enc.ValueOff["IFD0:0110"]
	switch {
	case !mok: // make embedded (parsed while the table is read) or absent
		return Ctx{MakeBeforeModel: true}
	case !tok: // model embedded but make out of line
		return Ctx{MakeBeforeModel: false}
	default:
		return Ctx{MakeBeforeModel: mo < to}
	}
}

const relTol32 = 1.0 / (1 << 22) // 2 ulp of float32 at the coarse end of a binade

func near32(got float32, n, d uint32) bool {
	want := float64(n) / float64(d)
	return math.Abs(float64(got)-want) <= relTol32*math.Abs(want)
}

func str(p *string) string {
	if p == nil {
		return ""
	}
	return *p
}

// modelled lists the Exif struct fields the comparison covers; every other
// exported field must be its zero value.
var modelled = map[string]bool{
	"GPS": true, "LensInfo": true, "Time": true, "ImageDescription": true, "Software": true, "Artist": true, "Copyright": true,
	"LensMake": true, "LensModel": true, "LensSerial": true, "CameraSerial": true, "Make": true, "Model": true, "CameraModel": true,
	"CameraMake": true, "ExposureTime": true, "FocalLength": true, "FocalLengthIn35mmFormat": true, "StripOffsets": true,
	"StripByteCounts": true, "FNumber": true, "ISOSpeed": true, "ImageWidth": true, "ImageHeight": true, "Orientation": true,
	"ExposureProgram": true, "ExposureBias": true, "ExposureMode": true, "MeteringMode": true, "Flash": true, "ImageType": true,
}

// Compare returns one message per field that differs from the record.
func Compare(e exif2.Exif, r *gen.Record, c Ctx) []string {
	var d []string
	bad := func(format string, a ...any) { d = append(d, fmt.Sprintf(format, a...)) }
	eqS := func(name, got string, want *string) {
		if got != str(want) {
			bad("%s = %q, file says %q", name, got, str(want))
		}
	}
	// make / model
	if r.Make == nil {
		if e.Make != "" || e.CameraMake != 0 {
			bad("Make = %q (%d) but the file has no Make tag", e.Make, e.CameraMake)
		}
	} else if canon, ok := gen.KnownMakes[*r.Make]; ok {
		if e.CameraMake.String() != canon {
			bad("CameraMake = %q for Make %q, want %q", e.CameraMake.String(), *r.Make, canon)
		}
		if e.Make != canon && e.Make != *r.Make {
			bad("Make = %q, file says %q", e.Make, *r.Make)
		}
	} else {
		if e.CameraMake != 0 {
			bad("CameraMake = %v for undocumented make %q, want unknown", e.CameraMake, *r.Make)
		}
		if e.Make != *r.Make {
			bad("Make = %q, file says %q", e.Make, *r.Make)
		}
	}
	eqS("Model", e.Model, r.Model)
	if r.Model != nil && r.Make != nil {
		isCanon := gen.KnownMakes[*r.Make] == "Canon"
		known := false
		for _, m := range gen.KnownCanonModels {
			if m == *r.Model {
				known = true
			}
		}
		switch {
		case isCanon && known: // (wherever the two values lie: the order of the values in the file is the writer's choice)
			if e.CameraModel == 0 || e.CameraModel.String() != *r.Model {
				bad("CameraModel = %d (%q) for documented Canon model %q", e.CameraModel, e.CameraModel.String(), *r.Model)
			}
		case gen.KnownMakes[*r.Make] != "Canon" && gen.KnownMakes[*r.Make] != "Apple":
			if e.CameraModel != 0 {
				bad("CameraModel = %d for make %q, want unknown", e.CameraModel, *r.Make)
			}
		}
	} else if r.Model == nil && e.CameraModel != 0 {
		bad("CameraModel = %d but the file has no Model tag", e.CameraModel)
	}
	eqS("ImageDescription", e.ImageDescription, r.ImageDescription)
	eqS("Software", e.Software, r.Software)
	if r.Artist != nil {
		eqS("Artist", e.Artist, r.Artist)
	} else {
		eqS("Artist(from CameraOwnerName)", e.Artist, r.OwnerName)
	}
	eqS("Copyright", e.Copyright, r.Copyright)
	eqS("LensMake", e.LensMake, r.LensMake)
	eqS("LensModel", e.LensModel, r.LensModel)
	eqS("LensSerial", e.LensSerial, r.LensSerial)
	if r.SerialIFD0 != nil {
		eqS("CameraSerial", e.CameraSerial, r.SerialIFD0)
	} else {
		eqS("CameraSerial", e.CameraSerial, r.SerialExif)
	}
	u := func(p *uint32) uint32 {
		if p == nil {
			return 0
		}
		return *p
	}
	h := func(p *uint16) uint16 {
		if p == nil {
			return 0
		}
		return *p
	}
	wantW, wantH := u(r.Width), u(r.Height)
	if r.Width == nil {
		wantW = u(r.PixelX)
	}
	if r.Height == nil {
		wantH = u(r.PixelY)
	}
	if uint32(e.ImageWidth) != wantW {
		bad("ImageWidth = %d, file says %d", e.ImageWidth, wantW)
	}
	if uint32(e.ImageHeight) != wantH {
		bad("ImageHeight = %d, file says %d", e.ImageHeight, wantH)
	}
	if uint16(e.Orientation) != h(r.Orientation) {
		bad("Orientation = %d, file says %d", e.Orientation, h(r.Orientation))
	}
	if e.StripOffsets != u(r.StripOffsets) || e.StripByteCounts != u(r.StripByteCounts) {
		bad("StripOffsets/ByteCounts = %d/%d, file says %d/%d", e.StripOffsets, e.StripByteCounts, u(r.StripOffsets), u(r.StripByteCounts))
	}
	rat := func(name string, got float32, want *[2]uint32) {
		if want == nil {
			if got != 0 {
				bad("%s = %g but the tag is absent", name, got)
			}
			return
		}
		if !near32(got, want[0], want[1]) {
			bad("%s = %g, file says %d/%d = %g", name, got, want[0], want[1], float64(want[0])/float64(want[1]))
		}
	}
	rat("ExposureTime", float32(e.ExposureTime), r.ExposureTime)
	if r.FNumber != nil {
		rat("FNumber", float32(e.FNumber), r.FNumber)
	} else if r.ApertureValue != nil {
		want := math.Pow(2, float64(r.ApertureValue[0])/float64(r.ApertureValue[1])/2)
		if math.Abs(float64(e.FNumber)-want) > 0.006+want*relTol32 {
			bad("FNumber = %g from ApertureValue %d/%d, want %g", e.FNumber, r.ApertureValue[0], r.ApertureValue[1], want)
		}
	} else if e.FNumber != 0 {
		bad("FNumber = %g but neither FNumber nor ApertureValue is present", e.FNumber)
	}
	rat("FocalLength", float32(e.FocalLength), r.FocalLength)
	if float32(e.FocalLengthIn35mmFormat) != float32(h(r.FL35)) {
		bad("FocalLengthIn35mmFormat = %g, file says %d", e.FocalLengthIn35mmFormat, h(r.FL35))
	}
	if e.ISOSpeed != u(r.ISO) {
		bad("ISOSpeed = %d, file says %d", e.ISOSpeed, u(r.ISO))
	}
	if r.Bias != nil {
		// the reported value is a fraction n/d packed into 8 + 8 bits: it must equal the file's fraction (cross-multiplied;
		// a reduced form is the same value), with a non-zero denominator unless the file's is zero
		gn, gd := int64(int8(uint16(e.ExposureBias)>>8)), int64(uint8(uint16(e.ExposureBias)))
		fn, fd := int64(r.Bias[0]), int64(r.Bias[1])
		if gn*fd != fn*gd || (gd == 0) != (fd == 0) && fn != 0 {
			bad("ExposureBias = %#04x (%s), file says %d/%d", uint16(e.ExposureBias), e.ExposureBias, r.Bias[0], r.Bias[1])
		}
	} else if e.ExposureBias != 0 {
		bad("ExposureBias = %#04x but the tag is absent", uint16(e.ExposureBias))
	}
	if uint16(e.ExposureProgram) != h(r.Program) || uint16(e.ExposureMode) != h(r.Mode) || uint16(e.MeteringMode) != h(r.Metering) || uint16(e.Flash) != h(r.Flash) {
		bad("Program/Mode/Metering/Flash = %d/%d/%d/%d, file says %d/%d/%d/%d", e.ExposureProgram, e.ExposureMode, e.MeteringMode, e.Flash,
			h(r.Program), h(r.Mode), h(r.Metering), h(r.Flash))
	}
	var wantLens exif2.LensInfo
	if r.LensSpec != nil {
		for i := 0; i < 4; i++ {
			wantLens[2*i], wantLens[2*i+1] = r.LensSpec[i][0], r.LensSpec[i][1]
		}
	}
	if e.LensInfo != wantLens {
		bad("LensInfo = %v, file says %v", e.LensInfo, wantLens)
	}
	stamp := func(name string, got time.Time, s gen.Stamp) {
		if s.Date == nil {
			// sub-second and offset tags qualify a date: without the date tag there is no timestamp to report
			if !got.IsZero() && s.Unknown != "" {
				bad("%s = %v but the date tag says \"unknown\" (%s digits; sub-second %q, offset %q): there is no timestamp to report", name, got, s.Unknown, str(s.SubSec), str(s.Offset))
			} else if !got.IsZero() {
				bad("%s = %v but the date tag is absent (sub-second %q, offset %q)", name, got, str(s.SubSec), str(s.Offset))
			}
			return
		}
		dt := *s.Date
		ms := 0
		if s.SubSec != nil {
			// Exif: the digits are the fraction of a second
			frac := 0.0
			scale := 0.1
			for _, ch := range *s.SubSec {
				frac += float64(ch-'0') * scale
				scale /= 10
			}
			ms = int(frac*1000 + 1e-6)
		}
		if got.Year() != dt.Y || int(got.Month()) != dt.Mo || got.Day() != dt.D || got.Hour() != dt.H || got.Minute() != dt.Mi || got.Second() != dt.S {
			bad("%s wall clock = %s, file says %s", name, got.Format("2006:01:02 15:04:05"), dt.String())
		}
		if got.Nanosecond()/1e6 != ms {
			bad("%s sub-second = %d ms, file says %q = %d ms", name, got.Nanosecond()/1e6, str(s.SubSec), ms)
		}
		_, off := got.Zone()
		wantOff := 0
		if s.Offset != nil {
			o := *s.Offset
			wantOff = (int(o[1]-'0')*10+int(o[2]-'0'))*3600 + (int(o[4]-'0')*10+int(o[5]-'0'))*60
			if o[0] == '-' {
				wantOff = -wantOff
			}
		}
		if off != wantOff {
			bad("%s zone offset = %d s, file says %q = %d s", name, off, str(s.Offset), wantOff)
		}
	}
	stamp("ModifyDate", e.ModifyDate(), r.Modify)
	stamp("DateTimeOriginal", e.DateTimeOriginal(), r.Original)
	stamp("CreateDate", e.CreateDate(), r.Create)
	coord := func(name string, got float64, v *[3][2]uint32, ref *string, neg string) {
		if v == nil {
			if got != 0 {
				bad("%s = %g but the tag is absent", name, got)
			}
			return
		}
		want := float64(v[0][0])/float64(v[0][1]) + float64(v[1][0])/float64(v[1][1])/60 + float64(v[2][0])/float64(v[2][1])/3600
		if ref != nil && *ref == neg {
			want = -want
		}
		if math.Abs(got-want) > 1e-9*math.Max(1, math.Abs(want)) || (want != 0 && math.Signbit(got) != math.Signbit(want)) {
			bad("%s = %.12g, file says %.12g (ref %q)", name, got, want, str(ref))
		}
	}
	coord("GPS latitude", e.GPS.Latitude(), r.Lat, r.LatRef, "S")
	coord("GPS longitude", e.GPS.Longitude(), r.Lon, r.LonRef, "W")
	if r.Alt == nil {
		if e.GPS.Altitude() != 0 {
			bad("GPS altitude = %g but the tag is absent", e.GPS.Altitude())
		}
	} else {
		got := e.GPS.Altitude()
		want := float64(r.Alt[0]) / float64(r.Alt[1])
		if r.AltRef != nil && *r.AltRef == 1 {
			want = -want
		}
		if math.Abs(float64(got)-want) > relTol32*math.Abs(want) {
			bad("GPS altitude = %g, file says %g", got, want)
		}
	}
	if r.GPSDate != nil {
		var y, mo, dd int
		fmt.Sscanf(*r.GPSDate, "%04d:%02d:%02d", &y, &mo, &dd)
		want := time.Date(y, time.Month(mo), dd, 0, 0, 0, 0, time.UTC)
		if r.GPSTime != nil {
			t := r.GPSTime
			want = want.Add(time.Duration(t[0][0]/t[0][1])*time.Hour + time.Duration(t[1][0]/t[1][1])*time.Minute + time.Duration(t[2][0]/t[2][1])*time.Second)
		}
		if got := e.GPS.Date(); !got.Equal(want) {
			bad("GPS date = %v, file says %v", got.UTC(), want)
		}
	} else if r.GPSTime == nil && !e.GPS.Date().IsZero() {
		bad("GPS date = %v but the tags are absent", e.GPS.Date())
	}
	// everything the record does not model must stay zero
	rv := reflect.ValueOf(e)
	for i := 0; i < rv.NumField(); i++ {
		name := rv.Type().Field(i).Name
		if modelled[name] {
			continue
		}
		if !rv.Field(i).IsZero() {
			bad("field %s = %v is set although the file does not contain it", name, rv.Field(i).Interface())
		}
	}
	return d
}
