// Package pbt glues rapid to the evidence recorder: it runs a property with a
// fixed seed and case count, captures the shrunk failing case, writes it as a
// self-contained replay file and prints the VIOLATION line.
package pbt

import (
	"bufio"
	"encoding/json"
	"flag"
	"fmt"
	"os"
	"path/filepath"
	"strconv"
	"strings"
	"testing"

	"pgregory.net/rapid"

	"verif/internal/ev"
)

// Fail describes a violated oracle. Key is the finding signature used to match
// known_findings.txt ("" = never a known finding).
type Fail struct {
	Msg string
	Key string
}

// Failf builds a Fail.
func Failf(key, format string, a ...any) *Fail {
	return &Fail{Key: key, Msg: fmt.Sprintf(format, a...)}
}

// Check is one generated check: Gen draws a case, Eval decides it.
type Check[C any] struct {
	Name string
	Gen  func(*rapid.T) C
	Eval func(C) *Fail
}

type replayFile struct {
	Property string          `json:"property"`
	Check    string          `json:"check"`
	Message  string          `json:"message"`
	Key      string          `json:"key,omitempty"`
	Case     json.RawMessage `json:"case"`
}

var replayers = map[string]func(json.RawMessage) (*Fail, error){}

// Register makes the check replayable by name.
func Register[C any](chk Check[C]) {
	replayers[chk.Name] = func(raw json.RawMessage) (*Fail, error) {
		var c C
		if err := json.Unmarshal(raw, &c); err != nil {
			return nil, err
		}
		return chk.Eval(c), nil
	}
}

// Known findings -----------------------------------------------------------

type knownSet map[string]string

var knownCache = map[string]knownSet{}

// Known returns the "finding:" entries of known_findings.txt for a property,
// keyed by signature. "fixed:" entries suppress nothing and are ignored here.
func Known(rec *ev.Recorder) knownSet {
	if k, ok := knownCache[rec.ID]; ok {
		return k
	}
	k := knownSet{}
	f, err := os.Open(filepath.Join(rec.Env.Root, "known_findings.txt"))
	if err == nil {
		sc := bufio.NewScanner(f)
		sc.Buffer(make([]byte, 1<<20), 1<<20)
		for sc.Scan() {
			line := strings.TrimSpace(sc.Text())
			if !strings.HasPrefix(line, "finding:") {
				continue
			}
			fs := strings.Fields(line[len("finding:"):])
			if len(fs) < 2 || fs[0] != "property="+rec.ID || !strings.HasPrefix(fs[1], "key=") {
				continue
			}
			k[strings.TrimPrefix(fs[1], "key=")] = strings.Join(fs[2:], " ")
		}
		f.Close()
	}
	knownCache[rec.ID] = k
	return k
}

// Filter turns a failure whose key is listed into a KNOWN-FINDING line.
func Filter(rec *ev.Recorder, f *Fail) *Fail {
	if f == nil {
		return nil
	}
	if f.Key != "" {
		if what, ok := Known(rec)[f.Key]; ok {
			rec.Known(f.Key, what)
			return nil
		}
	}
	return f
}

// WriteReplay stores a failing case and returns its path.
func WriteReplay[C any](rec *ev.Recorder, check string, c C, f *Fail) string {
	raw, err := json.Marshal(c)
	if err != nil {
		raw = []byte(strconv.Quote(fmt.Sprintf("unmarshalable case: %v", err)))
	}
	rf := replayFile{Property: rec.ID, Check: check, Message: f.Msg, Key: f.Key, Case: raw}
	b, _ := json.MarshalIndent(rf, "", " ")
	dir := filepath.Join(rec.Env.Root, "replay")
	_ = os.MkdirAll(dir, 0o755)
	p := filepath.Join(dir, fmt.Sprintf("%s-%s-%016x.json", rec.ID, sanitize(check), ev.Hash(raw)))
	_ = os.WriteFile(p, b, 0o644)
	return p
}

func sanitize(s string) string {
	return strings.Map(func(r rune) rune {
		if r >= 'a' && r <= 'z' || r >= 'A' && r <= 'Z' || r >= '0' && r <= '9' || r == '_' || r == '-' {
			return r
		}
		return '_'
	}, s)
}

// Report handles a failure found outside rapid (exhaustive loops, replays).
// Returns true if it was a real (unlisted) violation.
func Report[C any](t *testing.T, rec *ev.Recorder, check string, c C, f *Fail) bool {
	if f = Filter(rec, f); f == nil {
		return false
	}
	if survey(rec, check, c, f) {
		return false
	}
	p := WriteReplay(rec, check, c, f)
	rec.Violation(p, check+": "+f.Msg)
	t.Errorf("%s: %s", check, f.Msg)
	return true
}

// Terminal reports a failure after which the test process cannot go on (a deadlock leaves a lock of the library held
// for good: every further evaluation, and every shrinking attempt, would hang as well): the case is written as it is,
// the evidence part is written, and the process exits with status 1.
func Terminal[C any](rec *ev.Recorder, check string, c C, f *Fail) {
	if f = Filter(rec, f); f == nil {
		return
	}
	if survey(rec, check, c, f) {
		rec.MustWrite()
		os.Exit(0)
	}
	p := WriteReplay(rec, check, c, f)
	rec.Violation(p, check+": "+f.Msg)
	ClearInflight(rec)
	rec.MustWrite()
	os.Exit(1)
}

// CrashGuard, when set by a props package whose subject can kill the process
// (assembly kernels), makes Run/Report record the case in flight in a file
// before every evaluation. If the test binary dies with a fatal error the driver
// turns that file into the replay file of a VIOLATION.
var CrashGuard bool

func inflightPath(rec *ev.Recorder) string {
	return filepath.Join(rec.Env.PartsDir, fmt.Sprintf("inflight.%s.%d.json", rec.ID, rec.Env.Shard))
}

// MarkInflight records c as the case being evaluated (no-op unless CrashGuard).
func MarkInflight[C any](rec *ev.Recorder, check string, c C) {
	if !CrashGuard {
		return
	}
	raw, err := json.Marshal(c)
	if err != nil {
		return
	}
	rf := replayFile{Property: rec.ID, Check: check, Message: "the test process died with a fatal error while evaluating this case", Key: "", Case: raw}
	b, _ := json.Marshal(rf)
	if inflightFile == nil {
		_ = os.MkdirAll(rec.Env.PartsDir, 0o755)
		f, err := os.OpenFile(inflightPath(rec), os.O_CREATE|os.O_RDWR|os.O_TRUNC, 0o644)
		if err != nil {
			return
		}
		inflightFile = f
	}
	if _, err := inflightFile.WriteAt(b, 0); err == nil {
		_ = inflightFile.Truncate(int64(len(b)))
	}
}

var inflightFile *os.File

// ClearInflight removes the marker (call when a check finished normally).
func ClearInflight(rec *ev.Recorder) {
	if CrashGuard {
		if inflightFile != nil {
			inflightFile.Close()
			inflightFile = nil
		}
		_ = os.Remove(inflightPath(rec))
	}
}

// Run executes chk with rapid: n cases, deterministic seed. It returns false
// when an unlisted violation was found (already reported).
func Run[C any](t *testing.T, rec *ev.Recorder, chk Check[C], n int, salt uint64) bool {
	Register(chk)
	if n <= 0 {
		return true
	}
	mustSet("rapid.checks", strconv.Itoa(n))
	mustSet("rapid.seed", strconv.FormatUint(rec.Env.RapidSeed(salt^ev.HashS(chk.Name)), 10))
	mustSet("rapid.nofailfile", "true")
	_ = os.RemoveAll("testdata/rapid")
	var lastC C
	var lastF *Fail
	ok := t.Run(chk.Name, func(st *testing.T) {
		rapid.Check(st, func(rt *rapid.T) {
			c := chk.Gen(rt)
			MarkInflight(rec, chk.Name, c)
			f := Filter(rec, chk.Eval(c))
			if f != nil && survey(rec, chk.Name, c, f) {
				f = nil
			}
			if f != nil {
				lastC, lastF = c, f
				rt.Fatalf("%s", f.Msg)
			}
		})
	})
	ClearInflight(rec)
	if ok {
		return true
	}
	if lastF == nil {
		fmt.Fprintf(os.Stdout, "\nINFRA property=%s check=%s failed without an oracle failure (generator or harness problem)\n", rec.ID, chk.Name)
		return false
	}
	p := WriteReplay(rec, chk.Name, lastC, lastF)
	rec.Violation(p, chk.Name+": "+lastF.Msg)
	return false
}

func mustSet(name, val string) {
	if err := flag.Set(name, val); err != nil {
		panic(err)
	}
}

// Replay re-executes the file named by VERIF_REPLAY without rapid. It is the
// body of every package's TestReplay.
func Replay(t *testing.T, rec *ev.Recorder) {
	path := os.Getenv("VERIF_REPLAY")
	if path == "" {
		t.Skip("VERIF_REPLAY not set")
	}
	b, err := os.ReadFile(path)
	if err != nil {
		t.Fatalf("INFRA cannot read replay file: %v", err)
	}
	var rf replayFile
	if err := json.Unmarshal(b, &rf); err != nil {
		t.Fatalf("INFRA bad replay file: %v", err)
	}
	fn, ok := replayers[rf.Check]
	if !ok {
		t.Fatalf("INFRA unknown check %q in replay file (known: %v)", rf.Check, replayerNames())
	}
	f, err := fn(rf.Case)
	if err != nil {
		t.Fatalf("INFRA cannot decode case: %v", err)
	}
	if f = Filter(rec, f); f != nil {
		rec.Violation(path, rf.Check+": "+f.Msg)
		t.Errorf("replay still fails: %s", f.Msg)
		return
	}
	fmt.Printf("replay %s: property holds on this case now\n", path)
}

func replayerNames() []string {
	var s []string
	for k := range replayers {
		s = append(s, k)
	}
	return s
}

// RegressDir re-runs every replay file of a property stored under
// replay/regress (cases of fixed defects and seeded mutants' reproductions).
func RegressDir(t *testing.T, rec *ev.Recorder) {
	dir := filepath.Join(rec.Env.Root, "replay", "regress")
	ms, _ := filepath.Glob(filepath.Join(dir, rec.ID+"-*.json"))
	for _, m := range ms {
		b, err := os.ReadFile(m)
		if err != nil {
			continue
		}
		var rf replayFile
		if json.Unmarshal(b, &rf) != nil {
			continue
		}
		fn, ok := replayers[rf.Check]
		if !ok {
			continue
		}
		f, err := fn(rf.Case)
		if err != nil {
			continue
		}
		rec.Case(true, ev.Hash(rf.Case), "regress-file")
		if f = Filter(rec, f); f != nil {
			rec.Violation(m, "regression "+rf.Check+": "+f.Msg)
			t.Errorf("regression file %s fails: %s", m, f.Msg)
		}
	}
}

var surveySeen = map[string]bool{}

// survey (VERIF_SURVEY=1, development aid only, never used by the registered
// commands) lists every distinct failure signature instead of stopping at the
// first one.
func survey[C any](rec *ev.Recorder, check string, c C, f *Fail) bool {
	if os.Getenv("VERIF_SURVEY") == "" {
		return false
	}
	k := f.Key
	if k == "" {
		k = firstLine(f.Msg)
	}
	if !surveySeen[k] {
		surveySeen[k] = true
		p := WriteReplay(rec, check, c, f)
		fmt.Printf("\nSURVEY key=%s replay=%s\n   %s\n", k, p, firstLine(f.Msg))
	}
	return true
}

func firstLine(s string) string {
	if i := strings.IndexByte(s, '\n'); i >= 0 {
		s = s[:i]
	}
	if len(s) > 300 {
		s = s[:300]
	}
	return s
}
