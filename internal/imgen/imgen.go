// Package imgen builds test images from a small, serialisable specification:
// the pixel content is a deterministic function of (class, seed), so a failing
// case can be replayed from its spec alone.
package imgen

import (
	"image"
	"image/color"
	"math"
)

// Spec describes one image.
type Spec struct {
	Kind    string `json:"kind"`    // rgba | nrgba | gray | ycbcr
	W       int    `json:"w"`       // width of the visible rectangle
	H       int    `json:"h"`       // height
	Content string `json:"content"` // smooth | noise | constant | extremes | checker | stripes | blocks
	Seed    uint32 `json:"seed"`
	OX      int    `json:"ox"` // origin of the visible rectangle
	OY      int    `json:"oy"`
	Pad     int    `json:"pad"`                   // > 0: the image is a SubImage of one that is Pad pixels larger on every side (stride > width)
	Ratio   string `json:"ratio,omitempty"`       // ycbcr: 444 422 420 440 411 410
	Transp  bool   `json:"transparent,omitempty"` // rgba / nrgba: about a quarter of the pixels are fully transparent (alpha 0)
	Nil     bool   `json:"nil,omitempty"`
	// TypedNil: with Nil, the interface holds a nil pointer of the image type named by Kind (a "nil image" as a caller
	// who declared `var img *image.RGBA` passes it) instead of being the nil interface
	TypedNil bool `json:"typed_nil,omitempty"`
	Empty   bool   `json:"empty,omitempty"` // rectangle of the given size without pixel storage
}

type rng uint32

func (r *rng) next() uint32 {
	x := uint32(*r)
	if x == 0 {
		x = 0x9e3779b9
	}
	x ^= x << 13
	x ^= x >> 17
	x ^= x << 5
	*r = rng(x)
	return x
}

// RGB returns the 8-bit colour of visible pixel (x, y) (coordinates relative to the visible rectangle).
func (s Spec) RGB(x, y int) (r, g, b uint8) {
	sd := s.Seed
	switch s.Content {
	case "constant":
		return uint8(sd), uint8(sd >> 8), uint8(sd >> 16)
	case "extremes":
		h := hash2(sd, x, y)
		v := uint8(0)
		if h&1 == 1 {
			v = 255
		}
		w := uint8(0)
		if h&2 == 2 {
			w = 255
		}
		return v, w, v
	case "checker":
		k := int(sd%7) + 1
		if (x/k+y/k)%2 == 0 {
			return uint8(sd >> 8), uint8(sd >> 16), uint8(sd >> 24)
		}
		return ^uint8(sd >> 8), ^uint8(sd >> 16), ^uint8(sd >> 24)
	case "stripes":
		k := int(sd%5) + 1
		v := uint8((x / k * 37) + int(sd>>8))
		return v, v ^ uint8(sd>>16), uint8(y*int(sd>>24&3)) + v
	case "blocks":
		bx, by := x/int(sd%13+3), y/int(sd>>4%11+3)
		h := hash2(sd, bx, by)
		return uint8(h), uint8(h >> 8), uint8(h >> 16)
	case "noise":
		h := hash2(sd, x, y)
		return uint8(h), uint8(h >> 8), uint8(h >> 16)
	default: // smooth
		a := float64(sd&0xff) / 255
		b2 := float64(sd>>8&0xff) / 255
		c := float64(sd>>16&0xff)/32 + 3
		d := float64(sd>>24&0xff)/32 + 3
		fx, fy := float64(x), float64(y)
		v := 127.5 + 60*math.Sin(fx/c+a*6) + 60*math.Cos(fy/d+b2*6) + (a-0.5)*fx*0.3
		w := 127.5 + 90*math.Sin((fx+fy)/(c+d)) + (b2-0.5)*fy*0.4
		return clamp(v), clamp(w), clamp((v + w) / 2)
	}
}

func clamp(v float64) uint8 {
	if v < 0 {
		return 0
	}
	if v > 255 {
		return 255
	}
	return uint8(v)
}

func hash2(seed uint32, x, y int) uint32 {
	h := seed ^ uint32(x)*0x85ebca6b ^ uint32(y)*0xc2b2ae35
	h ^= h >> 16
	h *= 0x7feb352d
	h ^= h >> 15
	h *= 0x846ca68b
	h ^= h >> 16
	return h
}

func ratioOf(s string) image.YCbCrSubsampleRatio {
	switch s {
	case "422":
		return image.YCbCrSubsampleRatio422
	case "420":
		return image.YCbCrSubsampleRatio420
	case "440":
		return image.YCbCrSubsampleRatio440
	case "411":
		return image.YCbCrSubsampleRatio411
	case "410":
		return image.YCbCrSubsampleRatio410
	}
	return image.YCbCrSubsampleRatio444
}

// Build constructs the image. For YCbCr the three planes hold (Y, Cb, Cr) derived
// from RGB(x, y) by taking r as Y, g as Cb, b as Cr of the *first* pixel of each
// chroma cell (so that every subsampling ratio is well defined).
func (s Spec) Build() image.Image {
	if s.Nil && s.TypedNil {
		switch s.Kind {
		case "nrgba":
			return (*image.NRGBA)(nil)
		case "gray":
			return (*image.Gray)(nil)
		case "ycbcr":
			return (*image.YCbCr)(nil)
		default:
			return (*image.RGBA)(nil)
		}
	}
	if s.Nil {
		return nil
	}
	vis := image.Rect(s.OX, s.OY, s.OX+s.W, s.OY+s.H)
	full := vis
	if s.Pad > 0 {
		full = image.Rect(vis.Min.X-s.Pad, vis.Min.Y-s.Pad, vis.Max.X+s.Pad, vis.Max.Y+s.Pad)
	}
	if s.Empty {
		switch s.Kind {
		case "gray":
			return &image.Gray{Rect: vis, Stride: s.W}
		case "nrgba":
			return &image.NRGBA{Rect: vis, Stride: 4 * s.W}
		case "ycbcr":
			return &image.YCbCr{Rect: vis, YStride: s.W, CStride: s.W, SubsampleRatio: ratioOf(s.Ratio)}
		default:
			return &image.RGBA{Rect: vis, Stride: 4 * s.W}
		}
	}
	// hostile surroundings: pixels outside the visible rectangle differ strongly from the inside
	outside := func(x, y int) (uint8, uint8, uint8) {
		h := hash2(^s.Seed, x, y)
		return uint8(h) | 0x80, uint8(h>>8) ^ 0x55, uint8(h >> 16)
	}
	at := func(x, y int) (uint8, uint8, uint8) { // absolute coordinates
		if image.Pt(x, y).In(vis) {
			return s.RGB(x-vis.Min.X, y-vis.Min.Y)
		}
		return outside(x, y)
	}
	switch s.Kind {
	case "gray":
		m := image.NewGray(full)
		for y := full.Min.Y; y < full.Max.Y; y++ {
			for x := full.Min.X; x < full.Max.X; x++ {
				r, _, _ := at(x, y)
				m.SetGray(x, y, color.Gray{Y: r})
			}
		}
		return m.SubImage(vis)
	case "nrgba":
		m := image.NewNRGBA(full)
		for y := full.Min.Y; y < full.Max.Y; y++ {
			for x := full.Min.X; x < full.Max.X; x++ {
				r, g, b := at(x, y)
				if s.Transp && hash2(s.Seed^0x7a, x, y)%4 == 0 {
					m.SetNRGBA(x, y, color.NRGBA{r, g, b, 0})
					continue
				}
				m.SetNRGBA(x, y, color.NRGBA{r, g, b, 255})
			}
		}
		return m.SubImage(vis)
	case "ycbcr":
		m := image.NewYCbCr(full, ratioOf(s.Ratio))
		for y := full.Min.Y; y < full.Max.Y; y++ {
			for x := full.Min.X; x < full.Max.X; x++ {
				r, _, _ := at(x, y)
				m.Y[m.YOffset(x, y)] = r
			}
		}
		// chroma: written cell by cell, later pixels of a cell do not overwrite the first
		done := map[int]bool{}
		for y := full.Min.Y; y < full.Max.Y; y++ {
			for x := full.Min.X; x < full.Max.X; x++ {
				ci := m.COffset(x, y)
				if done[ci] {
					continue
				}
				done[ci] = true
				_, g, b := at(x, y)
				m.Cb[ci], m.Cr[ci] = g, b
			}
		}
		return m.SubImage(vis)
	default:
		m := image.NewRGBA(full)
		for y := full.Min.Y; y < full.Max.Y; y++ {
			for x := full.Min.X; x < full.Max.X; x++ {
				r, g, b := at(x, y)
				if s.Transp && hash2(s.Seed^0x7a, x, y)%4 == 0 {
					m.SetRGBA(x, y, color.RGBA{}) // premultiplied: alpha 0 means all channels 0
					continue
				}
				m.SetRGBA(x, y, color.RGBA{r, g, b, 255})
			}
		}
		return m.SubImage(vis)
	}
}

// Luma returns the reference luminance of every visible pixel of img, row-major,
// computed through the image's own accessors at the pixel's image coordinates:
// RGB-like images: 0.299 R + 0.587 G + 0.114 B on 8-bit channel values;
// YCbCr: the same weights applied to the (unclamped) fixed-point RGB of the JFIF
// conversion on the 16-bit scale the hashing code uses (about 256 x Y).
func Luma(img image.Image) []float64 {
	b := img.Bounds()
	out := make([]float64, 0, b.Dx()*b.Dy())
	if yc, ok := img.(*image.YCbCr); ok {
		for y := b.Min.Y; y < b.Max.Y; y++ {
			for x := b.Min.X; x < b.Max.X; x++ {
				yy := float64(yc.Y[yc.YOffset(x, y)]) * 0x10101
				cb := float64(yc.Cb[yc.COffset(x, y)]) - 128
				cr := float64(yc.Cr[yc.COffset(x, y)]) - 128
				r := yy + 91881*cr
				g := yy - 22554*cb - 46802*cr
				bl := yy + 116130*cb
				out = append(out, 0.299*r/257+0.587*g/257+0.114*bl/256)
			}
		}
		return out
	}
	for y := b.Min.Y; y < b.Max.Y; y++ {
		for x := b.Min.X; x < b.Max.X; x++ {
			r, g, bl, _ := img.At(x, y).RGBA()
			out = append(out, 0.299*float64(r)/257+0.587*float64(g)/257+0.114*float64(bl)/257)
		}
	}
	return out
}

var cosCache = map[[2]int][]float64{}

func cosTable(n, k int) []float64 {
	if t, ok := cosCache[[2]int{n, k}]; ok {
		return t
	}
	t := make([]float64, k*n)
	for u := 0; u < k; u++ {
		for i := 0; i < n; i++ {
			t[u*n+i] = math.Cos(math.Pi * (float64(i) + 0.5) * float64(u) / float64(n))
		}
	}
	cosCache[[2]int{n, k}] = t
	return t
}

// LowBlock returns the k x k low-frequency block of the unscaled 2-D DCT-II of an
// n x n luminance array by definition, laid out [k*j+i] = (vertical frequency j, horizontal frequency i).
func LowBlock(lum []float64, n, k int) []float64 {
	t := cosTable(n, k)
	h := make([]float64, n*k)
	for r := 0; r < n; r++ {
		row := lum[r*n : r*n+n]
		for i := 0; i < k; i++ {
			s := 0.0
			cr := t[i*n : i*n+n]
			for c, v := range row {
				s += v * cr[c]
			}
			h[r*k+i] = s
		}
	}
	out := make([]float64, k*k)
	for j := 0; j < k; j++ {
		cj := t[j*n : j*n+n]
		for i := 0; i < k; i++ {
			s := 0.0
			for r := 0; r < n; r++ {
				s += h[r*k+i] * cj[r]
			}
			out[k*j+i] = s
		}
	}
	return out
}
