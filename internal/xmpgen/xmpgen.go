// Package xmpgen generates XMP packets from a logical record: which supported
// properties are present and their values, plus all serialisation choices
// (attribute or element form per property, quote character, order, number of
// rdf:Description blocks, white space, unknown properties, leading junk).
package xmpgen

import (
	"fmt"
	"sort"
	"strings"

	"pgregory.net/rapid"
)

// Prop is one simple property: namespace prefix, name, text value, and how it is written.
type Prop struct {
	NS    string `json:"ns"`
	Name  string `json:"name"`
	Value string `json:"value"`
	Elem  bool   `json:"elem"`            // child element instead of attribute of rdf:Description
	Empty bool   `json:"empty,omitempty"` // (unknown properties in element form only) written as an empty-element tag <ns:name/>
	Quote byte   `json:"quote"`           // '"' or '\'' (attribute form)
	Block int    `json:"block"`           // which rdf:Description block
}

// Array is one array property.
type Array struct {
	NS    string   `json:"ns"`
	Name  string   `json:"name"`
	Kind  string   `json:"kind"` // Seq | Bag | Alt
	Items []string `json:"items"`
	Langs []string `json:"langs,omitempty"` // xml:lang qualifier per item ("" = none); always present on Alt items, optional on Seq / Bag items
	Block int      `json:"block"`
}

// Record is the logical content plus layout choices.
type Record struct {
	Props    []Prop   `json:"props"`
	Arrays   []Array  `json:"arrays"`
	Unknown  []Prop   `json:"unknown,omitempty"` // properties the library does not know (other names / namespaces)
	Blocks   int      `json:"blocks"`
	Junk     string   `json:"junk,omitempty"`      // bytes before the packet
	XPacket  bool     `json:"xpacket"`             // <?xpacket ...?> wrapper
	Indent   string   `json:"indent"`              // white space between tokens: " " or "\n  " ...
	Ext      []string `json:"ext,omitempty"`       // extended switches in use
	RootAttr bool     `json:"root_attr,omitempty"` // x:xmptk attribute on the root element
	Order    []int    `json:"order,omitempty"`     // permutation of Props within their block
	// white space that XML allows inside tags: before the '>' / '/>' that ends a start tag, around the '=' of an
	// attribute, and between an element's name and its '>' ("" = none)
	WSClose string    `json:"ws_close,omitempty"`
	WSEq    [2]string `json:"ws_eq,omitempty"`
	WSName  string    `json:"ws_name,omitempty"`
}

var uris = map[string]string{
	"tiff": "http://ns.adobe.com/tiff/1.0/", "exif": "http://ns.adobe.com/exif/1.0/", "aux": "http://ns.adobe.com/exif/1.0/aux/",
	"xmp": "http://ns.adobe.com/xap/1.0/", "xap": "http://ns.adobe.com/xap/1.0/", "xmpMM": "http://ns.adobe.com/xap/1.0/mm/", "xapMM": "http://ns.adobe.com/xap/1.0/mm/",
	"crs": "http://ns.adobe.com/camera-raw-settings/1.0/", "dc": "http://purl.org/dc/elements/1.1/", "photoshop": "http://ns.adobe.com/photoshop/1.0/",
	"lr": "http://ns.adobe.com/lightroom/1.0/", "zz": "http://example.com/ns/zz/", "Iptc4xmpCore": "http://iptc.org/std/Iptc4xmpCore/1.0/xmlns/",
}

// Serialise writes the packet.
func Serialise(r Record) []byte {
	var sb strings.Builder
	ws := r.Indent
	if ws == "" {
		ws = " "
	}
	sb.WriteString(r.Junk)
	if r.XPacket {
		sb.WriteString("<?xpacket begin=\"\xef\xbb\xbf\" id=\"W5M0MpCehiHzreSzNTczkc9d\"?>\n")
	}
	sb.WriteString("<x:xmpmeta xmlns:x=\"adobe:ns:meta/\"")
	if r.RootAttr {
		sb.WriteString(" x:xmptk=\"XMP Core 5.6.0\"")
	}
	sb.WriteString(">" + ws + "<rdf:RDF xmlns:rdf=\"http://www.w3.org/1999/02/22-rdf-syntax-ns#\">")
	blocks := r.Blocks
	if blocks < 1 {
		blocks = 1
	}
	for b := 0; b < blocks; b++ {
		// namespaces used in this block
		used := map[string]bool{}
		var attrs, elems []Prop
		idx := make([]int, 0, len(r.Props))
		for i := range r.Props {
			idx = append(idx, i)
		}
		if len(r.Order) == len(r.Props) {
			idx = r.Order
		}
		for _, i := range idx {
			p := r.Props[i]
			if p.Block%blocks != b {
				continue
			}
			used[p.NS] = true
			if p.Elem {
				elems = append(elems, p)
			} else {
				attrs = append(attrs, p)
			}
		}
		var unknownElems []Prop
		for _, p := range r.Unknown {
			if p.Block%blocks != b {
				continue
			}
			used[p.NS] = true
			if p.Elem {
				unknownElems = append(unknownElems, p)
			} else {
				attrs = append(attrs, p)
			}
		}
		// unknown elements stand between the known ones: known, unknown, known, unknown ...
		if len(unknownElems) > 0 {
			var mixed []Prop
			for i := 0; i < len(elems) || i < len(unknownElems); i++ {
				if i < len(elems) {
					mixed = append(mixed, elems[i])
				}
				if i < len(unknownElems) {
					mixed = append(mixed, unknownElems[i])
				}
			}
			elems = mixed
		}
		var arrays []Array
		for _, a := range r.Arrays {
			if a.Block%blocks == b {
				arrays = append(arrays, a)
				used[a.NS] = true
			}
		}
		sb.WriteString(ws + "<rdf:Description rdf:about=\"\"")
		var nss []string
		for ns := range used {
			nss = append(nss, ns)
		}
		sort.Strings(nss)
		for _, ns := range nss {
			u := uris[ns]
			if u == "" {
				u = "http://example.com/ns/" + ns + "/"
			}
			fmt.Fprintf(&sb, "%sxmlns:%s=\"%s\"", ws, ns, u)
		}
		for _, p := range attrs {
			q := p.Quote
			if q != '\'' {
				q = '"'
			}
			fmt.Fprintf(&sb, "%s%s:%s%s=%s%c%s%c", ws, p.NS, p.Name, r.WSEq[0], r.WSEq[1], q, p.Value, q)
		}
		if len(elems) == 0 && len(arrays) == 0 {
			sb.WriteString(r.WSClose + "/>")
			continue
		}
		sb.WriteString(r.WSClose + ">")
		// elements and arrays interleaved deterministically: element, array, element, ...
		ei, ai := 0, 0
		for ei < len(elems) || ai < len(arrays) {
			if ei < len(elems) {
				p := elems[ei]
				ei++
				if p.Empty {
					wsn := r.WSName
					if len(p.Value)%2 == 0 {
						wsn = "" // (half of them without white space in front of "/>", whatever the style of the other tags)
					}
					fmt.Fprintf(&sb, "%s<%s:%s%s/>", ws, p.NS, p.Name, wsn)
				} else {
					fmt.Fprintf(&sb, "%s<%s:%s%s>%s</%s:%s%s>", ws, p.NS, p.Name, r.WSName, p.Value, p.NS, p.Name, r.WSName)
				}
			}
			if ai < len(arrays) {
				a := arrays[ai]
				ai++
				fmt.Fprintf(&sb, "%s<%s:%s>%s<rdf:%s>", ws, a.NS, a.Name, ws, a.Kind)
				for i, it := range a.Items {
					if i < len(a.Langs) && a.Langs[i] != "" {
						fmt.Fprintf(&sb, "%s<rdf:li xml:lang%s=%s\"%s\"%s>%s</rdf:li>", ws, r.WSEq[0], r.WSEq[1], a.Langs[i], r.WSClose, it)
					} else {
						fmt.Fprintf(&sb, "%s<rdf:li>%s</rdf:li>", ws, it)
					}
				}
				fmt.Fprintf(&sb, "%s</rdf:%s>%s</%s:%s>", ws, a.Kind, ws, a.NS, a.Name)
			}
		}
		sb.WriteString(ws + "</rdf:Description>")
	}
	sb.WriteString(ws + "</rdf:RDF>" + ws + "</x:xmpmeta>")
	if r.XPacket {
		sb.WriteString("\n<?xpacket end=\"w\"?>")
	}
	return []byte(sb.String())
}

// ---------------------------------------------------------------- values ----

var textAlphabet = []rune("abcdefghijklmnopqrstuvwxyzABCDEFGHIJKLMNOPQRSTUVWXYZ0123456789 .,;:-_/()+*#@!?[]{}|~^%$=éüß日本語")

// boundary-seeking lengths: value ends land on and around the reader's look-ahead steps
var lengths = []int{1, 2, 3, 5, 8, 13, 21, 40, 80, 100, 120, 124, 125, 126, 127, 128, 129, 130, 131, 200, 250, 252, 253, 254, 255, 256, 257, 258, 300, 400, 500, 505, 509, 510, 511, 512, 513, 514, 515, 600, 760, 765, 766, 767, 768, 769, 770, 900, 1000, 1020, 1021, 1022, 1023, 1024}

// Text draws a string value without markup characters, quotes, or leading / trailing white space.
func Text(rt *rapid.T, label string, long bool) string {
	n := rapid.IntRange(1, 24).Draw(rt, label+".len")
	if long {
		n = rapid.SampledFrom(lengths).Draw(rt, label+".blen")
	}
	rs := make([]rune, 0, n)
	bytesLen := 0
	for bytesLen < n {
		r := textAlphabet[rapid.IntRange(0, len(textAlphabet)-1).Draw(rt, label+".ch")]
		l := len(string(r))
		if bytesLen+l > n {
			r = 'x'
			l = 1
		}
		rs = append(rs, r)
		bytesLen += l
	}
	if rs[0] == ' ' {
		rs[0] = 'A'
	}
	if rs[len(rs)-1] == ' ' {
		rs[len(rs)-1] = 'Z'
	}
	return string(rs)
}

// Date draws an XMP date: YYYY-MM-DDThh:mm:ss with optional fraction and zone.
type Date struct {
	Y, Mo, D, H, Mi, S int
	Frac               string // "" or ".dd"
	Zone               string // "" | "Z" | "+hh:mm" | "-hh:mm"
}

func (d Date) String() string {
	return fmt.Sprintf("%04d-%02d-%02dT%02d:%02d:%02d%s%s", d.Y, d.Mo, d.D, d.H, d.Mi, d.S, d.Frac, d.Zone)
}

func GenDate(rt *rapid.T, label string) Date {
	d := Date{Y: rapid.IntRange(1970, 2099).Draw(rt, label+".y"), Mo: rapid.IntRange(1, 12).Draw(rt, label+".mo"), D: rapid.IntRange(1, 28).Draw(rt, label+".d"),
		H: rapid.IntRange(0, 23).Draw(rt, label+".h"), Mi: rapid.IntRange(0, 59).Draw(rt, label+".mi"), S: rapid.IntRange(0, 59).Draw(rt, label+".s")}
	switch rapid.IntRange(0, 3).Draw(rt, label+".zone") {
	case 0:
	case 1:
		d.Zone = "Z"
	default:
		sign := rapid.SampledFrom([]string{"+", "-"}).Draw(rt, label+".sign")
		d.Zone = fmt.Sprintf("%s%02d:%02d", sign, rapid.IntRange(0, 13).Draw(rt, label+".zh"), rapid.SampledFrom([]int{0, 15, 30, 45}).Draw(rt, label+".zm"))
	}
	if rapid.IntRange(0, 3).Draw(rt, label+".frac") == 0 {
		d.Frac = fmt.Sprintf(".%02d", rapid.IntRange(0, 99).Draw(rt, label+".f"))
	}
	return d
}

var randomNames = [][2]string{{"tiff", "Make"}, {"tiff", "Model"}, {"tiff", "ImageWidth"}, {"tiff", "Orientation"}, {"exif", "ExposureTime"}, {"exif", "FNumber"}, {"exif", "DateTimeOriginal"},
	{"exif", "ExposureBiasValue"}, {"exif", "GPSLatitude"}, {"aux", "Lens"}, {"aux", "SerialNumber"}, {"aux", "FlashCompensation"}, {"xmp", "CreateDate"}, {"xmp", "Rating"}, {"xmp", "CreatorTool"},
	{"xmpMM", "DocumentID"}, {"xmpMM", "InstanceID"}, {"crs", "RawFileName"}, {"dc", "format"}, {"photoshop", "ColorMode"}, {"zz", "Unknown"}}

// RandomPacket draws a packet for the robustness properties: plausible names, values that need not be well typed.
func RandomPacket(rt *rapid.T) []byte {
	r := Record{Blocks: rapid.IntRange(1, 2).Draw(rt, "xp.blocks"), XPacket: rapid.Bool().Draw(rt, "xp.wrap"), Indent: rapid.SampledFrom([]string{" ", "\n ", "\t", "\r\n"}).Draw(rt, "xp.ws")}
	for i, n := 0, rapid.IntRange(1, 10).Draw(rt, "xp.n"); i < n; i++ {
		nm := rapid.SampledFrom(randomNames).Draw(rt, "xp.name")
		var v string
		switch rapid.IntRange(0, 5).Draw(rt, "xp.vk") {
		case 0:
			v = GenDate(rt, "xp.date").String()
		case 1:
			v = fmt.Sprintf("%d/%d", rapid.IntRange(-5, 70000).Draw(rt, "xp.rn"), rapid.IntRange(0, 70000).Draw(rt, "xp.rd"))
		case 2:
			v = fmt.Sprint(rapid.Int64().Draw(rt, "xp.int"))
		default:
			v = Text(rt, "xp.text", rapid.IntRange(0, 4).Draw(rt, "xp.long") == 0)
		}
		r.Props = append(r.Props, Prop{NS: nm[0], Name: nm[1], Value: v, Elem: rapid.Bool().Draw(rt, "xp.elem"), Quote: '"', Block: rapid.IntRange(0, 1).Draw(rt, "xp.block")})
	}
	if rapid.Bool().Draw(rt, "xp.arr") {
		r.Arrays = append(r.Arrays, Array{NS: "dc", Name: rapid.SampledFrom([]string{"creator", "subject", "title", "description"}).Draw(rt, "xp.an"), Kind: rapid.SampledFrom([]string{"Seq", "Bag", "Alt"}).Draw(rt, "xp.ak"),
			Items: []string{Text(rt, "xp.i1", false), Text(rt, "xp.i2", false)}, Langs: []string{"x-default", "de"}})
	}
	return Serialise(r)
}
