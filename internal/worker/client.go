package worker

import (
	"encoding/binary"
	"encoding/json"
	"fmt"
	"io"
	"os"
	"os/exec"
	"runtime"
	"strconv"
	"strings"
	"syscall"
	"time"
)

const workerEnv = "VERIF_WORKER"

// MaybeServe turns the current process into a worker when started by a
// Client. Call it first thing in TestMain.
func MaybeServe() {
	if os.Getenv(workerEnv) == "" {
		return
	}
	in := os.NewFile(3, "req")
	out := os.NewFile(4, "resp")
	if in == nil || out == nil {
		os.Exit(97)
	}
	serve(in, out)
	os.Exit(0)
}

// Handler lets a props package add its own request kinds (C04 state machine,
// C20 conversions) to the isolated process. It receives the raw request and
// returns the raw response, or nil if the request is not its own.
var Handler func(raw []byte) []byte

func serve(in io.Reader, out io.Writer) {
	var hdr [4]byte
	for {
		if _, err := io.ReadFull(in, hdr[:]); err != nil {
			return
		}
		n := binary.LittleEndian.Uint32(hdr[:])
		buf := make([]byte, n)
		if _, err := io.ReadFull(in, buf); err != nil {
			return
		}
		var rb []byte
		if Handler != nil {
			rb = Handler(buf)
		}
		if rb == nil {
			var q Req
			if err := json.Unmarshal(buf, &q); err != nil {
				rb, _ = json.Marshal(Resp{Aborted: "bad request: " + err.Error()})
			} else {
				r := Exec(q)
				rb, _ = json.Marshal(r)
			}
		}
		binary.LittleEndian.PutUint32(hdr[:], uint32(len(rb)))
		if _, err := out.Write(append(hdr[:], rb...)); err != nil {
			return
		}
	}
}

// Client owns one isolated worker process (restarted on demand).
type Client struct {
	Env      []string // extra environment (e.g. GOMAXPROCS=1)
	VLimitKB int64    // ulimit -v for the child, 0 = none
	cmd      *exec.Cmd
	reqW     *os.File
	respR    *os.File
	fd1, fd2 *os.File
	Restarts int
	resc     chan rawResp
}

type rawResp struct {
	b   []byte
	err error
}

func (c *Client) start() error {
	reqR, reqW, err := os.Pipe()
	if err != nil {
		return err
	}
	respR, respW, err := os.Pipe()
	if err != nil {
		return err
	}
	if c.fd1 == nil {
		if c.fd1, err = os.CreateTemp("", "verif-fd1-*"); err != nil {
			return err
		}
		if c.fd2, err = os.CreateTemp("", "verif-fd2-*"); err != nil {
			return err
		}
		os.Remove(c.fd1.Name())
		os.Remove(c.fd2.Name())
	}
	self, err := os.Executable()
	if err != nil {
		return err
	}
	var cmd *exec.Cmd
	if c.VLimitKB > 0 {
		cmd = exec.Command("/bin/sh", "-c", fmt.Sprintf("ulimit -v %d; exec \"$0\"", c.VLimitKB), self)
	} else {
		cmd = exec.Command(self)
	}
	cmd.Env = append(append(os.Environ(), workerEnv+"=1", "GOTRACEBACK=all"), c.Env...)
	// fd 1/2 are plain files opened O_APPEND-like: size tells how much the library wrote
	cmd.Stdout = c.fd1
	cmd.Stderr = c.fd2
	cmd.ExtraFiles = []*os.File{reqR, respW}
	if err := cmd.Start(); err != nil {
		return err
	}
	reqR.Close()
	respW.Close()
	c.cmd, c.reqW, c.respR = cmd, reqW, respR
	c.resc = make(chan rawResp, 1)
	c.Restarts++
	return nil
}

// Close kills the worker.
func (c *Client) Close() {
	if c.cmd != nil {
		c.reqW.Close()
		_ = c.cmd.Process.Kill()
		_, _ = c.cmd.Process.Wait()
		c.respR.Close()
		c.cmd = nil
	}
}

func size(f *os.File) int64 {
	if st, err := f.Stat(); err == nil {
		return st.Size()
	}
	return 0
}

func tailOf(f *os.File, from int64, max int64) string {
	sz := size(f)
	if sz-from > max {
		from = sz - max
	}
	if sz <= from {
		return ""
	}
	b := make([]byte, sz-from)
	n, _ := f.ReadAt(b, from)
	return string(b[:n])
}

// DoRaw sends raw JSON and returns raw JSON, or died/hung.
func (c *Client) DoRaw(raw []byte, timeout time.Duration) (out []byte, died, hung bool, stderr string, fd1, fd2 int64) {
	if c.cmd == nil {
		if err := c.start(); err != nil {
			return nil, true, false, "cannot start worker: " + err.Error(), 0, 0
		}
	}
	s1, s2 := size(c.fd1), size(c.fd2)
	var hdr [4]byte
	binary.LittleEndian.PutUint32(hdr[:], uint32(len(raw)))
	if _, err := c.reqW.Write(append(hdr[:], raw...)); err != nil {
		c.Close()
		return nil, true, false, "write to worker failed: " + err.Error(), 0, 0
	}
	respR, resc := c.respR, c.resc
	go func() {
		var h [4]byte
		if _, err := io.ReadFull(respR, h[:]); err != nil {
			resc <- rawResp{nil, err}
			return
		}
		b := make([]byte, binary.LittleEndian.Uint32(h[:]))
		_, err := io.ReadFull(respR, b)
		resc <- rawResp{b, err}
	}()
	timer := time.NewTimer(timeout)
	defer timer.Stop()
	select {
	case r := <-resc:
		if r.err != nil {
			// process died: reap it and collect what it said
			_ = c.cmd.Process.Kill()
			_, _ = c.cmd.Process.Wait()
			st := tailOf(c.fd2, s2, 6000)
			d1, d2 := size(c.fd1)-s1, size(c.fd2)-s2
			c.reqW.Close()
			c.respR.Close()
			c.cmd = nil
			return nil, true, false, st, d1, d2
		}
		return r.b, false, false, "", size(c.fd1) - s1, size(c.fd2) - s2
	case <-timer.C:
		// ask the runtime for a goroutine dump (tells where it is stuck), then kill
		_ = c.cmd.Process.Signal(syscall.SIGQUIT)
		select {
		case <-resc:
		case <-time.After(3 * time.Second):
			_ = c.cmd.Process.Kill()
			<-resc
		}
		_ = c.cmd.Process.Kill()
		_, _ = c.cmd.Process.Wait()
		st := tailOf(c.fd2, s2, 20000)
		c.reqW.Close()
		c.respR.Close()
		c.cmd = nil
		return nil, false, true, st, size(c.fd1) - s1, size(c.fd2) - s2
	}
}

// Do runs one request in the isolated worker.
func (c *Client) Do(q Req, timeout time.Duration) Resp {
	raw, _ := json.Marshal(q)
	out, died, hung, stderr, d1, d2 := c.DoRaw(raw, timeout)
	var r Resp
	if died {
		r.Died, r.Stderr = true, stderr
	} else if hung {
		r.Hung = true
		r.Stderr = stderr
		r.PanicFrame = StuckFrame(stderr)
	} else if err := json.Unmarshal(out, &r); err != nil {
		r.Aborted = "bad response: " + err.Error()
	}
	r.OutFD1, r.OutFD2 = d1, d2
	return r
}

// Watchdog is the generous per-call budget: 10 s + 50 us per input byte.
func Watchdog(n int) time.Duration {
	if ms, err := strconv.Atoi(os.Getenv("VERIF_WATCHDOG_MS")); err == nil && ms > 0 {
		return time.Duration(ms) * time.Millisecond // development aid (surveys); the registered commands do not set it
	}
	return 10*time.Second + time.Duration(n)*50*time.Microsecond
}

var _ = runtime.GOMAXPROCS

// StuckFrame extracts the innermost imagemeta frame of the goroutine that was
// executing the request from a SIGQUIT dump.
func StuckFrame(dump string) string {
	lines := strings.Split(dump, "\n")
	// find the goroutine whose stack contains worker.call; report its first imagemeta frame
	start := 0
	for i, ln := range lines {
		if strings.HasPrefix(ln, "goroutine ") {
			start = i
		}
		if strings.Contains(ln, "internal/worker.call") || strings.Contains(ln, "internal/worker.Exec") {
			for j := start; j < i; j++ {
				if strings.HasPrefix(lines[j], "github.com/evanoberholster/imagemeta") {
					f := strings.TrimPrefix(strings.TrimPrefix(lines[j], "github.com/evanoberholster/imagemeta"), "/")
					if k := strings.LastIndex(f, "("); k > 0 {
						f = f[:k]
					}
					return f
				}
			}
			return "?"
		}
	}
	return "?"
}

// Render is the compact form of a request/response pair stored as an evidence sample.
func Render(q Req, origin string, ops []string, r Resp) map[string]any {
	n := len(q.Input)
	if n > 48 {
		n = 48
	}
	m := map[string]any{"entry": q.Entry, "origin": origin, "input_len": len(q.Input), "input_prefix_hex": fmt.Sprintf("%x", q.Input[:n]),
		"err": r.Err, "requested": r.Requested, "read_calls": r.ReadCalls}
	if q.Reader.Mode != "" {
		m["reader"] = q.Reader
	}
	if len(ops) > 0 {
		m["ops"] = ops
	}
	if q.Log != "" {
		m["log"] = q.Log
	}
	return m
}
