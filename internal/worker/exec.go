// Package worker executes one library call on one input behind an
// instrumented reader and reports everything observable about it: result
// digest, error, recovered panic, bytes requested, read calls, allocation,
// log output. It runs either in-process (Exec) or in an isolated child
// process (Client), so that fatal errors and hangs can be attributed to the
// request in flight.
package worker

import (
	"bufio"
	"bytes"
	"errors"
	"fmt"
	"hash/fnv"
	"io"
	"os"
	"runtime"
	"runtime/debug"
	"strings"
	"syscall"
	"time"

	"github.com/rs/zerolog"

	"github.com/evanoberholster/imagemeta"
	"github.com/evanoberholster/imagemeta/exif2"
	"github.com/evanoberholster/imagemeta/exif2/ifds"
	"github.com/evanoberholster/imagemeta/imagetype"
	"github.com/evanoberholster/imagemeta/isobmff"
	"github.com/evanoberholster/imagemeta/jpeg"
	"github.com/evanoberholster/imagemeta/meta"
	"github.com/evanoberholster/imagemeta/meta/utils"
	"github.com/evanoberholster/imagemeta/png"
	"github.com/evanoberholster/imagemeta/preview"
	"github.com/evanoberholster/imagemeta/tiff"
	"github.com/evanoberholster/imagemeta/xmp"

	"verif/internal/digest"
)

// Entries lists every decode entry point the worker can drive.
var Entries = []string{
	"Decode", "DecodeTiff", "DecodeJPEG", "DecodePng", "DecodeCR3", "DecodeCR2", "DecodeHeif", "PreviewCR3",
	"ExifParse", "ScanJPEG", "ScanJPEGDrain", "ScanTiffHeader", "ScanPngHeader", "BMFF", "BMFFRaw", "ParseXmp",
	"ItScan", "ItScanBuf", "ItReadAt", "ItBuf", "ItHelpers",
}

// ReaderSpec describes the io.ReadSeeker put in front of the input.
type ReaderSpec struct {
	Mode     string `json:"mode,omitempty"`      // "" = bytes.Reader; "chunk"; "fault"
	Chunks   []int  `json:"chunks,omitempty"`    // cyclic read sizes (>=1) for chunk mode
	DataEOF  bool   `json:"data_eof,omitempty"`  // last bytes are returned together with io.EOF
	FaultAt  int    `json:"fault_at,omitempty"`  // fault mode: deliver b[:FaultAt], then fail
	FaultErr string `json:"fault_err,omitempty"` // eof | unexpected | custom | zero-then-eof
	SeekFail bool   `json:"seek_fail,omitempty"` // Seek returns an error
	// Pre > 0: entry points that take an io.Reader get a caller's 4 KiB bufio.Reader from which the first Pre bytes of
	// the input (filler put there by the generator) have already been read: the structure starts Pre bytes into the buffer
	Pre int `json:"pre,omitempty"`
	// Bufio > 0: entry points that take an io.Reader get a caller's bufio.Reader of that size (readers that adopt a large
	// caller's buffer work with a window of that size)
	Bufio int `json:"bufio,omitempty"`
}

// Req is one call.
type Req struct {
	Entry  string     `json:"entry"`
	Input  []byte     `json:"input"`
	Reader ReaderSpec `json:"reader"`
	Log    string     `json:"log,omitempty"` // "" = library default; else zerolog level name
	K      int        `json:"k,omitempty"`   // BMFF: number of ReadMetadata calls (default 3)
	Alloc  bool       `json:"alloc,omitempty"`
	// Concurrent: the call may run next to others in this process: the (process-wide) logger
	// configuration and the LastValues slot are left alone.
	Concurrent bool `json:"concurrent,omitempty"`
}

// Resp is everything observed.
type Resp struct {
	Panic      string `json:"panic,omitempty"`
	PanicFrame string `json:"panic_frame,omitempty"`
	PanicStack string `json:"panic_stack,omitempty"`
	Digest     string `json:"digest"`
	Err        string `json:"err"`
	Requested  int64  `json:"requested"`
	Delivered  int64  `json:"delivered"`
	ReadCalls  int64  `json:"read_calls"`
	SeekCalls  int64  `json:"seek_calls"`
	ShortReads int64  `json:"short_reads"`
	ZeroReads  int64  `json:"zero_reads"`
	Alloc      uint64 `json:"alloc"`
	CPUNs      int64  `json:"cpu_ns"`
	WallNs     int64  `json:"wall_ns"`
	LogBytes   int    `json:"log_bytes"`
	LogRecords int    `json:"log_records"`
	// filled by the client only
	Died    bool   `json:"died,omitempty"`
	Hung    bool   `json:"hung,omitempty"`
	Stderr  string `json:"stderr,omitempty"`
	OutFD1  int64  `json:"out_fd1,omitempty"`
	OutFD2  int64  `json:"out_fd2,omitempty"`
	Aborted string `json:"aborted,omitempty"`
}

// Inst is the instrumented reader.
type Inst struct {
	b    []byte
	pos  int64
	spec ReaderSpec
	ci   int
	zero bool

	Requested, Delivered, ReadCalls, SeekCalls, ShortReads, ZeroReads int64
	// optional hard stop so a runaway loop cannot run forever in-process
	Budget int64
}

// ErrCustom is the custom reader failure.
var ErrCustom = errors.New("verif: injected reader failure")

// ErrBudget aborts reads after an absurd number of calls.
var ErrBudget = errors.New("verif: read budget exhausted")

// NewInst builds the reader.
func NewInst(b []byte, spec ReaderSpec) *Inst { return &Inst{b: b, spec: spec} }

func (r *Inst) limit() int64 {
	if r.spec.Mode == "fault" && r.spec.FaultAt >= 0 && int64(r.spec.FaultAt) < int64(len(r.b)) {
		return int64(r.spec.FaultAt)
	}
	return int64(len(r.b))
}

func (r *Inst) endErr() error {
	if r.spec.Mode == "fault" {
		switch r.spec.FaultErr {
		case "unexpected":
			return io.ErrUnexpectedEOF
		case "custom":
			return ErrCustom
		case "zero-then-eof":
			if !r.zero {
				r.zero = true
				return nil
			}
			return io.EOF
		}
	}
	return io.EOF
}

func (r *Inst) Read(p []byte) (int, error) {
	r.ReadCalls++
	r.Requested += int64(len(p))
	if r.Budget > 0 && r.ReadCalls > r.Budget {
		return 0, ErrBudget
	}
	if len(p) == 0 {
		return 0, nil
	}
	lim := r.limit()
	if r.pos >= lim {
		err := r.endErr()
		if err == nil {
			r.ZeroReads++
		}
		return 0, err
	}
	n := int64(len(p))
	if r.spec.Mode == "chunk" && len(r.spec.Chunks) > 0 {
		c := int64(r.spec.Chunks[r.ci%len(r.spec.Chunks)])
		r.ci++
		if c < 1 {
			c = 1
		}
		if c < n {
			n = c
		}
	}
	avail := lim - r.pos
	if n > avail {
		n = avail
	}
	if n < int64(len(p)) && n < avail {
		r.ShortReads++
	}
	copy(p, r.b[r.pos:r.pos+n])
	r.pos += n
	r.Delivered += n
	if r.pos >= lim && r.spec.DataEOF && r.spec.Mode != "fault" {
		return int(n), io.EOF
	}
	return int(n), nil
}

func (r *Inst) Seek(off int64, whence int) (int64, error) {
	r.SeekCalls++
	if r.spec.SeekFail {
		return r.pos, ErrCustom
	}
	var abs int64
	switch whence {
	case io.SeekStart:
		abs = off
	case io.SeekCurrent:
		abs = r.pos + off
	case io.SeekEnd:
		abs = int64(len(r.b)) + off
	default:
		return 0, errors.New("verif: bad whence")
	}
	if abs < 0 {
		return 0, errors.New("verif: negative position")
	}
	r.pos = abs
	return abs, nil
}

// ReadAt serves imagetype.ReadAt.
func (r *Inst) ReadAt(p []byte, off int64) (int, error) {
	r.ReadCalls++
	r.Requested += int64(len(p))
	lim := r.limit()
	if off >= lim {
		return 0, r.endErrAt()
	}
	n := copy(p, r.b[off:lim])
	r.Delivered += int64(n)
	if n < len(p) {
		return n, r.endErrAt()
	}
	return n, nil
}

func (r *Inst) endErrAt() error {
	if err := r.endErr(); err != nil {
		return err
	}
	return io.EOF
}

// onlyReader hides Seek/ReadAt where the entry point takes an io.Reader.
type onlyReader struct{ r io.Reader }

func (o onlyReader) Read(p []byte) (int, error) { return o.r.Read(p) }

type logCounter struct {
	n, recs int
}

func (l *logCounter) Write(p []byte) (int, error) {
	l.n += len(p)
	l.recs += bytes.Count(p, []byte("\n"))
	return len(p), nil
}

func setLog(level string, w io.Writer) {
	if level == "" {
		ResetLog()
		return
	}
	lv, err := zerolog.ParseLevel(level)
	if err != nil {
		lv = zerolog.PanicLevel
	}
	imagemeta.SetLogger(w, lv)
}

// ResetLog restores the library's default logger configuration.
func ResetLog() {
	imagemeta.SetLogger(zerolog.ConsoleWriter{Out: os.Stdout}, zerolog.PanicLevel)
}

func cpuNs() int64 {
	var ru syscall.Rusage
	if syscall.Getrusage(syscall.RUSAGE_SELF, &ru) != nil {
		return 0
	}
	return ru.Utime.Nano() + ru.Stime.Nano()
}

// firstRepoFrame extracts "pkg.func" of the innermost imagemeta frame.
func firstRepoFrame(stack string) string {
	for _, ln := range strings.Split(stack, "\n") {
		if strings.HasPrefix(ln, "github.com/evanoberholster/imagemeta") {
			ln = strings.TrimPrefix(ln, "github.com/evanoberholster/imagemeta")
			ln = strings.TrimPrefix(ln, "/")
			if i := strings.LastIndex(ln, "("); i > 0 {
				ln = ln[:i]
			}
			return ln
		}
	}
	return "?"
}

// Exec runs one request in this process.
func Exec(q Req) (resp Resp) {
	in := NewInst(q.Input, q.Reader)
	in.Budget = int64(len(q.Input))*4 + 200_000
	lc := &logCounter{}
	if !q.Concurrent {
		setLog(q.Log, lc)
		defer ResetLog()
	}
	var ms0, ms1 runtime.MemStats
	if q.Alloc {
		runtime.ReadMemStats(&ms0)
	}
	c0 := cpuNs()
	t0 := time.Now()
	func() {
		defer func() {
			if r := recover(); r != nil {
				st := string(debug.Stack())
				// drop the frames of the recover machinery itself
				if i := strings.Index(st, "panic("); i >= 0 {
					st = st[i:]
				}
				resp.Panic = fmt.Sprint(r)
				resp.PanicFrame = firstRepoFrame(st)
				resp.PanicStack = clip(st, 3000)
			}
		}()
		resp.Digest, resp.Err = call(q, in)
	}()
	resp.WallNs = time.Since(t0).Nanoseconds()
	resp.CPUNs = cpuNs() - c0
	if q.Alloc {
		runtime.ReadMemStats(&ms1)
		resp.Alloc = ms1.TotalAlloc - ms0.TotalAlloc
	}
	resp.Requested, resp.Delivered, resp.ReadCalls, resp.SeekCalls = in.Requested, in.Delivered, in.ReadCalls, in.SeekCalls
	resp.ShortReads, resp.ZeroReads = in.ShortReads, in.ZeroReads
	resp.LogBytes, resp.LogRecords = lc.n, lc.recs
	return resp
}

func clip(s string, n int) string {
	if len(s) > n {
		return s[:n]
	}
	return s
}

// LastValues holds the values the most recent in-process call returned (for
// retention checks: a returned result must not change when later calls run).
var LastValues []any

func call(q Req, in *Inst) (dig string, errs string) {
	var err error
	var plain io.Reader = onlyReader{in}
	if q.Reader.Pre > 0 {
		br := bufio.NewReaderSize(onlyReader{in}, 4096)
		_, _ = br.Discard(q.Reader.Pre)
		plain = br
	} else if q.Reader.Bufio > 0 {
		plain = bufio.NewReaderSize(onlyReader{in}, q.Reader.Bufio)
	}
	keep := func(v any) {}
	if !q.Concurrent {
		LastValues = LastValues[:0]
		keep = func(v any) { LastValues = append(LastValues, v) }
	}
	switch q.Entry {
	case "Decode":
		var e exif2.Exif
		e, err = imagemeta.Decode(in)
		dig = digest.Of(e)
		keep(e)
	case "DecodeTiff":
		var e exif2.Exif
		e, err = imagemeta.DecodeTiff(in)
		dig = digest.Of(e)
		keep(e)
	case "DecodeJPEG":
		var e exif2.Exif
		e, err = imagemeta.DecodeJPEG(in)
		dig = digest.Of(e)
		keep(e)
	case "DecodePng":
		var e exif2.Exif
		e, err = imagemeta.DecodePng(in)
		dig = digest.Of(e)
		keep(e)
	case "DecodeCR3":
		var e exif2.Exif
		e, err = imagemeta.DecodeCR3(in)
		dig = digest.Of(e)
		keep(e)
	case "DecodeCR2":
		var e exif2.Exif
		e, err = imagemeta.DecodeCR2(in)
		dig = digest.Of(e)
		keep(e)
	case "DecodeHeif":
		var e exif2.Exif
		e, err = imagemeta.DecodeHeif(in)
		dig = digest.Of(e)
		keep(e)
	case "PreviewCR3":
		var b []byte
		b, err = imagemeta.PreviewCR3(in)
		dig = digest.Of(b)
		keep(b)
	case "RenderPreview": // preview.RenderPreview called directly on the caller's reader: the input is the preview itself
		pr := preview.NewPreviewReader(preview.Logger)
		err = pr.RenderPreview(onlyReader{in}, meta.PreviewHeader{Size: uint32(len(q.Input)), Width: 160, Height: 120})
		dig = digest.Of(pr.PreviewImage)
		keep(pr.PreviewImage)
	case "ExifJPEGIfd": // exif2's JPEG entry called directly on the caller's reader: the input is the TIFF block of an APP1 segment
		ir := exif2.NewIfdReader(exif2.Logger)
		defer ir.Close()
		if len(q.Input) >= 8 {
			bo := utils.BinaryOrder(q.Input)
			h := meta.NewExifHeader(bo, bo.Uint32(q.Input[4:8]), 0, uint32(len(q.Input)), imagetype.ImageJPEG)
			h.FirstIfd = ifds.IFD0
			err = ir.DecodeJPEGIfd(onlyReader{in}, h)
		}
		dig = digest.Of(ir.Exif)
	case "ExifParse":
		var e exif2.Exif
		e, err = exif2.Parse(in)
		dig = digest.Of(e)
		keep(e)
	case "ScanJPEG":
		ir := exif2.NewIfdReader(exif2.Logger)
		defer ir.Close()
		var sb strings.Builder
		err = jpeg.ScanJPEG(plain, ir.DecodeJPEGIfd, func(r io.Reader) error {
			x, e := xmp.ParseXmp(r)
			fmt.Fprintf(&sb, "xmp-callback err=%s\n%s", digest.Err(e), digest.Of(x))
			return e
		})
		dig = sb.String() + digest.Of(ir.Exif)
	case "ScanJPEGDrain":
		var sb strings.Builder
		err = jpeg.ScanJPEG(plain, func(r io.Reader, h meta.ExifHeader) error {
			n, e := io.CopyN(io.Discard, r, int64(h.ExifLength))
			fmt.Fprintf(&sb, "exif-callback %s read=%d err=%s\n", digest.Of(h), n, digest.Err(e))
			return nil
		}, func(r io.Reader) error {
			b, e := io.ReadAll(r)
			fmt.Fprintf(&sb, "xmp-callback %s err=%s\n", digest.Of(b), digest.Err(e))
			return nil
		})
		dig = sb.String()
	case "ScanTiffHeader":
		var h meta.ExifHeader
		h, err = tiff.ScanTiffHeader(plain, imagetype.ImageUnknown)
		dig = digest.Of(h)
	case "ScanPngHeader":
		var h meta.ExifHeader
		h, err = png.ScanPngHeader(in)
		dig = digest.Of(h)
	case "BMFF":
		var sb strings.Builder
		ir := exif2.NewIfdReader(exif2.Logger)
		defer ir.Close()
		pr := preview.NewPreviewReader(preview.Logger)
		bmr := isobmff.NewReader(plain)
		defer bmr.Close()
		bmr.ExifReader = ir.DecodeIfd
		var drain [512]byte
		bmr.XMPReader = func(r io.Reader) error {
			if q.Alloc {
				// allocation runs: the callback is the harness's, not the library's; ParseXmp has its
				// own entry point, and digesting here would be charged to the decode. Only consume the box.
				for {
					if n, e := r.Read(drain[:]); e != nil || n == 0 {
						return nil
					}
				}
			}
			x, e := xmp.ParseXmp(r)
			fmt.Fprintf(&sb, "xmp-callback err=%s\n%s", digest.Err(e), digest.Of(x))
			return e
		}
		bmr.PreviewImageReader = pr.RenderPreview
		err = bmr.ReadFTYP()
		k := q.K
		if k <= 0 {
			k = 3
		}
		for i := 0; i < k && err == nil; i++ {
			err = bmr.ReadMetadata()
		}
		dig = sb.String() + digest.Of(ir.Exif) + "preview=" + digest.Of(pr.PreviewImage)
	case "BMFFRaw":
		// a consumer of its own: every callback reads its reader to the end through a 64 KiB buffer (large requests take
		// other paths through the buffered readers than the library's own consumers, which ask for a few KiB at a time)
		var sb strings.Builder
		bmr := isobmff.NewReader(plain)
		defer bmr.Close()
		big := make([]byte, 64<<10)
		slurp := func(kind string, r io.Reader) error {
			h := fnv.New64a()
			total := 0
			for {
				n, e := r.Read(big)
				h.Write(big[:n])
				total += n
				if e != nil || n == 0 {
					fmt.Fprintf(&sb, "%s-callback bytes=%d hash=%016x end=%s\n", kind, total, h.Sum64(), digest.Err(e))
					return nil
				}
			}
		}
		bmr.ExifReader = func(r io.Reader, h meta.ExifHeader) error { return slurp("exif "+digest.Of(h), r) }
		bmr.XMPReader = func(r io.Reader) error { return slurp("xmp", r) }
		bmr.PreviewImageReader = func(r io.Reader, h meta.PreviewHeader) error { return slurp("preview", r) }
		err = bmr.ReadFTYP()
		k := q.K
		if k <= 0 {
			k = 3
		}
		for i := 0; i < k && err == nil; i++ {
			err = bmr.ReadMetadata()
		}
		dig = sb.String()
	case "ParseXmp":
		var x xmp.XMP
		x, err = xmp.ParseXmp(plain)
		if !q.Alloc { // (the digest of a result with 100,000 list items is not the library's allocation)
			dig = digest.Of(x)
		}
		keep(x)
	case "ItHelpers":
		// the exported signature tests that take the bytes themselves (no reader)
		dig = fmt.Sprint(imagetype.IsTiffLittleEndian(q.Input), imagetype.IsTiffBigEndian(q.Input), utils.BinaryOrder(q.Input))
	case "ItScan":
		var t imagetype.ImageType
		t, err = imagetype.Scan(plain)
		dig = t.String()
	case "ItScanBuf":
		var t imagetype.ImageType
		t, err = imagetype.ScanBuf(bufio.NewReaderSize(onlyReader{in}, 64))
		dig = t.String()
	case "ItReadAt":
		var t imagetype.ImageType
		t, err = imagetype.ReadAt(in)
		dig = t.String()
	case "ItBuf":
		var t imagetype.ImageType
		t, err = imagetype.Buf(q.Input)
		dig = t.String()
	default:
		return "", "verif: unknown entry " + q.Entry
	}
	return dig, digest.Err(err)
}
