// Package digest renders any result value canonically and bit-exactly:
// every field (exported or not) by reflection, floats as IEEE bit patterns
// (all NaNs identified), time.Time as instant + zone name + offset.
package digest

import (
	"fmt"
	"math"
	"reflect"
	"sort"
	"strings"
	"time"
	"unsafe"
)

var timeType = reflect.TypeOf(time.Time{})
var locPtrType = reflect.TypeOf((*time.Location)(nil))

// Of returns the canonical multi-line rendering of v.
func Of(v any) string {
	var sb strings.Builder
	rv := reflect.ValueOf(v)
	if !rv.IsValid() {
		return "<nil>\n"
	}
	// make addressable copy so unexported fields can be read through unsafe
	cp := reflect.New(rv.Type()).Elem()
	cp.Set(rv)
	walk(&sb, "", cp, 0)
	return sb.String()
}

// Time renders a time.Time the way the digest does.
func Time(t time.Time) string {
	if t.IsZero() {
		name, off := t.Zone()
		return fmt.Sprintf("zero-time zone=%q off=%d", name, off)
	}
	name, off := t.Zone()
	return fmt.Sprintf("%s unix=%d.%09d zone=%q off=%d", t.Format("2006-01-02T15:04:05.999999999"), t.Unix(), t.Nanosecond(), name, off)
}

func access(v reflect.Value) reflect.Value {
	if v.CanInterface() {
		return v
	}
	if v.CanAddr() {
		return reflect.NewAt(v.Type(), unsafe.Pointer(v.UnsafeAddr())).Elem()
	}
	return v
}

func walk(sb *strings.Builder, path string, v reflect.Value, depth int) {
	if depth > 12 {
		fmt.Fprintf(sb, "%s=<too deep>\n", path)
		return
	}
	v = access(v)
	t := v.Type()
	if t == timeType && v.CanInterface() {
		fmt.Fprintf(sb, "%s=%s\n", path, Time(v.Interface().(time.Time)))
		return
	}
	if t == locPtrType && v.CanInterface() {
		loc := v.Interface().(*time.Location)
		if loc == nil {
			fmt.Fprintf(sb, "%s=<nil location>\n", path)
			return
		}
		name, off := time.Unix(1_000_000_000, 0).In(loc).Zone()
		fmt.Fprintf(sb, "%s=loc(%q name=%q off=%d)\n", path, loc.String(), name, off)
		return
	}
	switch v.Kind() {
	case reflect.Struct:
		if t.NumField() == 0 {
			fmt.Fprintf(sb, "%s={}\n", path)
		}
		for i := 0; i < t.NumField(); i++ {
			walk(sb, path+"."+t.Field(i).Name, v.Field(i), depth+1)
		}
	case reflect.Float32, reflect.Float64:
		f := v.Float()
		if math.IsNaN(f) {
			fmt.Fprintf(sb, "%s=NaN\n", path)
		} else if v.Kind() == reflect.Float32 {
			fmt.Fprintf(sb, "%s=f32:%08x(%g)\n", path, math.Float32bits(float32(f)), f)
		} else {
			fmt.Fprintf(sb, "%s=f64:%016x(%g)\n", path, math.Float64bits(f), f)
		}
	case reflect.Int, reflect.Int8, reflect.Int16, reflect.Int32, reflect.Int64:
		fmt.Fprintf(sb, "%s=%d\n", path, v.Int())
	case reflect.Uint, reflect.Uint8, reflect.Uint16, reflect.Uint32, reflect.Uint64, reflect.Uintptr:
		fmt.Fprintf(sb, "%s=%d\n", path, v.Uint())
	case reflect.Bool:
		fmt.Fprintf(sb, "%s=%v\n", path, v.Bool())
	case reflect.String:
		fmt.Fprintf(sb, "%s=%q\n", path, v.String())
	case reflect.Slice:
		if v.IsNil() {
			fmt.Fprintf(sb, "%s=nil-slice\n", path)
			return
		}
		if t.Elem().Kind() == reflect.Uint8 {
			b := make([]byte, v.Len())
			reflect.Copy(reflect.ValueOf(b), v)
			if len(b) > 64 {
				fmt.Fprintf(sb, "%s=bytes[%d] fnv=%016x head=%x\n", path, len(b), fnv(b), b[:32])
			} else {
				fmt.Fprintf(sb, "%s=bytes[%d] %x\n", path, len(b), b)
			}
			return
		}
		fmt.Fprintf(sb, "%s.len=%d\n", path, v.Len())
		for i := 0; i < v.Len(); i++ {
			walk(sb, fmt.Sprintf("%s[%d]", path, i), v.Index(i), depth+1)
		}
	case reflect.Array:
		if t.Elem().Kind() == reflect.Uint8 {
			b := make([]byte, v.Len())
			for i := range b {
				b[i] = byte(v.Index(i).Uint())
			}
			fmt.Fprintf(sb, "%s=array[%d] %x\n", path, len(b), b)
			return
		}
		for i := 0; i < v.Len(); i++ {
			walk(sb, fmt.Sprintf("%s[%d]", path, i), v.Index(i), depth+1)
		}
	case reflect.Ptr, reflect.Interface:
		if v.IsNil() {
			fmt.Fprintf(sb, "%s=nil\n", path)
			return
		}
		walk(sb, path+"*", v.Elem(), depth+1)
	case reflect.Map:
		keys := v.MapKeys()
		ks := make([]string, len(keys))
		for i, k := range keys {
			ks[i] = fmt.Sprint(k)
		}
		sort.Strings(ks)
		fmt.Fprintf(sb, "%s=map%v\n", path, ks)
	case reflect.Func, reflect.Chan, reflect.UnsafePointer:
		fmt.Fprintf(sb, "%s=<%s nil=%v>\n", path, v.Kind(), v.IsNil())
	default:
		fmt.Fprintf(sb, "%s=<%s>\n", path, v.Kind())
	}
}

func fnv(b []byte) uint64 {
	h := uint64(14695981039346656037)
	for _, c := range b {
		h ^= uint64(c)
		h *= 1099511628211
	}
	return h
}

// Err renders an error value.
func Err(err error) string {
	if err == nil {
		return "<nil>"
	}
	return err.Error()
}
