// Package ev collects what a check actually covered and writes it as a
// "part" file; cmd/vcheck merges the parts of all shards into
// evidence/<id>.json (EVIDENCE.schema.json).
package ev

import (
	"encoding/binary"
	"encoding/json"
	"fmt"
	"hash/fnv"
	"os"
	"path/filepath"
	"sort"
	"strconv"
	"sync"
	"time"
)

// Env describes how the driver invoked this test binary.
type Env struct {
	Tier     string // quick | thorough
	Seed     int64  // VERIF_SEED as given
	Shard    int
	Shards   int
	PartsDir string
	Root     string // /verif
}

// GetEnv reads the VERIF_* variables set by cmd/vcheck.
func GetEnv() Env {
	e := Env{Tier: os.Getenv("VERIF_TIER"), PartsDir: os.Getenv("VERIF_PARTS_DIR"), Root: os.Getenv("VERIF_ROOT")}
	if e.Tier != "thorough" {
		e.Tier = "quick"
	}
	e.Seed, _ = strconv.ParseInt(os.Getenv("VERIF_SEED"), 10, 64)
	e.Shard, _ = strconv.Atoi(os.Getenv("VERIF_SHARD"))
	e.Shards, _ = strconv.Atoi(os.Getenv("VERIF_SHARDS"))
	if e.Shards < 1 {
		e.Shards = 1
	}
	if e.Root == "" {
		e.Root = "/verif"
	}
	if e.PartsDir == "" {
		e.PartsDir = filepath.Join(e.Root, ".build", "parts")
	}
	return e
}

// Thorough reports whether the thorough tier was requested.
func (e Env) Thorough() bool { return e.Tier == "thorough" }

// Pick returns q in the quick tier and t in the thorough tier.
func (e Env) Pick(q, t int) int {
	if e.Thorough() {
		return t
	}
	return q
}

// RapidSeed maps (VERIF_SEED, shard, salt) to a non-zero rapid seed
// (rapid treats 0 as "pick a random seed").
func (e Env) RapidSeed(salt uint64) uint64 {
	s := uint64(e.Seed)*0x9E3779B97F4A7C15 + uint64(e.Shard+1)*0xBF58476D1CE4E5B9 + salt*0x94D049BB133111EB
	s ^= s >> 31
	if s == 0 {
		s = 0x1234567
	}
	return s
}

const maxDistinct = 6_000_000

// Recorder accumulates the coverage of one property in one process.
type Recorder struct {
	ID    string
	Env   Env
	Level string

	mu          sync.Mutex
	start       time.Time
	evaluations int64
	distinct    map[uint64]struct{}
	capped      bool
	classes     map[string]int64
	samples     []any
	sampleSeen  map[string]int
	rules       []string
	assumptions []string
	extra       map[string]any
	exhaustive  *bool
	violations  int
	known       map[string]int
	inconcl     int64
	written     bool
}

// New creates a recorder for property id.
func New(id string) *Recorder {
	return &Recorder{ID: id, Env: GetEnv(), Level: "exploration", start: time.Now(),
		distinct: map[uint64]struct{}{}, classes: map[string]int64{}, extra: map[string]any{},
		known: map[string]int{}, sampleSeen: map[string]int{}}
}

// Hash is the canonical 64-bit case hash used for distinctness.
func Hash(parts ...[]byte) uint64 {
	h := fnv.New64a()
	var l [8]byte
	for _, p := range parts {
		binary.LittleEndian.PutUint64(l[:], uint64(len(p)))
		h.Write(l[:])
		h.Write(p)
	}
	return h.Sum64()
}

// HashS hashes strings.
func HashS(parts ...string) uint64 {
	bs := make([][]byte, len(parts))
	for i, p := range parts {
		bs[i] = []byte(p)
	}
	return Hash(bs...)
}

// Case counts one evaluated case. nontrivial says whether it satisfies the
// property's non-trivial rule; key is its canonical hash.
func (r *Recorder) Case(nontrivial bool, key uint64, classes ...string) {
	r.mu.Lock()
	r.evaluations++
	if nontrivial {
		if len(r.distinct) < maxDistinct {
			r.distinct[key] = struct{}{}
		} else {
			r.capped = true
		}
	}
	for _, c := range classes {
		if c != "" {
			r.classes[c]++
		}
	}
	r.mu.Unlock()
}

// Eval adds n evaluations that are not individually hashed (trivial cases).
func (r *Recorder) Eval(n int64) { r.mu.Lock(); r.evaluations += n; r.mu.Unlock() }

// Class bumps class counters without counting an evaluation.
func (r *Recorder) Class(c string, n int64) { r.mu.Lock(); r.classes[c] += n; r.mu.Unlock() }

// generator-level counters (what the shared generators produced, whichever check drew them); merged
// into the class histogram of the recorder that writes.
var (
	genMu      sync.Mutex
	genClasses = map[string]int64{}
)

// GenClass counts one generated structure of the named class.
func GenClass(c string) { genMu.Lock(); genClasses["gen:"+c]++; genMu.Unlock() }

// Sample stores up to perKind examples of each kind.
func (r *Recorder) Sample(kind string, v any) {
	r.mu.Lock()
	if r.sampleSeen[kind] < 2 && len(r.samples) < 12 {
		r.sampleSeen[kind]++
		// a sample holding NaN or an infinity has no JSON form: keep its printed form
		// (the evidence part could not be written otherwise and the run ended inconclusive)
		if _, err := json.Marshal(v); err != nil {
			v = fmt.Sprintf("%+v", v)
		}
		r.samples = append(r.samples, map[string]any{"kind": kind, "case": v})
	}
	r.mu.Unlock()
}

// Rule appends a sentence to coverage.rule.
func (r *Recorder) Rule(s string) { r.mu.Lock(); r.rules = append(r.rules, s); r.mu.Unlock() }

// Assume appends to assumptions.
func (r *Recorder) Assume(s string) {
	r.mu.Lock()
	r.assumptions = append(r.assumptions, s)
	r.mu.Unlock()
}

// Extra sets an extra coverage key.
func (r *Recorder) Extra(k string, v any) { r.mu.Lock(); r.extra[k] = v; r.mu.Unlock() }

// Exhaustive records whether the enumerated sub-domains were completed.
func (r *Recorder) Exhaustive(b bool) { r.mu.Lock(); r.exhaustive = &b; r.mu.Unlock() }

// Inconclusive counts watchdog expiries and similar.
func (r *Recorder) Inconclusive(n int64) { r.mu.Lock(); r.inconcl += n; r.mu.Unlock() }

// Violation prints the VIOLATION line and counts it.
func (r *Recorder) Violation(replay string, msg string) {
	r.mu.Lock()
	r.violations++
	r.mu.Unlock()
	fmt.Fprintf(os.Stdout, "\nVIOLATION property=%s replay=%s\n", r.ID, replay)
	if msg != "" {
		fmt.Fprintf(os.Stdout, "  detail: %s\n", firstLines(msg, 12))
	}
}

// Known prints the KNOWN-FINDING line (once per key per process).
func (r *Recorder) Known(key, what string) {
	r.mu.Lock()
	n := r.known[key]
	r.known[key]++
	r.mu.Unlock()
	if n == 0 {
		fmt.Fprintf(os.Stdout, "\nKNOWN-FINDING: property=%s key=%s %s\n", r.ID, key, what)
	}
}

func firstLines(s string, n int) string {
	out := []byte{}
	lines := 0
	for i := 0; i < len(s) && len(out) < 4000; i++ {
		if s[i] == '\n' {
			lines++
			if lines >= n {
				break
			}
		}
		out = append(out, s[i])
	}
	return string(out)
}

// Part is the per-shard file merged by cmd/vcheck.
type Part struct {
	ID          string           `json:"id"`
	Tier        string           `json:"tier"`
	Seed        int64            `json:"seed"`
	Shard       int              `json:"shard"`
	Level       string           `json:"level"`
	Evaluations int64            `json:"evaluations"`
	Distinct    int              `json:"distinct"`
	Capped      bool             `json:"capped"`
	Classes     map[string]int64 `json:"classes"`
	Samples     []any            `json:"samples"`
	Rules       []string         `json:"rules"`
	Assumptions []string         `json:"assumptions"`
	Extra       map[string]any   `json:"extra"`
	Exhaustive  *bool            `json:"exhaustive,omitempty"`
	Violations  int              `json:"violations"`
	Known       map[string]int   `json:"known"`
	Inconcl     int64            `json:"inconclusive"`
	WallS       float64          `json:"wall_s"`
	HashFile    string           `json:"hash_file"`
}

// Write stores the part file (and the hash set next to it).
func (r *Recorder) Write() error {
	r.mu.Lock()
	defer r.mu.Unlock()
	if err := os.MkdirAll(r.Env.PartsDir, 0o755); err != nil {
		return err
	}
	base := filepath.Join(r.Env.PartsDir, fmt.Sprintf("%s.%d", r.ID, r.Env.Shard))
	genMu.Lock()
	for k, v := range genClasses {
		r.classes[k] = v
	}
	genMu.Unlock()
	hs := make([]uint64, 0, len(r.distinct))
	for h := range r.distinct {
		hs = append(hs, h)
	}
	sort.Slice(hs, func(i, j int) bool { return hs[i] < hs[j] })
	hb := make([]byte, 8*len(hs))
	for i, h := range hs {
		binary.LittleEndian.PutUint64(hb[8*i:], h)
	}
	if err := os.WriteFile(base+".hashes", hb, 0o644); err != nil {
		return err
	}
	p := Part{ID: r.ID, Tier: r.Env.Tier, Seed: r.Env.Seed, Shard: r.Env.Shard, Level: r.Level,
		Evaluations: r.evaluations, Distinct: len(hs), Capped: r.capped, Classes: r.classes,
		Samples: r.samples, Rules: r.rules, Assumptions: r.assumptions, Extra: r.extra,
		Exhaustive: r.exhaustive, Violations: r.violations, Known: r.known, Inconcl: r.inconcl,
		WallS: time.Since(r.start).Seconds(), HashFile: base + ".hashes"}
	b, err := json.MarshalIndent(p, "", " ")
	if err != nil {
		return err
	}
	r.written = true
	return os.WriteFile(base+".json", b, 0o644)
}

// MustWrite writes the part file and reports a failure to do so loudly.
func (r *Recorder) MustWrite() {
	if err := r.Write(); err != nil {
		fmt.Fprintf(os.Stdout, "\nINFRA property=%s cannot write coverage part: %v\n", r.ID, err)
	}
}
