// vcheck is the driver registered in MANIFEST.json:
//
//	bin/vcheck -p C07 -tier quick|thorough     run the check of one property
//	bin/vcheck -p C07 -replay replay/x.json    re-execute one saved case
//
// It rebuilds the property's test binary from /repo's current working tree
// (build tag "verif"), runs it (sharded in the thorough tier, because rapid is
// single-core), merges the shards' coverage into evidence/<id>.json and maps
// the outcome to the exit code: 0 held, 1 VIOLATION, 2 cannot decide.
package main

import (
	"bufio"
	"bytes"
	"encoding/binary"
	"encoding/json"
	"flag"
	"fmt"
	"os"
	"os/exec"
	"path/filepath"
	"sort"
	"strconv"
	"strings"
	"sync"
	"time"
)

type fuzzCfg struct {
	Target string
	Secs   int
}

type propCfg struct {
	Race          bool
	QuickShards   int
	ThoroughShard int
	QuickTimeout  time.Duration
	ThorTimeout   time.Duration
	Fuzz          []fuzzCfg // thorough tier only
	Level         string
}

var props = map[string]propCfg{}

func init() {
	def := func(id string, c propCfg) {
		if c.QuickShards == 0 {
			c.QuickShards = 1
		}
		if c.ThoroughShard == 0 {
			c.ThoroughShard = 8
		}
		if c.QuickTimeout == 0 {
			c.QuickTimeout = 5 * time.Minute
		}
		if c.ThorTimeout == 0 {
			c.ThorTimeout = 25 * time.Minute
		}
		if c.Level == "" {
			c.Level = "exploration"
		}
		props[id] = c
	}
	def("C01", propCfg{QuickShards: 6, QuickTimeout: 10 * time.Minute, ThorTimeout: 40 * time.Minute, ThoroughShard: 12, Level: "fault_enumeration", Fuzz: []fuzzCfg{{"FuzzDecode", 240}}})
	def("C02", propCfg{QuickShards: 2, ThoroughShard: 12, Fuzz: []fuzzCfg{{"FuzzTerminate", 180}}})
	def("C03", propCfg{QuickShards: 2, ThoroughShard: 12})
	def("C04", propCfg{QuickShards: 2, ThoroughShard: 12})
	def("C05", propCfg{Race: true, QuickShards: 1, ThoroughShard: 4})
	def("C06", propCfg{QuickShards: 2, ThoroughShard: 12})
	def("C07", propCfg{QuickShards: 2, ThoroughShard: 12})
	def("C08", propCfg{QuickShards: 2, ThoroughShard: 12})
	def("C09", propCfg{QuickShards: 1, ThoroughShard: 8})
	def("C10", propCfg{QuickShards: 2, ThoroughShard: 12})
	def("C11", propCfg{QuickShards: 2, ThoroughShard: 12})
	def("C12", propCfg{QuickShards: 1, ThoroughShard: 12})
	def("C13", propCfg{QuickShards: 2, ThoroughShard: 12, Fuzz: []fuzzCfg{{"FuzzXMP", 180}}})
	def("C14", propCfg{QuickShards: 2, ThoroughShard: 12})
	def("C15", propCfg{QuickShards: 2, ThoroughShard: 12})
	def("C16", propCfg{QuickShards: 1, ThoroughShard: 8, Fuzz: []fuzzCfg{{"FuzzUnmarshal", 120}}})
	def("C17", propCfg{QuickShards: 1, ThoroughShard: 4})
	def("C18", propCfg{QuickShards: 2, ThoroughShard: 12})
	def("C19", propCfg{QuickShards: 2, ThoroughShard: 12})
	def("C20", propCfg{QuickShards: 2, ThoroughShard: 12})
}

var root string
var partsTag string
var altFiles []string

// exit removes the artefacts of a VERIF_REPO sensitivity run, then exits.
func exit(code int) {
	for _, f := range altFiles {
		_ = os.RemoveAll(f)
	}
	os.Exit(code)
}

func hashString(s string) uint32 {
	h := uint32(2166136261)
	for i := 0; i < len(s); i++ {
		h = (h ^ uint32(s[i])) * 16777619
	}
	return h
}

func main() {
	id := flag.String("p", "", "property id (C01..C20)")
	tier := flag.String("tier", "", "quick | thorough (default: $VERIF_TIER or quick)")
	replay := flag.String("replay", "", "replay file to re-execute")
	shardsFlag := flag.Int("shards", 0, "override shard count")
	nofuzz := flag.Bool("nofuzz", false, "skip native fuzz campaigns in the thorough tier")
	flag.Parse()

	root = os.Getenv("VERIF_ROOT")
	if root == "" {
		if wd, err := os.Getwd(); err == nil && fileExists(filepath.Join(wd, "properties.jsonl")) {
			root = wd
		} else {
			root = "/verif"
		}
	}
	cfg, ok := props[strings.ToUpper(*id)]
	if !ok {
		fmt.Fprintf(os.Stderr, "vcheck: unknown property %q\n", *id)
		os.Exit(2)
	}
	ID := strings.ToUpper(*id)
	if *tier == "" {
		*tier = os.Getenv("VERIF_TIER")
	}
	if *tier != "thorough" {
		*tier = "quick"
	}
	seed, _ := strconv.ParseInt(os.Getenv("VERIF_SEED"), 10, 64)

	env := append(os.Environ(),
		"GOFLAGS=-mod=mod", "GOPROXY=off", "GOSUMDB=off", "GOTOOLCHAIN=local",
		"VERIF_ROOT="+root, "VERIF_TIER="+*tier, "VERIF_SEED="+strconv.FormatInt(seed, 10))

	start := time.Now()
	build := filepath.Join(root, ".build")
	_ = os.MkdirAll(build, 0o755)
	pkgDir := filepath.Join(root, "props", strings.ToLower(ID))
	bin := filepath.Join(build, strings.ToLower(ID)+".test")
	args := []string{"test", "-c", "-tags", "verif", "-vet=off", "-o", bin}
	// development aid for sensitivity runs only (the registered commands never set it):
	// VERIF_REPO=<dir> builds against a scratch copy of the library instead of /repo.
	if alt := os.Getenv("VERIF_REPO"); alt != "" && alt != "/repo" {
		gm, err := os.ReadFile(filepath.Join(root, "go.mod"))
		if err != nil {
			fmt.Printf("BUILD-FAILED property=%s (cannot read go.mod)\n", ID)
			exit(2)
		}
		tag := fmt.Sprintf("%x", hashString(alt))
		mf := filepath.Join(build, "alt-"+tag+".mod")
		_ = os.WriteFile(mf, bytes.Replace(gm, []byte("=> /repo"), []byte("=> "+alt), 1), 0o644)
		if gs, err := os.ReadFile(filepath.Join(root, "go.sum")); err == nil {
			_ = os.WriteFile(filepath.Join(build, "alt-"+tag+".sum"), gs, 0o644)
		}
		bin = filepath.Join(build, strings.ToLower(ID)+"-"+tag+".test")
		args = []string{"test", "-c", "-tags", "verif", "-vet=off", "-modfile", mf, "-o", bin}
		partsTag = "-" + tag
		altFiles = []string{mf, filepath.Join(build, "alt-"+tag+".sum"), bin, filepath.Join(build, "parts", ID+partsTag), filepath.Join(build, "evidence"+partsTag+"-"+ID+".json")}
		fmt.Printf("NOTE building against %s instead of /repo (sensitivity run)\n", alt)
	}
	if cfg.Race {
		args = append(args, "-race")
	}
	args = append(args, "./props/"+strings.ToLower(ID))
	cmd := exec.Command("go", args...)
	cmd.Dir = root
	cmd.Env = env
	if out, err := cmd.CombinedOutput(); err != nil {
		fmt.Printf("BUILD-FAILED property=%s (cannot decide)\n%s\n", ID, out)
		exit(2)
	}

	if *replay != "" {
		rp := *replay
		if !filepath.IsAbs(rp) {
			rp = filepath.Join(root, rp)
		}
		runArg := "^TestReplay$"
		if i := strings.Index(rp, "/testdata/fuzz/"); i >= 0 {
			// a crasher saved by the native fuzzer: testdata/fuzz/<Target>/<name>
			parts := strings.Split(rp[i+len("/testdata/fuzz/"):], "/")
			if len(parts) == 2 {
				runArg = "^" + parts[0] + "$/^" + parts[1] + "$"
			}
		}
		c := exec.Command(bin, "-test.run", runArg, "-test.count=1", "-test.timeout", "10m")
		c.Dir = pkgDir
		c.Env = append(append([]string{}, env...), "VERIF_REPLAY="+rp, "VERIF_SHARD=0", "VERIF_SHARDS=1", "VERIF_PARTS_DIR="+filepath.Join(build, "parts-replay"))
		out, err := c.CombinedOutput()
		os.Stdout.Write(out)
		if bytes.Contains(out, []byte("\nVIOLATION property=")) {
			exit(1)
		}
		if err != nil && runArg != "^TestReplay$" {
			fmt.Printf("VIOLATION property=%s replay=%s\n  detail: the saved fuzz input still fails its target\n", ID, rp)
			exit(1)
		}
		if err != nil && (bytes.Contains(out, []byte("fatal error:")) || bytes.Contains(out, []byte("SIGSEGV")) || bytes.Contains(out, []byte("unexpected fault address"))) {
			fmt.Printf("VIOLATION property=%s replay=%s\n  detail: replaying the case kills the process with a fatal runtime error\n", ID, rp)
			exit(1)
		}
		if err != nil {
			exit(2)
		}
		exit(0)
	}

	shards := cfg.QuickShards
	timeout := cfg.QuickTimeout
	if *tier == "thorough" {
		shards = cfg.ThoroughShard
		timeout = cfg.ThorTimeout
	}
	if *shardsFlag > 0 {
		shards = *shardsFlag
	}
	parts := filepath.Join(build, "parts", ID+partsTag)
	_ = os.RemoveAll(parts)
	_ = os.MkdirAll(parts, 0o755)

	type res struct {
		out []byte
		err error
	}
	results := make([]res, shards)
	var wg sync.WaitGroup
	for s := 0; s < shards; s++ {
		wg.Add(1)
		go func(s int) {
			defer wg.Done()
			c := exec.Command(bin, "-test.run", "^TestProp$", "-test.count=1", "-test.timeout", timeout.String(), "-test.v=false")
			c.Dir = pkgDir
			c.Env = append(append([]string{}, env...), "VERIF_SHARD="+strconv.Itoa(s), "VERIF_SHARDS="+strconv.Itoa(shards), "VERIF_PARTS_DIR="+parts,
				"GORACE=halt_on_error=0 exitcode=66")
			out, err := c.CombinedOutput()
			results[s] = res{out, err}
		}(s)
	}
	wg.Wait()

	violation, infra := false, false
	seenLines := map[string]bool{}
	for s, r := range results {
		lines := strings.Split(string(r.out), "\n")
		hasV := false
		for i, ln := range lines {
			switch {
			case strings.HasPrefix(ln, "VIOLATION property="):
				hasV = true
				if !seenLines[ln] {
					seenLines[ln] = true
					fmt.Println(ln)
					if i+1 < len(lines) && strings.HasPrefix(lines[i+1], "  detail:") {
						fmt.Println(lines[i+1])
					}
				}
			case strings.HasPrefix(ln, "KNOWN-FINDING:"):
				if !seenLines[ln] {
					seenLines[ln] = true
					fmt.Println(ln)
				}
			case strings.HasPrefix(ln, "INFRA "), strings.HasPrefix(ln, "NOTE "):
				fmt.Printf("[shard %d] %s\n", s, ln)
				if strings.HasPrefix(ln, "INFRA ") {
					infra = true
				}
			}
		}
		if hasV {
			violation = true
		}
		if r.err != nil && !hasV {
			// a fatal runtime error (SIGSEGV from assembly, stack exhaustion ...) in a check that records its case in flight
			inf := filepath.Join(parts, fmt.Sprintf("inflight.%s.%d.json", ID, s))
			if bytes.Contains(r.out, []byte("WARNING: DATA RACE")) {
				b, e := os.ReadFile(inf)
				if e != nil { // the run went on after the report: no single plan to point at, the report itself is the evidence
					b = []byte(`{"property":"` + ID + `","check":"race-report","message":"data race reported; see the .report.txt next to this file","case":null}`)
				}
				rp := filepath.Join(root, "replay", fmt.Sprintf("%s-race-shard%d-%x.json", ID, s, hashString(string(r.out))))
				_ = os.MkdirAll(filepath.Dir(rp), 0o755)
				_ = os.WriteFile(rp, b, 0o644)
				rep := string(r.out)
				if i := strings.Index(rep, "WARNING: DATA RACE"); i >= 0 {
					rep = rep[i:]
				}
				_ = os.WriteFile(strings.TrimSuffix(rp, ".json")+".report.txt", []byte(rep), 0o644)
				fmt.Printf("VIOLATION property=%s replay=%s\n  detail: the race detector reported a data race while the recorded plan ran; report head:\n%s\n", ID, rp, raceHead(rep))
				violation = true
				continue
			}
			if b, e := os.ReadFile(inf); e == nil && (bytes.Contains(r.out, []byte("fatal error:")) || bytes.Contains(r.out, []byte("SIGSEGV")) || bytes.Contains(r.out, []byte("unexpected fault address")) || bytes.Contains(r.out, []byte("SIGBUS")) || bytes.Contains(r.out, []byte("SIGILL"))) {
				rp := filepath.Join(root, "replay", fmt.Sprintf("%s-crash-shard%d-%x.json", ID, s, hashString(string(b))))
				_ = os.MkdirAll(filepath.Dir(rp), 0o755)
				_ = os.WriteFile(rp, b, 0o644)
				fmt.Printf("VIOLATION property=%s replay=%s\n  detail: the test process died with a fatal runtime error while evaluating the recorded case; output tail:\n%s\n", ID, rp, tail(fatalPart(string(r.out)), 25))
				violation = true
				continue
			}
			infra = true
			fmt.Printf("[shard %d] test binary failed without a VIOLATION line (%v); output tail:\n%s\n", s, r.err, tail(string(r.out), 60))
		}
		_ = os.WriteFile(filepath.Join(parts, fmt.Sprintf("shard%d.log", s)), r.out, 0o644)
	}

	// native fuzz campaigns (thorough only)
	fuzzInfo := []map[string]any{}
	if *tier == "thorough" && !*nofuzz && !violation {
		for _, fz := range cfg.Fuzz {
			info, v, inf := runFuzz(env, ID, pkgDir, fz)
			fuzzInfo = append(fuzzInfo, info)
			violation = violation || v
			infra = infra || inf
		}
	}

	evErr := merge(ID, *tier, seed, cfg, parts, shards, fuzzInfo, time.Since(start), violation)
	if evErr != nil {
		fmt.Printf("INFRA evidence: %v\n", evErr)
		infra = true
	}
	switch {
	case violation:
		exit(1)
	case infra:
		fmt.Printf("INCONCLUSIVE property=%s (infrastructure problem, see above)\n", ID)
		exit(2)
	}
	fmt.Printf("OK property=%s tier=%s shards=%d wall=%.1fs\n", ID, *tier, shards, time.Since(start).Seconds())
	exit(0)
}

// raceHead keeps the two access stacks of a race report, library frames first.
func raceHead(rep string) string {
	lines := strings.Split(rep, "\n")
	var out []string
	for _, ln := range lines {
		t := strings.TrimSpace(ln)
		if strings.HasPrefix(t, "WARNING: DATA RACE") || strings.HasPrefix(t, "Write at") || strings.HasPrefix(t, "Read at") || strings.HasPrefix(t, "Previous") ||
			strings.Contains(t, "evanoberholster/imagemeta") && !strings.Contains(t, ".go:") {
			out = append(out, "    "+t)
		}
		if len(out) >= 14 || strings.HasPrefix(t, "Goroutine ") {
			break
		}
	}
	return strings.Join(out, "\n")
}

// fatalPart cuts the output at the first fatal-error line.
func fatalPart(s string) string {
	for _, m := range []string{"unexpected fault address", "fatal error:", "SIGSEGV"} {
		if i := strings.Index(s, m); i >= 0 {
			j := i + 3000
			if j > len(s) {
				j = len(s)
			}
			return s[i:j]
		}
	}
	return s
}

func tail(s string, n int) string {
	l := strings.Split(s, "\n")
	if len(l) > n {
		l = l[len(l)-n:]
	}
	return strings.Join(l, "\n")
}

func fileExists(p string) bool { _, err := os.Stat(p); return err == nil }

// runFuzz runs one native coverage-guided campaign. A crasher written by the
// fuzzer under testdata/fuzz/<Target>/ is the replay file.
func runFuzz(env []string, ID, pkgDir string, fz fuzzCfg) (map[string]any, bool, bool) {
	info := map[string]any{"target": fz.Target, "seconds": fz.Secs}
	crashDir := filepath.Join(pkgDir, "testdata", "fuzz", fz.Target)
	before := listFiles(crashDir)
	cache := filepath.Join(root, ".build", "fuzzcache")
	_ = os.MkdirAll(cache, 0o755)
	c := exec.Command("go", "test", "-tags", "verif", "-vet=off", "-run", "^$", "-fuzz", "^"+fz.Target+"$",
		"-fuzztime", fmt.Sprintf("%ds", fz.Secs), "-test.fuzzcachedir", cache, "-timeout", fmt.Sprintf("%ds", fz.Secs+600), ".")
	c.Dir = pkgDir
	c.Env = append(append([]string{}, env...), "VERIF_FUZZ=1")
	out, err := c.CombinedOutput()
	execs := int64(0)
	sc := bufio.NewScanner(bytes.NewReader(out))
	for sc.Scan() {
		ln := sc.Text()
		if i := strings.Index(ln, "execs: "); i >= 0 {
			f := strings.Fields(ln[i+7:])
			if len(f) > 0 {
				if n, e := strconv.ParseInt(f[0], 10, 64); e == nil && n > execs {
					execs = n
				}
			}
		}
	}
	info["execs"] = execs
	after := listFiles(crashDir)
	var fresh []string
	for f := range after {
		if !before[f] {
			fresh = append(fresh, f)
		}
	}
	sort.Strings(fresh)
	if len(fresh) > 0 {
		info["crashers"] = fresh
		for _, f := range fresh {
			fmt.Printf("VIOLATION property=%s replay=%s\n", ID, filepath.Join(crashDir, f))
		}
		fmt.Printf("  detail: native fuzz target %s failed; output tail:\n%s\n", fz.Target, tail(string(out), 40))
		return info, true, false
	}
	if err != nil {
		fmt.Printf("[fuzz %s] go test -fuzz exited with %v and no crasher; output tail:\n%s\n", fz.Target, err, tail(string(out), 30))
		info["error"] = err.Error()
		return info, false, true
	}
	return info, false, false
}

func listFiles(dir string) map[string]bool {
	m := map[string]bool{}
	es, _ := os.ReadDir(dir)
	for _, e := range es {
		m[e.Name()] = true
	}
	return m
}

type part struct {
	ID          string           `json:"id"`
	Level       string           `json:"level"`
	Evaluations int64            `json:"evaluations"`
	Distinct    int              `json:"distinct"`
	Capped      bool             `json:"capped"`
	Classes     map[string]int64 `json:"classes"`
	Samples     []any            `json:"samples"`
	Rules       []string         `json:"rules"`
	Assumptions []string         `json:"assumptions"`
	Extra       map[string]any   `json:"extra"`
	Exhaustive  *bool            `json:"exhaustive,omitempty"`
	Violations  int              `json:"violations"`
	Known       map[string]int   `json:"known"`
	Inconcl     int64            `json:"inconclusive"`
	HashFile    string           `json:"hash_file"`
}

func merge(ID, tier string, seed int64, cfg propCfg, parts string, shards int, fuzzInfo []map[string]any, wall time.Duration, violation bool) error {
	var ps []part
	for s := 0; s < shards; s++ {
		b, err := os.ReadFile(filepath.Join(parts, fmt.Sprintf("%s.%d.json", ID, s)))
		if err != nil {
			if violation {
				continue
			}
			return fmt.Errorf("shard %d wrote no coverage part: %v", s, err)
		}
		var p part
		if err := json.Unmarshal(b, &p); err != nil {
			return err
		}
		ps = append(ps, p)
	}
	distinct := map[uint64]struct{}{}
	var evals, inconcl int64
	classes := map[string]int64{}
	var samples []any
	rules, assumptions := []string{}, []string{}
	seenRule, seenAss := map[string]bool{}, map[string]bool{}
	extra := map[string]any{}
	known := map[string]int{}
	viol := 0
	exhaustive := (*bool)(nil)
	capped := false
	level := cfg.Level
	for _, p := range ps {
		evals += p.Evaluations
		inconcl += p.Inconcl
		viol += p.Violations
		capped = capped || p.Capped
		if p.Level != "" && p.Level != "exploration" {
			level = p.Level
		}
		for k, v := range p.Classes {
			classes[k] += v
		}
		for k, v := range p.Known {
			known[k] += v
		}
		if len(samples) < 12 {
			for _, s := range p.Samples {
				if len(samples) < 12 {
					samples = append(samples, s)
				}
			}
		}
		for _, r := range p.Rules {
			if !seenRule[r] {
				seenRule[r] = true
				rules = append(rules, r)
			}
		}
		for _, a := range p.Assumptions {
			if !seenAss[a] {
				seenAss[a] = true
				assumptions = append(assumptions, a)
			}
		}
		for k, v := range p.Extra {
			if f, ok := v.(float64); ok {
				if g, ok := extra[k].(float64); ok {
					if strings.HasPrefix(k, "max_") {
						if f > g {
							extra[k] = f
						}
					} else {
						extra[k] = g + f
					}
					continue
				}
			}
			extra[k] = v
		}
		if p.Exhaustive != nil {
			if exhaustive == nil {
				b := *p.Exhaustive
				exhaustive = &b
			} else {
				*exhaustive = *exhaustive && *p.Exhaustive
			}
		}
		if hb, err := os.ReadFile(p.HashFile); err == nil {
			for i := 0; i+8 <= len(hb); i += 8 {
				distinct[binary.LittleEndian.Uint64(hb[i:])] = struct{}{}
			}
		}
	}
	cov := map[string]any{
		"evaluations":         evals,
		"distinct_nontrivial": len(distinct),
		"rule":                strings.Join(rules, " | "),
		"samples":             samples,
		"classes":             classes,
		"shards":              shards,
		"inconclusive":        inconcl,
	}
	if capped {
		cov["distinct_nontrivial_capped"] = true
	}
	if exhaustive != nil {
		cov["exhaustive"] = *exhaustive
	}
	if len(known) > 0 {
		cov["known_findings_seen"] = known
	}
	if len(fuzzInfo) > 0 {
		cov["native_fuzz"] = fuzzInfo
	}
	for k, v := range extra {
		if _, dup := cov[k]; !dup {
			cov[k] = v
		}
	}
	if violation && viol == 0 {
		viol = 1
	}
	evd := map[string]any{
		"property_id": ID,
		"tier":        tier,
		"seed":        seed,
		"level":       level,
		"coverage":    cov,
		"assumptions": assumptions,
		"wall_s":      wall.Seconds(),
		"violations":  viol,
	}
	b, err := json.MarshalIndent(evd, "", " ")
	if err != nil {
		return err
	}
	if partsTag != "" {
		return os.WriteFile(filepath.Join(root, ".build", "evidence"+partsTag+"-"+ID+".json"), b, 0o644)
	}
	_ = os.MkdirAll(filepath.Join(root, "evidence"), 0o755)
	return os.WriteFile(filepath.Join(root, "evidence", ID+".json"), b, 0o644)
}
