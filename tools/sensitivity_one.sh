#!/bin/sh
# usage (from sensitivity_par.sh): tools/sensitivity_one.sh seeded/<id>/  — one seeded change against the quick check of the
# property it breaks (and of the properties listed under also_checked_by); writes $SENS_TMP/<id>.row
export GOFLAGS=-mod=mod GOPROXY=off GOSUMDB=off GOTOOLCHAIN=local
cd /verif || exit 3
d=${1%/}
id=$(basename "$d")
[ -f "$d/patch.diff" ] || exit 0
props=$(python3 -c "import json;m=json.load(open('$d/meta.json'));print(' '.join([m['breaks_property']]+m.get('also_checked_by',[])))")
wt=/tmp/senspar-wt-$id
n=0
until git -C /repo worktree add --detach "$wt" HEAD -q 2>/dev/null; do
  n=$((n+1)); [ $n -ge 8 ] && { echo "| $id | ? | worktree could not be created | - | - |" >> "$SENS_TMP/$id.row"; exit 0; }
  sleep 2
done
if git -C "$wt" apply "/verif/$d/patch.diff" 2>/dev/null; then
  for p in $props; do
    VERIF_REPO="$wt" bin/vcheck -p "$p" -tier quick > "$SENS_TMP/$id.$p.out" 2>&1
    rc=$?
    det=$(grep -m1 "^  detail" "$SENS_TMP/$id.$p.out" | cut -c11-230 | tr '|' '/')
    echo "| $id | $p | yes | $rc | $det |" >> "$SENS_TMP/$id.row"
  done
else
  echo "| $id | $(echo "$props" | cut -d' ' -f1) | NO (library moved on) | - | - |" >> "$SENS_TMP/$id.row"
fi
git -C /repo worktree remove --force "$wt" >/dev/null 2>&1
exit 0
