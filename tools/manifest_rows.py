# rows for checks built after the first six; NOT_APPLICABLE maps id -> reason for properties deliberately not claimed
ROWS = {}
NOT_APPLICABLE = {}
