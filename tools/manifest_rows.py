# rows for checks built after the first six; NOT_APPLICABLE maps id -> reason for properties deliberately not claimed
ROWS = {
 "C17": ("exploration",
  "exhaustive enumeration of every enum domain + property-based testing (rapid) against documented-name tables and a pinned snapshot",
  "Every value of every exported enum/identifier stringer is enumerated over its whole (8/16-bit, signed from minimum) domain, tag.ID x IfdType through TagName (directory type in the outer loop, and again with the id in the outer loop and the types ascending / descending), CameraModel over the make ranges; oracles: returns without panic, documented value => documented name (tables written in the check), whole relation equals a pinned snapshot with the documented fallback for non-members, parse round trips for image types and XMP namespaces. The enumerated part is exhaustive for the domains listed in the evidence.",
  "Trusted: the documented-name tables in props/c17/tables.go (transcribed from doc comments / ExifTool / TIFF / Exif) and testdata/golden.json (regression snapshot). Unexported stringers are out of scope here."),

 "C12": ("exploration",
  "exhaustive enumeration over the signature alphabet + property-based testing (rapid) against a naive reference scan",
  "Every prefix over {I,M,*,0x00,x} up to length 7 (quick) / 10 (thorough) in front of four header variants is enumerated; random long prefixes around the 32/64/4096/8192-byte buffer boundaries, sprinkled partial signatures, signature-free streams and signatures near the end of the stream through eight reader kinds; oracle: first index found by a naive scan, byte order and first-IFD offset read there, caller's bufio.Reader left at the header, ErrNoExif without a signature; a one-entry block behind up to 3 MiB of filler must also be found by exif2.Parse, DecodeTiff and DecodeHeif.",
  "Trusted: the 20-line reference scan. Streams whose only signature has fewer than 28 following bytes are outside the precondition and not asserted."),

 "C16": ("exploration",
  "exhaustive enumeration of 8/16-bit value types + property-based testing (rapid) of round trips and decoder totality + native fuzzing (thorough)",
  "All values of the 8/16-bit types (incl. all 2^16 ExposureBias encodings) go through MessagePack Marshal/Unmarshal and Encode/Decode (identity, no leftover, Msgsize bound) and text/JSON where offered (exact for documented members, Marshal∘Unmarshal∘Marshal idempotent for every value, receivers pre-set to another value); floats, Dimensions, hashes, FocusDistance and UUIDs (all text forms x case) are generated; every stream decoder is also fed one byte per Read through an 18-byte reader buffer; every decoder with an error result is run on arbitrary, near-valid and integer-width-boundary (65536, 2^32, 2^64 ...) input under recover.",
  "Trusted: github.com/tinylib/msgp reader/writer, encoding/json. Members are the documented ones listed in the evidence assumptions. One recorded finding (ExposureMode text of undocumented values)."),

 "C18": ("exploration",
  "exhaustive unit impulses + property-based testing (rapid): differential asm vs portable kernels, reference float64 DCT-II by definition, guard words",
  "All unit impulses (both signs, every slice offset 0..7) of the 64/256-point kernels and of the 64x64 2-D kernel are enumerated; rapid draws vectors over 12 decades, mixed scales, sparse, pixel-range, extreme, denormal and structured inputs; oracles: assembly and portable results bit-identical, NaN-payload guard words around the argument intact, |kernel - DCT-II| <= 1e-5 ||x||_1 against a direct O(N^2) float64 evaluation (float64 kernels 1e-12), hashes identical under portable and platform kernel selection.",
  "Trusted: math.Cos and float64 summation in the reference; hooks in imagehash/transforms32 (build tag verif) that expose the unexported kernels. Three recorded findings (256-point accuracy on sparse inputs; sign of zero in the two 1-D assembly kernels). Needs an AVX2 CPU for the assembly halves (evidence says whether it had one)."),

 "C19": ("exploration",
  "property-based testing (rapid) against a reference model: float64 DCT-II by definition of an independently computed luminance, threshold / upper-set oracle with a stated margin",
  "Generated images of the exact size (four pixel formats, seven content classes, origin and sub-image forms with hostile surroundings) are hashed by the primary and alternative implementations; the bits are checked against reference coefficients: above the upper median + tau set, below the median - tau clear, one threshold separates, repeated calls agree, primary vs alternative and sub-image vs origin form differ only within 2 tau of the median; wrong sizes (incl. the shapes the old guard formula let through) and nil must give an error and a zero hash with poisoned pools; distance laws on random triples and on complement pairs (distance 253..256).",
  "Trusted: internal/imgen (image construction and reference luminance), the margin constants tau = 4e-5 / 2e-4 x ||lum||_1 (fixed, from C18's measured kernel error). Opaque RGBA/NRGBA only; YCbCr 4:4:4 only (other ratios: C20)."),

 "C20": ("exploration",
  "property-based testing (rapid): reference formula per pixel, guard words, metamorphic read-containment, differential hash vs packed 4:4:4 form; crash attribution",
  "Generated YCbCr images of the accepted sizes over all six subsampling ratios, origins, parent margins (stride > width) and destination alignments go through every conversion entry (platform-selected, assembly wrapper, portable, ImageToGray, float64); oracles: every pixel within 2.0 of the portable formula evaluated at the pixel's plane offsets, guard words around the destination intact, destination bit-identical when everything outside the visible pixels changes, hashes equal to the packed 4:4:4 origin form up to threshold bits; a fatal fault is attributed to the case in flight and reported as a violation.",
  "Trusted: image.YCbCr.YOffset/COffset of the standard library, internal/imgen reference luminance, hooks in imagehash/transforms32. Subsampled images at negative coordinates are excluded (not representable by image.YCbCr itself). Read containment is observed only through its effect on the result or a fault."),

 "C08": ("exploration",
  "property-based testing (rapid): differential in-memory reader vs generated chunk schedules behind an instrumented io.ReadSeeker",
  "Samples and encoder output in every container (as is, truncated, hostile edits) are decoded through every entry point once from memory and once through a reader that delivers generated chunk sizes (one byte, 1..7, 1..4096, buffer-boundary sizes, data together with EOF); digest and error text must be equal; every sample x entry is also run deterministically under the extreme schedules, and one generated record in each container under every uniform chunk size 1..1100 (thorough 4200).",
  "Trusted: the instrumented reader in internal/worker (legal per io.Reader). Inputs <= 256 KiB."),

 "C15": ("exploration",
  "property-based testing (rapid): differential over log levels in an isolated worker process with fd 1/2 captured",
  "Each generated input (samples, encoder output, truncations, hostile edits, CR3 trees with CTBO counts/indices beyond the logged arrays, metadata boxes wrapped in a box that lies about its size, CR3 files with an honest preview; in-memory readers and readers that fail with a non-EOF error at a drawn offset) is decoded under the default configuration and under SetLogger(in-memory writer, L) for eight levels; digest and error must be equal, no level may panic or kill the process, and the bytes that reached the worker's fd 1 / fd 2 during the default-configuration call must be 0.",
  "Trusted: the worker protocol (fd 3/4) and file-size measurement of fd 1/2; the worker is a bare main that prints nothing itself."),

 "C10": ("exploration",
  "property-based testing (rapid) against the byte-offset model computed by a JPEG marker-stream writer",
  "Generated marker streams (up to 12 segments of all kinds before the DQT, up to two Exif and two XMP segments, payloads with 0xFF bytes and nested SOI/EOI, optional fill bytes) are scanned with generated callback behaviours (Exif: declared length in pieces / the library's reader / nil; XMP: nothing / prefix / all / all in odd pieces / nil); callback count and order, header fields incl. absolute TIFF offset, bytes readable inside each callback, nil error and the caller's reader position after the DQT are compared with the writer's model; a fixed stream is also swept byte by byte (COM pad) across one to three 4 KiB buffers under four callback behaviours.",
  "Trusted: the marker-stream writer in internal/gen and its offset model. Precondition as in the property: the Exif callback consumes its declared length; >= 64 bytes follow the DQT."),

 "C11": ("exploration",
  "property-based testing (rapid) against the byte-offset model computed by an ISOBMFF box-tree writer (position-coded payloads)",
  "Generated box trees (CR3 and HEIF style, depth up to 5, 32/64-bit sizes, full boxes, tiny last children, HEIF item trees whose iloc points at an Exif item 0..9040 bytes into the mdat payload, files ending in 8..15-byte boxes) are read step by step through a caller-supplied bufio.Reader with recording callbacks; position after every top-level box, callback count/order, the exact file byte range each callback's reader yields, header fields and PreviewCR3 are compared with the writer's model; in the malformed variant one inner box declares a wrong size and whatever a callback reads must stay inside every enclosing box.",
  "Trusted: the tree writer and its offset model in props/c11. For the HEIF item callback only confinement to the item is checked (the property names the CR3 callbacks). Reads past a parent are observable through callbacks and the final position only (the bufio.Reader reads ahead by design)."),

 "C14": ("exploration",
  "property-based testing (rapid) with structure-addressed size-field edits; runtime.MemStats.TotalAlloc measured in an isolated, address-space-limited worker",
  "Samples and encoder output in every container get 1-3 count/size/length fields overwritten with 2^24..2^32-1 or len+-1 (either byte order), plus CR3 files whose PRVW box states an arbitrary preview size, files made of 2..20000 copies of one tiny box, and Exif blocks inside chains of boxes that all overstate their size with huge unit counts; each call runs in a worker process (GOMAXPROCS=1, ulimit -v 8 GiB, one warming call before) and the TotalAlloc delta must stay <= 4 MiB + 16 x len(b); OOM death and makeslice panics are violations.",
  "Trusted: runtime.MemStats.TotalAlloc as the allocation measure; the worker protocol. Inputs <= 256 KiB."),

 "C13": ("exploration",
  "property-based testing (rapid): round trip through an independent XMP serialiser with typed text-to-value rules; metamorphic attribute form vs element form",
  "A logical record (1-14 of 38 supported simple properties with typed values whose lengths land on the reader's look-ahead steps, plus five dc arrays and ISOSpeedRatings) is serialised with generated layout choices (form per property, quotes, order, 1-3 Description blocks, white space incl. TAB/CR/long runs, unknown properties, junk, xpacket wrapper, entities) and parsed: the result must equal the record field by field, the all-attribute and all-element forms must parse identically, and a token longer than the 1538-byte window must give an error; fixed-seed records are also parsed behind 0..1600 (thorough 3300) bytes so that every token meets every phase of the 1538-byte window.",
  "Trusted: the serialiser in internal/xmpgen and the text-to-value rules in props/c13 (DESIGN Appendix B). Value alphabet excludes raw markup characters; GPS DMS text, dates without seconds and rdf:parseType structures are not generated."),

 "C04": ("exploration",
  "stateful property-based testing (rapid): generated call histories with pool poisoning through verification hooks; pristine-state differential and retention invariant",
  "Histories of 4-30 steps (decodes over every entry point and a pool of well-formed / truncated / hostile / mis-sized / zone-respelled inputs, perceptual, average and blur hashes of right- and wrong-size images, poisoning of the Exif buffer pool and pixel pools with hostile contents, GCs) run in one process; every call must give the digest it gives on pristine state, and every returned value is re-digested after each later step and must not change.",
  "Trusted: hooks exif2.VerifResetPools/VerifPoisonPool/VerifNewBuffers and imagehash.VerifResetPixelPools/VerifPoisonPixelPools (build tag verif); internal/digest. bufio reader pools (imagemeta, jpeg, isobmff) are exercised through ordinary history only."),

 "C05": ("exploration",
  "property-based testing (rapid) of generated concurrent plans under the Go race detector; sequential-run differential; deadlock watchdog",
  "Generated plans (2-64 goroutines x 5-30 mixed calls - decoders, sniffing, perceptual / average / blur hashes - over samples, encoder output with many zone offsets, XMP packets and images; GOMAXPROCS 1-32; cold caches and pools before the concurrent phase; no harness synchronisation between the start barrier and the end of a plan; a cold-start plan first in every process and a quarter of the plans with the reference pass afterwards, so that first-use initialisation happens under overlap; zone-stress plans of 3200 decodes of files differing in their zone strings, hash-stress plans, a third of the plans with the portable kernels selected) run in a -race binary: a reported data race is a violation (the driver attaches the plan in flight and the report), every call's digest must equal its digest when run alone, and the plan must finish.",
  "Trusted: the Go race detector and scheduler. The harness does not own the interleaving: data races are detected independently of the schedule, atomicity violations without a data race only if the scheduler produces them (stated limit of the technique, DESIGN section 4 C05)."),
}
NOT_APPLICABLE = {}
