# rows for checks built after the first six; NOT_APPLICABLE maps id -> reason for properties deliberately not claimed
ROWS = {
 "C17": ("exploration",
  "exhaustive enumeration of every enum domain + property-based testing (rapid) against documented-name tables and a pinned snapshot",
  "Every value of every exported enum/identifier stringer is enumerated over its whole (8/16-bit, signed from minimum) domain, tag.ID x IfdType through TagName, CameraModel over the make ranges; oracles: returns without panic, documented value => documented name (tables written in the check), whole relation equals a pinned snapshot with the documented fallback for non-members, parse round trips for image types and XMP namespaces. The enumerated part is exhaustive for the domains listed in the evidence.",
  "Trusted: the documented-name tables in props/c17/tables.go (transcribed from doc comments / ExifTool / TIFF / Exif) and testdata/golden.json (regression snapshot). Unexported stringers are out of scope here."),
}
NOT_APPLICABLE = {}
