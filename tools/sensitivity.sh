#!/bin/sh
# usage: tools/sensitivity.sh [tier] — runs every seeded change under /verif/seeded against the quick check of the property it breaks
# (in a throw-away worktree, never in /repo) and writes seeded/RESULTS.md. A change that no longer applies to HEAD is reported as such.
export GOFLAGS=-mod=mod GOPROXY=off GOSUMDB=off GOTOOLCHAIN=local
cd /verif
tier=${1:-quick}
out=seeded/RESULTS.md
echo "# Seeded changes vs checks ($(date -u +%Y-%m-%dT%H:%MZ), library HEAD $(git -C /repo rev-parse --short HEAD), tier $tier)" > $out
echo "" >> $out
echo "| seeded change | property | applies | check exit | first detail |" >> $out
echo "|---|---|---|---|---|" >> $out
for d in seeded/*/; do
  id=$(basename $d); [ -f $d/patch.diff ] || continue
  prop=$(python3 -c "import json;print(json.load(open('$d/meta.json'))['breaks_property'])")
  props="$prop $(python3 -c "import json;print(' '.join(json.load(open('$d/meta.json')).get('also_checked_by',[])))")"
  wt=/tmp/sens-$$-$id
  git -C /repo worktree add --detach "$wt" HEAD -q || continue
  if git -C "$wt" apply "/verif/$d/patch.diff" 2>/dev/null; then
    for p in $props; do
      VERIF_REPO="$wt" bin/vcheck -p $p -tier $tier > /tmp/sens-$$.out 2>&1; rc=$?
      det=$(grep -m1 "^  detail" /tmp/sens-$$.out | cut -c11-230 | tr '|' '/' )
      echo "| $id | $p | yes | $rc | $det |" >> $out
    done
  else
    echo "| $id | $prop | NO (library moved on) | - | - |" >> $out
  fi
  git -C /repo worktree remove --force "$wt" >/dev/null 2>&1
done
rm -f /tmp/sens-$$.out replay/*.json replay/*.txt
echo "done: $out"
