#!/bin/sh
# usage: tools/rekeep.sh <seeded-id> <worktree-with-rebased-change> — re-files a seeded change whose patch no longer applied:
# takes `git diff` of the worktree as the new patch.diff, removes the worktree, and re-confirms everything with keep_mutant.sh
# (package dir, test name, needs text and also_checked_by are kept from the existing meta.json)
set -u
id=$1; wt=$2
cd /verif || exit 3
src=/tmp/rekeep-$id
rm -rf "$src"; mkdir -p "$src"
cp seeded/$id/* "$src"/
git -C "$wt" diff > "$src/patch.diff"
git -C /repo worktree remove --force "$wt"
eval "$(python3 - "$id" <<'PY'
import json,sys,shlex,re
m=json.load(open(f"/verif/seeded/{sys.argv[1]}/meta.json"))
pkg=m["demo"]["place_at"].rsplit("/zz_demo_test.go",1)[0]
if pkg.startswith("./"): pkg=pkg[2:] or "."
t=re.search(r"\^(Test\w+)\$",m["demo"]["run"]).group(1)
print("prop=%s pkg=%s tn=%s needs=%s demo=%s also=%s"%(m["breaks_property"],shlex.quote(pkg),t,shlex.quote(m["needs_to_manifest"]),shlex.quote(m["demo"]["file"]),shlex.quote(json.dumps(m.get("also_checked_by",[])))))
PY
)"
tools/keep_mutant.sh "$src" "$id" "$prop" "$pkg" "$tn" "$needs" "$demo"; rc=$?
python3 - "$id" "$also" <<'PY'
import json,sys
p=f"/verif/seeded/{sys.argv[1]}/meta.json"; m=json.load(open(p)); a=json.loads(sys.argv[2])
if a: m["also_checked_by"]=a; json.dump(m,open(p,"w"),indent=1)
PY
rm -rf "$src"
exit $rc
