#!/bin/sh
# usage: tools/try_mutant.sh <mutant dir containing patch.diff> <PROP> [tier]
# Applies the patch to a throw-away worktree of /repo (never to /repo itself), runs the library's own
# suite there (must pass), then runs the property's check against that worktree (VERIF_REPO override).
# exit code of the check is printed; the worktree is removed afterwards.
set -u
export GOFLAGS=-mod=mod GOPROXY=off GOSUMDB=off GOTOOLCHAIN=local
d=$(cd "$1" && pwd); prop=$2; tier=${3:-quick}
wt=/tmp/trymut-$$-$(basename "$d")
git -C /repo worktree add --detach "$wt" HEAD -q || exit 3
trap 'git -C /repo worktree remove --force "$wt" >/dev/null 2>&1; rm -f /verif/.build/*-$(printf %s "$wt" | cksum | cut -d" " -f1)* 2>/dev/null' EXIT
if ! git -C "$wt" apply "$d/patch.diff"; then echo "PATCH-DOES-NOT-APPLY"; exit 3; fi
if (cd "$wt" && go build ./... && go test -vet=off -count=1 ./... >/tmp/trymut-$$.log 2>&1); then echo "suite: passes with patch"; else echo "suite: FAILS with patch"; grep -v "^ok\|no test files" /tmp/trymut-$$.log | head; fi
rm -f /tmp/trymut-$$.log
cd /verif && VERIF_REPO="$wt" bin/vcheck -p "$prop" -tier "$tier" ${VCHECK_ARGS:-} 2>&1 | grep -v "^NOTE building" | head -${LINES_MAX:-12}
echo "check exit: $?"
rm -f /verif/.build/*-$(printf '%x' 0)*.test 2>/dev/null
