#!/bin/sh
# usage: tools/seeds.sh "<props>" "<seeds>" [tier] — runs the registered command of every listed property at every seed; prints only non-OK outcomes
export GOFLAGS=-mod=mod GOPROXY=off GOSUMDB=off GOTOOLCHAIN=local
cd /verif
tier=${3:-quick}
for s in $2; do for p in $1; do
  out=$(VERIF_SEED=$s bin/vcheck -p $p -tier $tier 2>&1); rc=$?
  if [ $rc -ne 0 ] || echo "$out" | grep -q "^VIOLATION"; then echo "== $p seed=$s exit=$rc"; echo "$out" | grep -v "^KNOWN-FINDING" | cut -c1-400 | head -8; fi
done; done; echo "seeds.sh done: props=[$1] seeds=[$2] tier=$tier"
