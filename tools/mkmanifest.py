#!/usr/bin/env python3
"""Regenerates /verif/MANIFEST.json from the table below (one row per property).
A property is claimed iff props/<id>/ exists AND it has a row in CLAIMED with built=True."""
import json, os, subprocess, sys

ROOT = os.path.dirname(os.path.dirname(os.path.abspath(__file__)))

# id -> (level category, technique, level text, level note)
CLAIMED = {
 "C01": ("fault_enumeration",
  "property-based testing (rapid) + enumeration of truncation/fault points + native coverage-guided fuzzing, in an isolated worker process",
  "Generated-input search: every truncation and every third reader-fault point of small well-formed files of each container is enumerated, as is a HEIF Exif item swept byte by byte across two 4 KiB reader-buffer boundaries; rapid draws structure-addressed malformations, byte mutations, magic+random bodies and reader fault specs over samples and encoder output; thorough adds a native fuzz campaign. Oracle: the call returns in an isolated process (recovered panic or process death = violation). Bounded search: shows absence only on what was explored.",
  "Trusted: the worker protocol and Go's recover/exit-status reporting. Inputs <= 256 KiB. ScanJPEG/ParseXmp recover internally by contract."),
 "C02": ("exploration",
  "property-based testing (rapid) with an instrumented reader (bytes requested, read calls), a processor-time bound measured in an isolated worker, and a watchdog + native fuzzing",
  "Generated hostile inputs incl. loop-targeting classes and readers that fail for good; oracle: bytes requested <= 4*len+64KiB, Read calls <= len+1024, processor time of the worker <= 0.3 s + 2 us/byte (smallest of three measurements), returns within 10s+50us/byte (confirmed by a solo re-run). Bounded search.",
  "Trusted: the instrumented ReadSeeker counts; wall clock only for confirmed non-termination. Loop classes now include PNG chunk lengths that are negative as int32, XMP tokens of up to 1 MB and SubIFDs arrays of up to 128 pointers."),
 "C03": ("exploration",
  "property-based testing (rapid): round trip through an independent TIFF/Exif encoder, record as oracle",
  "decode(encode(record, layout)) is compared field by field with the record through a spec-written interpretation; layouts cover block order, padding, foreign tags, embedded vs out-of-line, the 84-pending-tag and 128-entry limits, both byte orders, buffered and unbuffered entry points; fixed-seed records are re-encoded with IFD0 at every offset 8..4500 (thorough 12700) so that every structure crosses every 1 KiB / 4 KiB reader-window boundary; further checks cover directories at the 85 / 128 entry limits, SHORT/LONG arrays stored out of line (ISO, strips) and text values around and beyond the reader windows.",
  "Trusted: the check's own TIFF/Exif encoder (written from TIFF 6.0/Exif 2.32, with an independent re-parse self-test) and field model (DESIGN Appendix A). Four recorded findings (text values longer than the reader window reported as absent; exposure compensation whose reduced fraction needs more than 8+8 bits; dimensions above 65535)."),
 "C06": ("exploration",
  "property-based testing (rapid): differential across containers + record oracle",
  "The same generated payload in TIFF/JPEG/PNG/CR3(CMT1 and split)/HEIF with random surroundings must give identical masked digests through every corresponding entry point and equal the record; a second check (filler independence) puts format-valid filler of every length up to one (thorough: three) 4 KiB buffers in front of the block in JPEG/PNG/CR3/HEIF and requires the result of the same file without filler.",
  "Trusted: container writers in internal/gen; signature-free surroundings before HEIF payloads (soundness precondition of the format's own scan)."),
 "C07": ("exploration",
  "property-based testing (rapid): metamorphic II vs MM + record oracle",
  "The same (record, layout) encoded in both byte orders in every container decodes to identical digests that equal the record; covers every type that fits the 4-byte slot.",
  "Trusted: the encoder's byte-order handling (self-tested by an independent re-parser)."),
 "C09": ("exploration",
  "property-based testing (rapid) + exhaustive enumeration against an independent signature table",
  "All single-byte perturbations (24x256) of every canonical header enumerated exhaustively; random fragment-assembled prefixes and short strings; oracle: agreement of the five sniffing entry points, suffix independence, non-consumption, length/error rules, and an independently written signature table as necessary condition.",
  "Trusted: the signature table transcribed from format specifications (JP2 -> image/jpeg as pinned by the suite)."),
}

# filled in as the checks are built
EXTRA = {}
try:
    sys.path.insert(0, os.path.join(ROOT, "tools"))
    from manifest_rows import ROWS  # type: ignore
    EXTRA = ROWS
except Exception:
    pass
CLAIMED.update(EXTRA)

# coverage added in round 5 (appended to the level note of the row)
ROUND5 = {
 "C01": " Also: box headers with 64-bit sizes across the end of the reader's buffer (inside meta / moov / the Canon box and at top level), the exported signature helpers on every prefix of the TIFF signatures.",
 "C02": " Also: processor time of the isolated worker (getrusage) <= 0.3 s + 2 us/byte, smallest of three measurements (work that asks nothing of the reader); iloc boxes declaring 65535 extents; '&' runs through caller buffers up to 256 KiB; one case in five through a reader that fails for good with a non-EOF error.",
 "C03": " Exposure bias over the whole 8+8-bit range; CameraModel asserted for either order of the Make / Model values; date tags spelled \"unknown\".",
 "C07": " Also text tags and LensSpecification written with a numeric type (not text / not rationals: the field stays empty in both byte orders).",
 "C09": " The must-match rows for mif1+avif / msf1+hevc accept the brand in either compatible slot (they had copied the library's slot).",
 "C10": " Also APP1 segments with the Exif identifier and 0..7 bytes behind it (no Exif block: no callback, the next segment untouched).",
 "C11": " Also callbacks that ask for a negative skip; after an error return the reader must stand at the next top-level box; uuid boxes shorter than their identifier, the Canon box at top level, preview boxes with a foreign first child.",
 "C12": " Caller bufio.Readers of 16 and 24 bytes; exif2.Parse on an io.ReadSeeker that stands behind another TIFF block.",
 "C13": " Extended switch more-forms: literal '>' in values (also leading), identifiers with several ':', bias in tenths / hundredths (compared as fractions in lowest terms), white space after the digits of numeric element values.",
 "C14": " Also lists of 300,000 items of 4..17 bytes, values made of separator characters, containers left with 8..19 bytes, uuid boxes that carry a known identifier and nothing else; the result digest is computed outside the measured region.",
 "C15": " gen.WrapLying also produces lying iref boxes, a lying first child inside the wrapper and wrappers that hold none of the parent's children.",
 "C16": " Every decoder must read what its encoder writes for every value (errors had been tolerated for undocumented enum values).",
 "C20": " The average hash of every generated image equals that of the same pixels packed at the origin.",
}
for _p, _t in ROUND5.items():
    if _p in CLAIMED:
        c = CLAIMED[_p]
        CLAIMED[_p] = (c[0], c[1], c[2], c[3] + _t)

ALL = ["C%02d" % i for i in range(1, 21)]
NA_REASON = {}
try:
    from manifest_rows import NOT_APPLICABLE  # type: ignore
    NA_REASON = NOT_APPLICABLE
except Exception:
    pass

DESIGN_REF = {p: "DESIGN.md section 4 " + p for p in ALL}

def hook_commits():
    try:
        out = subprocess.run(["git", "-C", "/repo", "log", "--format=%H %s"], capture_output=True, text=True).stdout
        return [l.split()[0] for l in out.splitlines() if " verif-hook:" in l or " hook:" in l]
    except Exception:
        return []

def main():
    checks, na, served = [], [], []
    for p in ALL:
        built = os.path.isdir(os.path.join(ROOT, "props", p.lower()))
        if p in CLAIMED and built and p not in NA_REASON:
            cat, tech, text, note = CLAIMED[p]
            served.append(p)
            checks.append({
                "property_id": p,
                "quick_cmd": f"bin/vcheck -p {p} -tier quick",
                "thorough_cmd": f"bin/vcheck -p {p} -tier thorough",
                "evidence_file": f"/verif/evidence/{p}.json",
                "replay_cmd_template": f"bin/vcheck -p {p} -replay {{path}}",
                "engine": "vcheck",
                "level_claimed": {"category": cat, "text": text, "design_ref": DESIGN_REF[p]},
                "level_note": note,
                "technique": tech,
            })
        else:
            na.append({"property_id": p, "reason": NA_REASON.get(p, "check not built yet in this tree (planned in DESIGN.md section 4); nothing is claimed for it")})
    m = {
        "version": 1,
        "setup_cmd": "cd /verif && GOFLAGS=-mod=mod GOPROXY=off GOSUMDB=off GOTOOLCHAIN=local go build -o bin/vcheck ./cmd/vcheck",
        "hooks": {
            "guard": "verif",
            "enable": "go test -tags verif (done by bin/vcheck for every check)",
            "baseline_off_cmd": "cd /repo && go test -vet=off -count=1 ./...",
            "source_commits": hook_commits(),
            "add_only": True,
        },
        "engines": [{
            "name": "vcheck", "path": "/verif/cmd/vcheck", "serves_properties": served,
            "kind_free_text": "driver: rebuilds props/<id> test binary from /repo working tree with -tags verif, runs rapid properties / exhaustive loops / native fuzz (thorough), merges shard coverage into evidence; exit 0 held, 1 VIOLATION, 2 cannot decide",
        }],
        "checks": checks,
        "not_applicable": na,
        "notes": "All checks are property-based testing / fuzzing (pgregory.net/rapid v1.3.0, exhaustive enumeration of small finite domains, native go fuzzing in the thorough tier). known_findings.txt lists recorded findings and fixed defects. See DESIGN.md.",
    }
    with open(os.path.join(ROOT, "MANIFEST.json"), "w") as f:
        json.dump(m, f, indent=1)
        f.write("\n")
    print("claimed:", " ".join(served)); print("not claimed:", " ".join(x["property_id"] for x in na))

main()
