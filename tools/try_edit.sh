#!/bin/sh
# usage: tools/try_edit.sh <PROP> <python-snippet-file> — sensitivity: applies an ad-hoc source edit (python script run with cwd = scratch worktree) and runs the check
set -u
export GOFLAGS=-mod=mod GOPROXY=off GOSUMDB=off GOTOOLCHAIN=local
prop=$1; script=$2
wt=/tmp/tryedit-$$
git -C /repo worktree add --detach "$wt" HEAD -q || exit 3
trap 'git -C /repo worktree remove --force "$wt" >/dev/null 2>&1' EXIT
(cd "$wt" && python3 "$script") || { echo "EDIT-FAILED"; exit 3; }
git -C "$wt" diff --stat | tail -1
if (cd "$wt" && go build ./... && go test -vet=off -count=1 ./... >/dev/null 2>&1); then echo "suite: passes with edit"; else echo "suite: FAILS with edit (not a valid mutant)"; fi
cd /verif && VERIF_REPO="$wt" bin/vcheck -p "$prop" -tier quick > /tmp/tryedit-$$.out 2>&1; rc=$?
grep -m2 "^VIOLATION\|^  detail" /tmp/tryedit-$$.out | cut -c1-300
echo "edit $(basename $script) vs $prop: check exit $rc"; rm -f /tmp/tryedit-$$.out
