#!/bin/sh
# usage: tools/keep_mutant.sh <srcdir> <seeded-id> <PROP> <pkgdir-rel> <TestName> "<needs>" [demo-file]
# Confirms in a throw-away worktree: patch applies; library suite passes with it; demo fails with it and
# passes without it. Then runs the property's quick check against the patched worktree and files
# everything under /verif/seeded/<seeded-id>/ (patch.diff, demo, README.md, meta.json).
set -u
export GOFLAGS=-mod=mod GOPROXY=off GOSUMDB=off GOTOOLCHAIN=local
src=$(cd "$1" && pwd); sid=$2; prop=$3; pkg=$4; tname=$5; needs=$6; demo=${7:-demo_test.go}
wt=/tmp/keepmut-$$
git -C /repo worktree add --detach "$wt" HEAD -q || exit 3
trap 'git -C /repo worktree remove --force "$wt" >/dev/null 2>&1' EXIT
mkdir -p "$wt/$pkg"; cp "$src/$demo" "$wt/$pkg/zz_demo_test.go"
( cd "$wt" && go test -vet=off -count=1 -run "^$tname\$" "./$pkg" >/tmp/keep-$$.clean 2>&1 ); clean=$?
rm "$wt/$pkg/zz_demo_test.go"
git -C "$wt" apply "$src/patch.diff" || { echo "patch does not apply"; exit 3; }
( cd "$wt" && go build ./... && go test -vet=off -count=1 ./... >/tmp/keep-$$.suite 2>&1 ); suite=$?
mkdir -p "$wt/$pkg"; cp "$src/$demo" "$wt/$pkg/zz_demo_test.go"
( cd "$wt" && go test -vet=off -count=1 -run "^$tname\$" "./$pkg" >/tmp/keep-$$.mut 2>&1 ); mut=$?
rm "$wt/$pkg/zz_demo_test.go"
echo "demo on clean tree: exit $clean; suite with patch: exit $suite; demo with patch: exit $mut"
if [ $clean -ne 0 ] || [ $suite -ne 0 ] || [ $mut -eq 0 ]; then echo "NOT KEPT"; tail -5 /tmp/keep-$$.clean /tmp/keep-$$.suite /tmp/keep-$$.mut; rm -f /tmp/keep-$$.*; exit 1; fi
cd /verif
VERIF_REPO="$wt" bin/vcheck -p "$prop" -tier quick >/tmp/keep-$$.chk 2>&1; chk=$?
grep -m3 "^VIOLATION\|^  detail" /tmp/keep-$$.chk
echo "quick check of $prop against the patched tree: exit $chk"
mkdir -p seeded/$sid
cp "$src/patch.diff" seeded/$sid/patch.diff
cp "$src/$demo" seeded/$sid/$demo
[ -f "$src/README.md" ] && cp "$src/README.md" seeded/$sid/README.md
det=$(grep -m1 "^  detail" /tmp/keep-$$.chk | cut -c1-400 | python3 -c 'import json,sys; print(json.dumps(sys.stdin.read().strip()))')
python3 - "$sid" "$prop" "$pkg" "$tname" "$needs" "$chk" "$det" "$demo" <<'PY'
import json,sys
sid,prop,pkg,tname,needs,chk,det,demo=sys.argv[1:9]
m={"id":sid,"breaks_property":prop,"needs_to_manifest":needs,
 "demo":{"file":demo,"place_at":pkg+"/zz_demo_test.go","run":f"go test -vet=off -count=1 -run '^{tname}$' ./{pkg}"},
 "confirmed":{"patch_applies_to_HEAD":True,"library_suite_passes_with_patch":True,"demo_fails_with_patch":True,"demo_passes_without_patch":True,
   "how":"tools/keep_mutant.sh in a throw-away git worktree of /repo (removed afterwards)"},
 "quick_check_exit_against_patched_tree":int(chk),"quick_check_first_detail":json.loads(det) if det else ""}
json.dump(m,open(f"/verif/seeded/{sid}/meta.json","w"),indent=1)
PY
rm -f /tmp/keep-$$.* /verif/.build/*-*.test.tmp 2>/dev/null
