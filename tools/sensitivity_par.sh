#!/bin/sh
# usage: tools/sensitivity_par.sh [jobs] — like sensitivity.sh, but runs <jobs> seeded changes at a time (each against its own
# throw-away worktree of /repo and its own build artefacts) and assembles seeded/RESULTS.md at the end.
export GOFLAGS=-mod=mod GOPROXY=off GOSUMDB=off GOTOOLCHAIN=local
cd /verif || exit 3
jobs=${1:-4}
tmp=/tmp/senspar-$$
mkdir -p "$tmp"
export SENS_TMP="$tmp"
ls -d seeded/*/ | xargs -P "$jobs" -n 1 tools/sensitivity_one.sh
out=seeded/RESULTS.md
{
  echo "# Seeded changes vs checks ($(date -u +%Y-%m-%dT%H:%MZ), library HEAD $(git -C /repo rev-parse --short HEAD), tier quick)"
  echo ""
  echo "| seeded change | property | applies | check exit | first detail |"
  echo "|---|---|---|---|---|"
  cat "$tmp"/*.row | sort
} > $out
rm -rf "$tmp"
rm -f replay/*.json replay/*.txt
echo "done: $out"
