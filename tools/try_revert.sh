#!/bin/sh
# usage: tools/try_revert.sh <repo commit> <PROP> [tier]  — sensitivity: reverts one fix: commit in a throw-away worktree and runs the check against it
set -u
export GOFLAGS=-mod=mod GOPROXY=off GOSUMDB=off GOTOOLCHAIN=local
c=$1; prop=$2; tier=${3:-quick}
wt=/tmp/tryrev-$$
git -C /repo worktree add --detach "$wt" HEAD -q || exit 3
trap 'git -C /repo worktree remove --force "$wt" >/dev/null 2>&1' EXIT
if ! git -C "$wt" -c user.name=x -c user.email=x@x revert --no-edit "$c" >/dev/null 2>&1; then echo "REVERT-CONFLICT $c"; exit 3; fi
cd /verif && VERIF_REPO="$wt" bin/vcheck -p "$prop" -tier "$tier" > /tmp/tryrev-$$.out 2>&1; rc=$?
grep -m2 "^VIOLATION\|^  detail" /tmp/tryrev-$$.out | cut -c1-260
echo "revert of $c vs $prop: check exit $rc"
rm -f /tmp/tryrev-$$.out
