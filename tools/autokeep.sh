#!/bin/sh
# usage: tools/autokeep.sh <srcdir> <seeded-id> <PROP> "<needs>" — derives the demo's package directory and test name, then calls keep_mutant.sh
src=$1; sid=$2; prop=$3; needs=$4
pk=$(grep -m1 "^package " "$src/demo_test.go" | awk '{print $2}' | sed 's/_test$//')
tn=$(grep -m1 "^func Test" "$src/demo_test.go" | sed 's/^func \(Test[A-Za-z0-9_]*\).*/\1/')
case "$pk" in
  imagemeta) dir=. ;;
  transforms32) dir=imagehash/transforms32 ;;
  transforms) dir=imagehash/transforms ;;
  canon) if grep -q "mknote" "$src/patch.diff"; then dir=exif2/ifds/mknote/canon; else dir=meta/canon; fi ;;
  ifds) dir=exif2/ifds ;;
  tag) dir=exif2/tag ;;
  xmpns) dir=xmp/xmpns ;;
  utils) dir=meta/utils ;;
  *) dir=$pk ;;
esac
echo "autokeep: package=$pk dir=$dir test=$tn"
exec /verif/tools/keep_mutant.sh "$src" "$sid" "$prop" "$dir" "$tn" "$needs"
