#!/bin/sh
# usage: tools_fixcommit.sh "<commit message>" [paths...] — runs the unedited baseline suite, then commits the change in /repo
set -e
export GOFLAGS=-mod=mod GOPROXY=off GOSUMDB=off GOTOOLCHAIN=local
cd /repo
msg="$1"; shift
go build ./...
if go test -vet=off -count=1 ./... >/tmp/fixcommit.log 2>&1; then
  if [ $# -gt 0 ]; then git add "$@"; git -c user.name=builder -c user.email=builder@example.com commit -q -m "$msg" -- "$@"; else git -c user.name=builder -c user.email=builder@example.com commit -qam "$msg"; fi
  git log --oneline | head -1
  git status --short | head
else
  grep -v "^ok\|no test files" /tmp/fixcommit.log | head -30
  echo "baseline suite fails; not committed"; exit 1
fi
