#!/bin/sh
# usage: tools_fixcommit.sh "<commit message>"  — runs the unedited baseline suite, then commits the working-tree change in /repo
set -e
export GOFLAGS=-mod=mod GOPROXY=off GOSUMDB=off GOTOOLCHAIN=local
cd /repo
go build ./... 
go test -vet=off -count=1 ./... 2>&1 | grep -v "no test files" | grep -v "^ok" && { echo "TESTS NOT CLEAN"; } || true
if go test -vet=off -count=1 ./... >/dev/null 2>&1; then
  git -c user.name=builder -c user.email=builder@example.com commit -qam "$1"
  git log --oneline | head -1
  git status --short | head
else
  echo "baseline suite fails; not committed"; exit 1
fi
