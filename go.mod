module verif

go 1.23

require (
	github.com/evanoberholster/imagemeta v0.0.0
	github.com/rs/zerolog v1.29.0
	github.com/tinylib/msgp v1.1.8
	pgregory.net/rapid v1.3.0
)

require github.com/philhofer/fwd v1.1.2 // indirect

replace github.com/evanoberholster/imagemeta => /repo
