module verif

go 1.23

require (
	github.com/evanoberholster/imagemeta v0.0.0
	github.com/rs/zerolog v1.29.0
	github.com/tinylib/msgp v1.1.8
	pgregory.net/rapid v1.3.0
)

require (
	github.com/klauspost/cpuid/v2 v2.2.4 // indirect
	github.com/mattn/go-colorable v0.1.13 // indirect
	github.com/mattn/go-isatty v0.0.17 // indirect
	github.com/philhofer/fwd v1.1.2 // indirect
	github.com/pkg/errors v0.9.1 // indirect
	golang.org/x/sys v0.5.0 // indirect
)

replace github.com/evanoberholster/imagemeta => /repo
