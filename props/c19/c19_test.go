// C19 — a perceptual hash is its defined function of the pixels; wrong sizes
// and nil are rejected; distances are Hamming distances.
package c19

import (
	"fmt"
	"image"
	"math"
	"math/bits"
	"sort"
	"testing"

	"pgregory.net/rapid"

	"github.com/evanoberholster/imagemeta/imagehash"

	"verif/internal/ev"
	"verif/internal/imgen"
	"verif/internal/pbt"
)

var rec = ev.New("C19")

// Case: an image (or a wrong-size / nil request), or a triple of hashes.
type Case struct {
	Op     string     `json:"op"` // hash | reject | metric
	N      int        `json:"n"`  // 64 | 256
	Img    imgen.Spec `json:"img"`
	Poison bool       `json:"poison,omitempty"` // pixel pools filled with a previous image's leftovers first
	A      [4]uint64  `json:"a,omitempty"`
	B      [4]uint64  `json:"b,omitempty"`
	C      [4]uint64  `json:"c,omitempty"`
}

var cosCache = map[int][]float64{}

func cosines(n, k int) []float64 {
	key := n*1000 + k
	if t, ok := cosCache[key]; ok {
		return t
	}
	t := make([]float64, k*n)
	for u := 0; u < k; u++ {
		for i := 0; i < n; i++ {
			t[u*n+i] = math.Cos(math.Pi * (float64(i) + 0.5) * float64(u) / float64(n))
		}
	}
	cosCache[key] = t
	return t
}

// lowBlock: k x k low-frequency block of the unscaled 2-D DCT-II, [k*j+i] = (vertical j, horizontal i)
func lowBlock(lum []float64, n, k int) []float64 {
	t := cosines(n, k)
	h := make([]float64, n*k)
	for r := 0; r < n; r++ {
		row := lum[r*n : r*n+n]
		for i := 0; i < k; i++ {
			s := 0.0
			cr := t[i*n : i*n+n]
			for c, v := range row {
				s += v * cr[c]
			}
			h[r*k+i] = s
		}
	}
	out := make([]float64, k*k)
	for j := 0; j < k; j++ {
		cj := t[j*n : j*n+n]
		for i := 0; i < k; i++ {
			s := 0.0
			for r := 0; r < n; r++ {
				s += h[r*k+i] * cj[r]
			}
			out[k*j+i] = s
		}
	}
	return out
}

type hashes struct {
	prim, alt   [4]uint64
	ePrim, eAlt error
	pan         string
}

func compute(n int, img image.Image) (h hashes) {
	defer func() {
		if r := recover(); r != nil {
			h.pan = fmt.Sprint(r)
		}
	}()
	if n == 64 {
		p, e := imagehash.NewPHash64(img)
		h.prim, h.ePrim = [4]uint64{uint64(p)}, e
		a, e2 := imagehash.NewPHash64Alt(img)
		h.alt, h.eAlt = [4]uint64{uint64(a)}, e2
		return
	}
	p, e := imagehash.NewPHash256(img)
	h.prim, h.ePrim = p, e
	a, e2 := imagehash.NewPHash256Alt(img)
	h.alt, h.eAlt = a, e2
	return
}

// bit i (row-major frequency index, most significant first)
func bit(h [4]uint64, n, i int) bool {
	if n == 64 {
		return h[0]>>(63-uint(i))&1 == 1
	}
	return h[i/64]>>(63-uint(i%64))&1 == 1
}

func poison() {
	imagehash.VerifPoisonPixelPools(3,
		func(i int) float64 { return float64((i*7919)%65536) - 30000 },
		func(i int) float32 { return float32((i*104729)%65536) - 30000 })
}

// margins: two passes of the float32 kernels at their worst measured error, doubled (fixed constants, see DESIGN C19)
func tau(n int, l1 float64) float64 {
	if n == 64 {
		return 4e-5 * l1
	}
	return 2e-4 * l1
}

func evalHash(c Case) (*pbt.Fail, int) {
	n := c.N
	k := 8
	if n == 256 {
		k = 16
	}
	img := c.Img.Build()
	if c.Poison {
		poison()
	}
	h := compute(n, img)
	if h.pan != "" {
		return pbt.Failf("panic:hash", "hashing a %dx%d %s image (origin %d,%d, pad %d) panicked: %s", n, n, c.Img.Kind, c.Img.OX, c.Img.OY, c.Img.Pad, h.pan), 0
	}
	if h.ePrim != nil || h.eAlt != nil {
		return pbt.Failf("err:hash", "hashing an image of the required size %dx%d (%s, origin %d,%d) failed: primary %v, alternative %v", n, n, c.Img.Kind, c.Img.OX, c.Img.OY, h.ePrim, h.eAlt), 0
	}
	// repeated calls agree, also when the pools hold leftovers
	poison()
	if h2 := compute(n, img); h2.prim != h.prim || h2.alt != h.alt || h2.pan != "" {
		return pbt.Failf("repeat", "a second call on the same %s image gives %016x/%016x after %016x/%016x (pools refilled with other data in between)", c.Img.Kind, h2.prim, h2.alt, h.prim, h.alt), 0
	}
	lum := imgen.Luma(img)
	l1 := 0.0
	for _, v := range lum {
		l1 += math.Abs(v)
	}
	coef := lowBlock(lum, n, k)
	sorted := append([]float64{}, coef...)
	sort.Float64s(sorted)
	half := k * k / 2
	mLo, mHi := sorted[half-1], sorted[half] // the median lies in [mLo, mHi]; mHi is the upper median
	t := tau(n, l1)
	determined := 0
	for _, v := range coef {
		if v > mHi+t || v < mLo-t {
			determined++
		}
	}
	for name, hv := range map[string][4]uint64{"primary": h.prim, "alternative": h.alt} {
		minSet, maxClear := math.Inf(1), math.Inf(-1)
		iSet, iClear := -1, -1
		for i, v := range coef {
			set := bit(hv, n, i)
			if v > mHi+t && !set {
				return pbt.Failf("threshold:"+name, "%s %d-bit hash of a %s image (%s, origin %d,%d, pad %d): coefficient %d = %.6g lies above the upper median %.6g by more than the margin %.3g but its bit is clear",
					name, k*k, c.Img.Kind, c.Img.Content, c.Img.OX, c.Img.OY, c.Img.Pad, i, v, mHi, t), determined
			}
			if v < mLo-t && set {
				return pbt.Failf("threshold:"+name, "%s %d-bit hash of a %s image (%s, origin %d,%d, pad %d): coefficient %d = %.6g lies below the median %.6g by more than the margin %.3g but its bit is set",
					name, k*k, c.Img.Kind, c.Img.Content, c.Img.OX, c.Img.OY, c.Img.Pad, i, v, mLo, t), determined
			}
			if set && v < minSet {
				minSet, iSet = v, i
			}
			if !set && v > maxClear {
				maxClear, iClear = v, i
			}
		}
		if iSet >= 0 && iClear >= 0 && !(minSet > maxClear-2*t) {
			return pbt.Failf("upper-set:"+name, "%s hash: bit %d is set with coefficient %.6g while bit %d is clear with coefficient %.6g (more than 2 x margin %.3g apart): no single threshold separates set from cleared bits",
				name, iSet, minSet, iClear, maxClear, t), determined
		}
	}
	for i, v := range coef {
		if bit(h.prim, n, i) != bit(h.alt, n, i) && !(v >= mLo-2*t && v <= mHi+2*t) {
			return pbt.Failf("prim-vs-alt", "primary and alternative hashes differ at bit %d whose coefficient %.6g is not within rounding distance (2 x %.3g) of the median interval [%.6g, %.6g]", i, v, t, mLo, mHi), determined
		}
	}
	// the same pixels at the origin, tightly packed, hash identically
	if c.Img.OX != 0 || c.Img.OY != 0 || c.Img.Pad != 0 {
		o := c.Img
		o.OX, o.OY, o.Pad = 0, 0, 0
		ho := compute(n, o.Build())
		if ho.pan != "" || ho.ePrim != nil || ho.eAlt != nil {
			return pbt.Failf("origin-form", "the origin form of the image failed: %s %v %v", ho.pan, ho.ePrim, ho.eAlt), determined
		}
		// identical, except that a bit whose coefficient lies within rounding distance of the threshold may flip:
		// the two layouts can take different (assembly / portable) conversion paths that agree within 2 grey levels
		for name, pair := range map[string][2][4]uint64{"primary": {h.prim, ho.prim}, "alternative": {h.alt, ho.alt}} {
			for i, v := range coef {
				if bit(pair[0], n, i) != bit(pair[1], n, i) && !(v >= mLo-2*t && v <= mHi+2*t) {
					return pbt.Failf("subimage:"+name, "%s hash of a %s sub-image at origin (%d,%d), pad %d is %016x; the same pixels at (0,0) hash to %016x (bit %d differs, its coefficient %.6g is not within 2 x %.3g of the median interval [%.6g, %.6g])",
						name, c.Img.Kind, c.Img.OX, c.Img.OY, c.Img.Pad, pair[0], pair[1], i, v, t, mLo, mHi), determined
				}
			}
			if c.Img.Kind != "ycbcr" && pair[0] != pair[1] {
				return pbt.Failf("subimage:"+name, "%s hash of a %s sub-image at origin (%d,%d), pad %d is %016x; the same pixels at (0,0) hash to %016x", name, c.Img.Kind, c.Img.OX, c.Img.OY, c.Img.Pad, pair[0], pair[1]), determined
			}
		}
	}
	return nil, determined
}

func evalReject(c Case) *pbt.Fail {
	img := c.Img.Build()
	if c.Poison {
		poison()
	}
	h := compute(c.N, img)
	what := fmt.Sprintf("%dx%d %s image", c.Img.W, c.Img.H, c.Img.Kind)
	if c.Img.Nil {
		what = "nil image"
	}
	if h.pan != "" {
		return pbt.Failf("panic:reject", "the %d-point hash functions panicked on a %s: %s", c.N*c.N/64, what, h.pan)
	}
	if h.ePrim == nil || h.eAlt == nil {
		return pbt.Failf("accepted", "a %s was accepted by the %dx%d hash (primary err %v -> %016x, alternative err %v -> %016x); want an error", what, c.N, c.N, h.ePrim, h.prim, h.eAlt, h.alt)
	}
	if h.prim != [4]uint64{} || h.alt != [4]uint64{} {
		return pbt.Failf("nonzero-on-error", "a %s was rejected but a non-zero hash came back: %016x / %016x", what, h.prim, h.alt)
	}
	return nil
}

func evalMetric(c Case) *pbt.Fail {
	pc := func(a, b [4]uint64) int {
		n := 0
		for i := range a {
			n += bits.OnesCount64(a[i] ^ b[i])
		}
		return n
	}
	a, b, d := imagehash.PHash256(c.A), imagehash.PHash256(c.B), imagehash.PHash256(c.C)
	if a.Distance(a) != 0 || int(a.Distance(b)) != pc(c.A, c.B) || a.Distance(b) != b.Distance(a) || a.Distance(d) > a.Distance(b)+b.Distance(d) {
		return pbt.Failf("metric256", "PHash256 distance laws fail on %x %x %x: d(a,a)=%d d(a,b)=%d d(b,a)=%d popcount=%d d(a,c)=%d d(b,c)=%d", c.A, c.B, c.C, a.Distance(a), a.Distance(b), b.Distance(a), pc(c.A, c.B), a.Distance(d), b.Distance(d))
	}
	x, y, z := imagehash.PHash64(c.A[0]), imagehash.PHash64(c.B[0]), imagehash.PHash64(c.C[0])
	if x.Distance(x) != 0 || int(x.Distance(y)) != bits.OnesCount64(c.A[0]^c.B[0]) || x.Distance(y) != y.Distance(x) || int(x.Distance(z)) > int(x.Distance(y))+int(y.Distance(z)) {
		return pbt.Failf("metric64", "PHash64 distance laws fail on %x %x %x: d(a,a)=%d d(a,b)=%d d(b,a)=%d popcount=%d", c.A[0], c.B[0], c.C[0], x.Distance(x), x.Distance(y), y.Distance(x), bits.OnesCount64(c.A[0]^c.B[0]))
	}
	return nil
}

func eval(c Case) *pbt.Fail {
	defer imagehash.VerifResetPixelPools()
	switch c.Op {
	case "reject":
		return evalReject(c)
	case "metric":
		return evalMetric(c)
	default:
		f, _ := evalHash(c)
		return f
	}
}

var kinds = []string{"rgba", "nrgba", "gray", "ycbcr"}
var contents = []string{"smooth", "smooth", "noise", "blocks", "stripes", "checker", "extremes", "constant"}

func genCase(rt *rapid.T) Case {
	switch rapid.IntRange(0, 9).Draw(rt, "op") {
	case 0:
		c := Case{Op: "metric"}
		w := func(l string) [4]uint64 {
			var v [4]uint64
			for i := range v {
				v[i] = rapid.Uint64().Draw(rt, l)
				if rapid.Bool().Draw(rt, l+".edge") {
					v[i] = rapid.SampledFrom([]uint64{0, 1, 1 << 63, math.MaxUint64, 0xaaaaaaaaaaaaaaaa}).Draw(rt, l+".e")
				}
			}
			return v
		}
		c.A, c.B, c.C = w("a"), w("b"), w("c")
		// pairs at and near the largest distance: b = complement of a, possibly with a few bits flipped back
		if rapid.IntRange(0, 3).Draw(rt, "complement") == 0 {
			for i := range c.B {
				c.B[i] = ^c.A[i]
			}
			for i, n := 0, rapid.IntRange(0, 3).Draw(rt, "flipback"); i < n; i++ {
				c.B[rapid.IntRange(0, 3).Draw(rt, "fw")] ^= 1 << uint(rapid.IntRange(0, 63).Draw(rt, "fb"))
			}
		}
		rec.Case(true, ev.HashS("metric", fmt.Sprint(c.A, c.B, c.C)), "op:metric")
		rec.Sample("metric", c)
		return c
	case 1, 2, 3: // wrong sizes and nil
		n := rapid.SampledFrom([]int{64, 64, 256}).Draw(rt, "n")
		c := Case{Op: "reject", N: n, Poison: rapid.Bool().Draw(rt, "poison")}
		c.Img = imgen.Spec{Kind: rapid.SampledFrom(kinds).Draw(rt, "kind"), Content: rapid.SampledFrom(contents).Draw(rt, "content"), Seed: rapid.Uint32().Draw(rt, "seed"), Ratio: "444"}
		class := rapid.SampledFrom([]string{"square", "square", "n-by-other", "other-by-n", "near", "nil", "huge-empty", "zero"}).Draw(rt, "sizeclass")
		switch class {
		case "square":
			c.Img.W = rapid.IntRange(0, 300).Draw(rt, "s")
			if c.Img.W == n {
				c.Img.W++
			}
			c.Img.H = c.Img.W
		case "n-by-other":
			c.Img.W, c.Img.H = n, rapid.IntRange(0, 300).Draw(rt, "h")
			if c.Img.H == n {
				c.Img.H--
			}
		case "other-by-n":
			c.Img.W, c.Img.H = rapid.IntRange(0, 300).Draw(rt, "w"), n
			if c.Img.W == n {
				c.Img.W++
			}
		case "near":
			c.Img.W, c.Img.H = n+rapid.IntRange(-1, 1).Draw(rt, "dw"), n+rapid.IntRange(-1, 1).Draw(rt, "dh")
			if c.Img.W == n && c.Img.H == n {
				c.Img.W++
			}
		case "nil":
			c.Img.Nil = true
			c.Img.TypedNil = rapid.Bool().Draw(rt, "typednil")
		case "huge-empty":
			c.Img.W, c.Img.H, c.Img.Empty = rapid.SampledFrom([]int{1 << 16, 1 << 20, 1 << 30}).Draw(rt, "hw"), rapid.SampledFrom([]int{1 << 16, 1 << 20, 64, 256}).Draw(rt, "hh"), true
		default:
			c.Img.W, c.Img.H = 0, 0
		}
		if !c.Img.Nil && !c.Img.Empty && rapid.Bool().Draw(rt, "sub") {
			c.Img.OX, c.Img.OY, c.Img.Pad = rapid.IntRange(-50, 50).Draw(rt, "ox"), rapid.IntRange(-50, 50).Draw(rt, "oy"), rapid.IntRange(0, 3).Draw(rt, "pad")
		}
		// sizes the original guard formula (a != b && a != n) lets through: squares != n, and n x anything
		slips := !c.Img.Nil && (c.Img.W == c.Img.H || c.Img.W == n)
		rec.Case(slips || c.Img.Nil, ev.HashS("reject", fmt.Sprint(c.N, c.Img, c.Poison)), "op:reject", "size:"+class)
		rec.Sample("reject:"+class, c)
		return c
	default:
		n := rapid.SampledFrom([]int{64, 64, 64, 64, 64, 64, 256}).Draw(rt, "n")
		c := Case{Op: "hash", N: n, Poison: rapid.Bool().Draw(rt, "poison")}
		c.Img = imgen.Spec{Kind: rapid.SampledFrom(kinds).Draw(rt, "kind"), W: n, H: n, Content: rapid.SampledFrom(contents).Draw(rt, "content"), Seed: rapid.Uint32().Draw(rt, "seed"), Ratio: "444"}
		if rapid.Bool().Draw(rt, "sub") {
			c.Img.OX = rapid.SampledFrom([]int{0, 1, -1, 7, -64, 100, 3}).Draw(rt, "ox")
			c.Img.OY = rapid.SampledFrom([]int{0, 1, -1, 5, -64, 33, 2}).Draw(rt, "oy")
			c.Img.Pad = rapid.SampledFrom([]int{0, 0, 1, 3, 8}).Draw(rt, "pad")
		}
		return c
	}
}

var chk = pbt.Check[Case]{Name: "phash", Gen: genCase, Eval: evalCounted}

// evalCounted records the hash cases (their non-triviality is known only after the reference coefficients are computed).
func evalCounted(c Case) *pbt.Fail {
	if c.Op != "hash" && c.Op != "" {
		return eval(c)
	}
	defer imagehash.VerifResetPixelPools()
	f, determined := evalHash(c)
	k2 := 64
	if c.N == 256 {
		k2 = 256
	}
	sub := c.Img.OX != 0 || c.Img.OY != 0 || c.Img.Pad != 0
	rec.Case(determined >= k2/4, ev.HashS("hash", fmt.Sprint(c.N, c.Img)), "op:hash", "kind:"+c.Img.Kind, "content:"+c.Img.Content, fmt.Sprintf("n:%d", c.N), fmt.Sprintf("subimage:%v", sub))
	if determined >= k2/4 {
		rec.Sample("hash:"+c.Img.Kind, map[string]any{"case": c, "determined_bits": determined})
	}
	return f
}

func init() { pbt.Register(chk); pbt.CrashGuard = true }

func TestProp(t *testing.T) {
	defer rec.MustWrite()
	rec.Rule("images of exactly 64x64 / 256x256 (RGBA, opaque NRGBA, Gray, YCbCr 4:4:4; smooth, noise, blocks, stripes, checkerboards, extremes, constant) at the origin and as sub-images at positive / negative origins of larger images (stride > width, hostile surroundings); " +
		"wrong sizes (squares 0..300, NxM, MxN, N+-1, zero, huge rectangles without pixels) and nil, with and without the pixel pools pre-filled with another image's leftovers; random hash triples. " +
		"oracle: reference coefficients = float64 separable DCT-II by definition of an independently computed luminance; with margin tau = 4e-5 ||lum||_1 (64-bit) / 2e-4 ||lum||_1 (256-bit): every coefficient above the upper median + tau has its bit set, every one below the median - tau has it clear, " +
		"min(set) > max(clear) - 2 tau, repeated calls agree, primary and alternative differ only within 2 tau of the median interval, sub-image hash == hash of the same pixels at the origin (YCbCr: up to bits within 2 tau of the median, because the two layouts may take the assembly / portable conversion paths); wrong size / nil => error and zero hash, no panic; Distance = popcount(xor), symmetric, zero on identical, triangle inequality. " +
		"non-trivial = right-size image with >= K^2/4 bits determined (|c_i - median| > tau), or a wrong size the guard formula 'w != h && w != N' would let through, or nil; distinct by case")
	rec.Assume("RGBA/NRGBA images are opaque (alpha 255): with partial alpha the library's integer channel arithmetic and the reference differ by up to one grey level per pixel, which is more than the margin resolves")
	rec.Assume("YCbCr images in this check are 4:4:4; other subsampling ratios are C20's subject")
	pbt.RegressDir(t, rec)
	pbt.Run(t, rec, chk, rec.Env.Pick(1500, 120000), 1)
}

func TestReplay(t *testing.T) { pbt.Replay(t, rec) }
