// C05 — concurrent calls on independent inputs are race-free and match
// sequential runs. The test binary is built with -race (GORACE
// halt_on_error=1): a data race kills the process and the driver reports the
// plan in flight. The check itself compares every concurrent call's digest with
// its sequential digest and watches for deadlock.
package c05

import (
	"fmt"
	"image"
	"runtime"
	"strings"
	"sync"
	"testing"
	"time"

	"pgregory.net/rapid"

	"github.com/evanoberholster/imagemeta/exif2"
	"github.com/evanoberholster/imagemeta/imagehash"
	"github.com/evanoberholster/imagemeta/imagehash/transforms32"

	"verif/internal/ev"
	"verif/internal/gen"
	"verif/internal/imgen"
	"verif/internal/pbt"
	"verif/internal/worker"
)

var rec = ev.New("C05")

type Call struct {
	Entry string `json:"entry"` // decode entry, or hash:p64 | hash:p64alt | hash:p256 | hash:p256alt | hash:ahash | hash:blur
	In    int    `json:"in"`    // index into Inputs or Images
}

type Case struct {
	Inputs [][]byte     `json:"inputs"`
	Kinds  []string     `json:"kinds"`
	Images []imgen.Spec `json:"images"`
	Plan   [][]Call     `json:"plan"` // per goroutine
	Procs  int          `json:"gomaxprocs"`
	Yield  bool         `json:"yield"`
	// RefAfter: the sequential reference pass runs after the concurrent phase instead of before it, so that
	// whatever the library initialises on first use is initialised by overlapping calls
	RefAfter bool `json:"ref_after,omitempty"`
	// Portable: the portable Go DCT / gray kernels are selected for the whole case (hook), as on a CPU without AVX2
	Portable bool `json:"portable_kernels,omitempty"`
}

func runCall(c Call, inputs [][]byte, imgs []image.Image) string {
	if strings.HasPrefix(c.Entry, "hash:") {
		img := imgs[c.In%len(imgs)]
		var d string
		func() {
			defer func() {
				if r := recover(); r != nil {
					d = fmt.Sprintf("panic: %v", r)
				}
			}()
			switch c.Entry {
			case "hash:p64":
				h, err := imagehash.NewPHash64(img)
				d = fmt.Sprintf("%016x err=%v", uint64(h), err)
			case "hash:p64alt":
				h, err := imagehash.NewPHash64Alt(img)
				d = fmt.Sprintf("%016x err=%v", uint64(h), err)
			case "hash:p256":
				h, err := imagehash.NewPHash256(img)
				d = fmt.Sprintf("%016x err=%v", [4]uint64(h), err)
			case "hash:ahash":
				h, err := imagehash.NewAHash(img)
				d = fmt.Sprintf("%v err=%v", h, err)
			case "hash:blur":
				h, err := imagehash.EncodeBlurHashFast(img)
				d = fmt.Sprintf("%s err=%v", h, err)
			default:
				h, err := imagehash.NewPHash256Alt(img)
				d = fmt.Sprintf("%016x err=%v", [4]uint64(h), err)
			}
		}()
		return d
	}
	r := worker.Exec(worker.Req{Entry: c.Entry, Input: inputs[c.In%len(inputs)], Concurrent: true})
	return r.Digest + "\nerr=" + r.Err + "\npanic=" + r.Panic
}

type stamp struct {
	g          int
	entry      string
	start, end int64
}

func eval(c Case) (f *pbt.Fail) {
	if c.Portable {
		transforms32.VerifUseGo()
		defer transforms32.VerifUsePlatform()
	}
	imgs := make([]image.Image, len(c.Images))
	for i, s := range c.Images {
		imgs[i] = s.Build()
	}
	if len(imgs) == 0 {
		imgs = []image.Image{imgen.Spec{Kind: "gray", W: 64, H: 64, Content: "noise", Seed: 1}.Build()}
	}
	if len(c.Inputs) == 0 {
		return nil
	}
	// sequential reference: every distinct call once, alone
	want := map[Call]string{}
	reference := func() {
		for _, g := range c.Plan {
			for _, cl := range g {
				if _, ok := want[cl]; !ok {
					want[cl] = runCall(cl, c.Inputs, imgs)
				}
			}
		}
	}
	if !c.RefAfter {
		reference()
	}
	// the concurrent phase starts from cold process-wide state (empty zone cache, fresh pools), like a fresh process would
	exif2.VerifResetPools()
	imagehash.VerifResetPixelPools()
	procs := c.Procs
	if procs < 1 {
		procs = 4
	}
	old := runtime.GOMAXPROCS(procs)
	defer runtime.GOMAXPROCS(old)
	var wg sync.WaitGroup
	start := make(chan struct{})
	type obs struct {
		cl         Call
		got        string
		start, end int64
	}
	// every goroutine records into its own slice: between the start barrier and the end of the plan the
	// harness performs no synchronisation at all (a shared lock here would order the library's accesses
	// for the race detector and hide races between calls that do not strictly overlap)
	seen := make([][]obs, len(c.Plan))
	for gi, g := range c.Plan {
		wg.Add(1)
		go func(gi int, g []Call) {
			defer wg.Done()
			mine := make([]obs, 0, len(g))
			<-start
			for _, cl := range g {
				t0 := time.Now().UnixNano()
				got := runCall(cl, c.Inputs, imgs)
				mine = append(mine, obs{cl, got, t0, time.Now().UnixNano()})
				if c.Yield {
					runtime.Gosched()
				}
			}
			seen[gi] = mine
		}(gi, g)
	}
	done := make(chan struct{})
	go func() { wg.Wait(); close(done) }()
	close(start)
	select {
	case <-done:
	case <-time.After(120 * time.Second): // nominal: well under a second
		buf := make([]byte, 1<<16)
		n := runtime.Stack(buf, true)
		// a second look two seconds later: goroutines that are still inside the same library frames, blocked on a lock,
		// are not slow - they wait for something nobody will release
		first := blockedInLibrary(string(buf[:n]))
		time.Sleep(2 * time.Second)
		n = runtime.Stack(buf, true)
		second := blockedInLibrary(string(buf[:n]))
		f := pbt.Failf("deadlock", "the plan (%d goroutines) did not finish within 120 s (nominal: under a second); %d goroutines are blocked on a lock inside the library (%d two seconds earlier), e.g. %s", len(c.Plan), len(second), len(first), firstOf(second))
		if len(second) > 0 && len(first) > 0 {
			pbt.Terminal(rec, "concurrent-calls", c, f) // does not return: the lock stays held, nothing else can be evaluated in this process
		}
		return f
	}
	var stamps []stamp
	for gi, m := range seen {
		for _, o := range m {
			stamps = append(stamps, stamp{gi, o.cl.Entry, o.start, o.end})
		}
	}
	overlapped = overlap(stamps)
	when := "alone beforehand"
	if c.RefAfter {
		reference()
		when = "alone afterwards (its first use was inside this plan)"
	}
	for gi, m := range seen {
		for ci, o := range m {
			if o.got != want[o.cl] {
				return pbt.Failf("differs:"+o.cl.Entry, "goroutine %d call %d: %s on input #%d returned something else while %d goroutines ran than it does %s: %s", gi, ci, o.cl.Entry, o.cl.In, len(c.Plan), when, firstDiff(want[o.cl], o.got))
			}
		}
	}
	return nil
}

var overlapped bool

// blockedInLibrary returns, from a goroutine dump, the innermost library frame of every goroutine that waits for a lock
// (sync.Mutex / RWMutex) taken inside the library.
func blockedInLibrary(dump string) []string {
	var out []string
	for _, g := range strings.Split(dump, "\n\n") {
		if !strings.Contains(g, "sync.(*Mutex).Lock") && !strings.Contains(g, "sync.(*RWMutex).Lock") && !strings.Contains(g, "sync.(*RWMutex).RLock") {
			continue
		}
		for _, ln := range strings.Split(g, "\n") {
			if strings.HasPrefix(ln, "github.com/evanoberholster/imagemeta") {
				out = append(out, strings.TrimPrefix(ln, "github.com/evanoberholster/imagemeta/"))
				break
			}
		}
	}
	return out
}

func firstOf(s []string) string {
	if len(s) == 0 {
		return "(none)"
	}
	return s[0]
}

// overlap: did two goroutines run the same pool-using entry point at the same time?
func overlap(st []stamp) bool {
	for i := range st {
		for j := i + 1; j < len(st) && j < i+400; j++ {
			if st[i].g != st[j].g && family(st[i].entry) == family(st[j].entry) && st[i].start < st[j].end && st[j].start < st[i].end {
				return true
			}
		}
	}
	return false
}

func family(e string) string {
	switch {
	case strings.HasPrefix(e, "hash:"):
		return "hash"
	case strings.HasPrefix(e, "It"):
		return "sniff"
	case e == "ParseXmp":
		return "xmp"
	default:
		return "decode"
	}
}

func firstDiff(a, b string) string {
	la, lb := strings.Split(a, "\n"), strings.Split(b, "\n")
	for i := 0; i < len(la) && i < len(lb); i++ {
		if la[i] != lb[i] {
			return fmt.Sprintf("alone %q vs concurrent %q", la[i], lb[i])
		}
	}
	return fmt.Sprintf("%d vs %d lines", len(la), len(lb))
}

// zones rewrites the zone-offset strings of a generated TIFF so that many distinct offsets are cached concurrently.
func zones(rt *rapid.T, b []byte) []byte {
	b = append([]byte{}, b...)
	for i := 0; i+7 <= len(b); i++ {
		if (b[i] == '+' || b[i] == '-') && b[i+3] == ':' && b[i+6] == 0 && b[i+1] >= '0' && b[i+1] <= '9' {
			copy(b[i:], fmt.Sprintf("%s%02d:%02d", rapid.SampledFrom([]string{"+", "-"}).Draw(rt, "zs"), rapid.IntRange(0, 13).Draw(rt, "zh"), rapid.SampledFrom([]int{0, 15, 30, 45}).Draw(rt, "zm")))
		}
	}
	return b
}

var hashEntries = []string{"hash:p64", "hash:p64alt", "hash:p256", "hash:p256alt", "hash:ahash", "hash:blur"}

// coldCase: the plan that runs first in every test process: 16 goroutines whose first calls are this
// process's first use of every entry point (rotated so that each family is entered by several at once),
// reference pass afterwards.
func coldCase(seed int) Case {
	c := rapid.Custom(genCase).Example(seed)
	c.RefAfter, c.Procs, c.Yield = true, 16, false
	c.Plan = nil
	c.Images = []imgen.Spec{{Kind: "rgba", W: 64, H: 64, Content: "noise", Seed: uint32(seed), Ratio: "444"}, {Kind: "ycbcr", W: 64, H: 64, Content: "smooth", Seed: uint32(seed) + 1, Ratio: "420"}, {Kind: "gray", W: 256, H: 256, Content: "noise", Seed: uint32(seed) + 2, Ratio: "444"}}
	var all []Call
	for i := range c.Images {
		for _, h := range hashEntries {
			all = append(all, Call{Entry: h, In: i})
		}
	}
	for i, k := range c.Kinds {
		for _, e := range gen.EntriesFor(k) {
			all = append(all, Call{Entry: e, In: i})
		}
		all = append(all, Call{Entry: "ItScan", In: i})
	}
	for g := 0; g < 16; g++ {
		var calls []Call
		for i := range all {
			calls = append(calls, all[(i+(g/4)*7)%len(all)]) // four goroutines share each starting point
		}
		if len(calls) > 60 {
			calls = calls[:60]
		}
		c.Plan = append(c.Plan, calls)
	}
	return c
}

// zoneStress: many goroutines decode, in tight loops, small TIFFs that differ in their time-zone strings: the process-wide
// zone cache is read and filled at the highest rate the library allows (atomicity slips that are not data races need many
// interleavings to show).
func zoneStress(rt *rapid.T) Case {
	var c Case
	for i, n := 0, rapid.IntRange(3, 6).Draw(rt, "zs.inputs"); i < n; i++ {
		f := gen.GenExif(rt, gen.Options{Unbuffered: true, NoGPS: true, MaxForeign: 1})
		c.Inputs = append(c.Inputs, zones(rt, f.Enc.II))
		c.Kinds = append(c.Kinds, "tiff")
	}
	c.Images = []imgen.Spec{{Kind: "gray", W: 64, H: 64, Content: "noise", Seed: 1, Ratio: "444"}}
	c.Procs = rapid.SampledFrom([]int{2, 4, 16}).Draw(rt, "zs.procs")
	ng := rapid.SampledFrom([]int{4, 8, 16}).Draw(rt, "zs.goroutines")
	per := 3200 / ng
	for g := 0; g < ng; g++ {
		var calls []Call
		a, b := rapid.IntRange(0, len(c.Inputs)-1).Draw(rt, "zs.a"), rapid.IntRange(0, len(c.Inputs)-1).Draw(rt, "zs.b")
		e := rapid.SampledFrom([]string{"Decode", "DecodeTiff", "ExifParse"}).Draw(rt, "zs.entry")
		for i := 0; i < per; i++ {
			in := a
			if i%2 == 1 {
				in = b
			}
			calls = append(calls, Call{Entry: e, In: in})
		}
		c.Plan = append(c.Plan, calls)
	}
	return c
}

// hashStress: every goroutine hashes the same few images with every hash function, portable or platform kernels: the
// kernels, the gray conversions and the pixel pools are entered by all goroutines at once.
func hashStress(rt *rapid.T) Case {
	c := Case{Inputs: [][]byte{[]byte("II*\x00\x08\x00\x00\x00\x00\x00\x00\x00\x00\x00")}, Kinds: []string{"tiff"}}
	for _, sz := range []int{64, 256} {
		for _, k := range []string{"rgba", "ycbcr", "gray"} {
			c.Images = append(c.Images, imgen.Spec{Kind: k, W: sz, H: sz, Content: rapid.SampledFrom([]string{"noise", "smooth"}).Draw(rt, "hs.content"), Seed: rapid.Uint32().Draw(rt, "hs.seed"), Ratio: rapid.SampledFrom([]string{"444", "420"}).Draw(rt, "hs.ratio")})
		}
	}
	c.Procs = rapid.SampledFrom([]int{2, 4, 16}).Draw(rt, "hs.procs")
	c.Portable = rapid.Bool().Draw(rt, "hs.portable")
	ng := rapid.SampledFrom([]int{4, 8, 16}).Draw(rt, "hs.goroutines")
	for g := 0; g < ng; g++ {
		var calls []Call
		for i := 0; i < 240/ng+6; i++ {
			calls = append(calls, Call{Entry: hashEntries[(i+g)%len(hashEntries)], In: (i/len(hashEntries) + g) % len(c.Images)})
		}
		c.Plan = append(c.Plan, calls)
	}
	return c
}

func genCase(rt *rapid.T) Case {
	if gen.Chance(rt, "zone-stress?", 0.15) {
		return zoneStress(rt)
	}
	if gen.Chance(rt, "hash-stress?", 0.12) {
		return hashStress(rt)
	}
	var c Case
	for i, n := 0, rapid.IntRange(4, 10).Draw(rt, "ninputs"); i < n; i++ {
		in := gen.GenInput(rt, nil)
		data := in.Data
		if in.Exif != nil && in.Kind != "png" { // (PNG chunks carry a CRC over their bytes)
			data = zones(rt, data)
		}
		if len(data) > 30000 {
			data = data[:30000]
		}
		c.Inputs = append(c.Inputs, data)
		c.Kinds = append(c.Kinds, in.Kind)
	}
	for i, k := 0, rapid.IntRange(1, 3).Draw(rt, "nimages"); i < k; i++ {
		sz := rapid.SampledFrom([]int{64, 64, 256, 63}).Draw(rt, "imgsize")
		c.Images = append(c.Images, imgen.Spec{Kind: rapid.SampledFrom([]string{"rgba", "gray", "ycbcr", "nrgba"}).Draw(rt, "imgkind"), W: sz, H: sz, Content: rapid.SampledFrom([]string{"noise", "smooth"}).Draw(rt, "content"), Seed: rapid.Uint32().Draw(rt, "seed"), Ratio: "444", Transp: rapid.IntRange(0, 2).Draw(rt, "transparent") == 0})
	}
	c.Procs = rapid.SampledFrom([]int{1, 2, 4, 16, 32}).Draw(rt, "procs")
	c.Yield = rapid.Bool().Draw(rt, "yield")
	c.RefAfter = rapid.IntRange(0, 3).Draw(rt, "refafter") == 0
	c.Portable = rapid.IntRange(0, 2).Draw(rt, "portable") == 0
	ng := rapid.SampledFrom([]int{2, 3, 4, 8, 16, 32, 64}).Draw(rt, "goroutines")
	per := rapid.IntRange(5, 30).Draw(rt, "percall")
	if ng*per > 640 {
		per = 640 / ng
	}
	for g := 0; g < ng; g++ {
		var calls []Call
		for i := 0; i < per; i++ {
			switch k := rapid.IntRange(0, 9).Draw(rt, "kind"); {
			case k <= 6:
				in := rapid.IntRange(0, len(c.Inputs)-1).Draw(rt, "in")
				calls = append(calls, Call{Entry: rapid.SampledFrom(gen.EntriesFor(c.Kinds[in])).Draw(rt, "entry"), In: in})
			case k == 7:
				calls = append(calls, Call{Entry: rapid.SampledFrom([]string{"ItScan", "ItBuf", "ItReadAt", "ItScanBuf"}).Draw(rt, "sniff"), In: rapid.IntRange(0, len(c.Inputs)-1).Draw(rt, "in")})
			default:
				calls = append(calls, Call{Entry: rapid.SampledFrom(hashEntries).Draw(rt, "hash"), In: rapid.IntRange(0, len(c.Images)-1).Draw(rt, "img")})
			}
		}
		c.Plan = append(c.Plan, calls)
	}
	return c
}

func evalCounted(c Case) *pbt.Fail {
	overlapped = false
	f := eval(c)
	n := 0
	for _, g := range c.Plan {
		n += len(g)
	}
	key := fmt.Sprint(c.Plan, c.Procs, c.Yield)
	for _, in := range c.Inputs {
		key += fmt.Sprint(len(in))
	}
	rec.Case(overlapped, ev.HashS(key), fmt.Sprintf("goroutines:%d", len(c.Plan)), fmt.Sprintf("gomaxprocs:%d", c.Procs), fmt.Sprintf("overlap-observed:%v", overlapped), fmt.Sprintf("portable-kernels:%v", c.Portable))
	rec.Class("calls", int64(n))
	if n >= 3000 {
		rec.Class("zone-stress-plan", 1)
	}
	if overlapped && len(c.Plan) <= 4 && n <= 40 {
		rec.Sample("plan", map[string]any{"plan": c.Plan, "gomaxprocs": c.Procs, "yield": c.Yield, "input_kinds": c.Kinds, "images": c.Images})
	}
	return f
}

var chk = pbt.Check[Case]{Name: "concurrent-calls", Gen: genCase, Eval: evalCounted}

func init() { pbt.Register(chk); pbt.CrashGuard = true }

func TestProp(t *testing.T) {
	defer rec.MustWrite()
	rec.Rule("plans: 2-64 goroutines, each 5-30 calls (decoding through every entry point that fits the input, sniffing, the four perceptual hashes, the average hash and the blurhash) over a pool of 4-10 inputs (samples, encoder output in every container with many distinct zone offsets so that the time-zone cache is written concurrently, XMP packets) and 1-3 images; GOMAXPROCS in {1,2,4,16,32}; start barrier; optional yields; the process-wide caches and pools are emptied (hook) between the sequential reference pass and the concurrent phase; in a quarter of the plans, and in the cold-start plan that every test process runs before anything else (16 goroutines x up to 60 calls whose first calls are the process's first use of every entry point), the reference pass runs after the concurrent phase, so that first-use initialisation happens under overlap. " +
		"The binary is built with -race (halt_on_error): a reported data race ends the process and the driver reports the plan in flight. oracle inside the check: every call's digest equals the digest of the same call run alone beforehand; the plan finishes (120 s watchdog, nominal < 1 s). " +
		"non-trivial = two goroutines were observed inside the same entry-point family at the same time (start/end stamps); distinct by plan")
	rec.Assume("the Go scheduler, not the harness, owns the interleaving: the race detector makes data races independent of the schedule hit, an atomicity bug without a data race is found only if the schedule produces it")
	rec.Assume("the logger configuration is process-wide by design and is not changed during a plan")
	// first of all, while nothing of the library has run in this process: the cold-start plan
	cold := coldCase(int(rec.Env.Seed%1000000)*64 + rec.Env.Shard + 1)
	pbt.MarkInflight(rec, chk.Name, cold)
	if f := evalCounted(cold); f != nil {
		rec.Class("cold-start-plan", 1)
		if pbt.Report(t, rec, chk.Name, cold, f) {
			return
		}
	}
	rec.Class("cold-start-plan", 1)
	pbt.RegressDir(t, rec)
	pbt.Run(t, rec, chk, rec.Env.Pick(60, 1500), 1)
}

func TestReplay(t *testing.T) { pbt.Replay(t, rec) }
