// C05 — concurrent calls on independent inputs are race-free and match
// sequential runs. The test binary is built with -race (GORACE
// halt_on_error=1): a data race kills the process and the driver reports the
// plan in flight. The check itself compares every concurrent call's digest with
// its sequential digest and watches for deadlock.
package c05

import (
	"fmt"
	"image"
	"runtime"
	"strings"
	"sync"
	"testing"
	"time"

	"pgregory.net/rapid"

	"github.com/evanoberholster/imagemeta/exif2"
	"github.com/evanoberholster/imagemeta/imagehash"

	"verif/internal/ev"
	"verif/internal/gen"
	"verif/internal/imgen"
	"verif/internal/pbt"
	"verif/internal/worker"
)

var rec = ev.New("C05")

type Call struct {
	Entry string `json:"entry"` // decode entry, or hash:p64 | hash:p64alt | hash:p256 | hash:p256alt
	In    int    `json:"in"`    // index into Inputs or Images
}

type Case struct {
	Inputs [][]byte     `json:"inputs"`
	Kinds  []string     `json:"kinds"`
	Images []imgen.Spec `json:"images"`
	Plan   [][]Call     `json:"plan"` // per goroutine
	Procs  int          `json:"gomaxprocs"`
	Yield  bool         `json:"yield"`
}

func runCall(c Call, inputs [][]byte, imgs []image.Image) string {
	if strings.HasPrefix(c.Entry, "hash:") {
		img := imgs[c.In%len(imgs)]
		var d string
		func() {
			defer func() {
				if r := recover(); r != nil {
					d = fmt.Sprintf("panic: %v", r)
				}
			}()
			switch c.Entry {
			case "hash:p64":
				h, err := imagehash.NewPHash64(img)
				d = fmt.Sprintf("%016x err=%v", uint64(h), err)
			case "hash:p64alt":
				h, err := imagehash.NewPHash64Alt(img)
				d = fmt.Sprintf("%016x err=%v", uint64(h), err)
			case "hash:p256":
				h, err := imagehash.NewPHash256(img)
				d = fmt.Sprintf("%016x err=%v", [4]uint64(h), err)
			default:
				h, err := imagehash.NewPHash256Alt(img)
				d = fmt.Sprintf("%016x err=%v", [4]uint64(h), err)
			}
		}()
		return d
	}
	r := worker.Exec(worker.Req{Entry: c.Entry, Input: inputs[c.In%len(inputs)], Concurrent: true})
	return r.Digest + "\nerr=" + r.Err + "\npanic=" + r.Panic
}

type stamp struct {
	g          int
	entry      string
	start, end int64
}

func eval(c Case) (f *pbt.Fail) {
	imgs := make([]image.Image, len(c.Images))
	for i, s := range c.Images {
		imgs[i] = s.Build()
	}
	if len(imgs) == 0 {
		imgs = []image.Image{imgen.Spec{Kind: "gray", W: 64, H: 64, Content: "noise", Seed: 1}.Build()}
	}
	if len(c.Inputs) == 0 {
		return nil
	}
	// sequential reference: every distinct call once, alone
	want := map[Call]string{}
	for _, g := range c.Plan {
		for _, cl := range g {
			if _, ok := want[cl]; !ok {
				want[cl] = runCall(cl, c.Inputs, imgs)
			}
		}
	}
	// the concurrent phase starts from cold process-wide state (empty zone cache, fresh pools), like a fresh process would
	exif2.VerifResetPools()
	imagehash.VerifResetPixelPools()
	procs := c.Procs
	if procs < 1 {
		procs = 4
	}
	old := runtime.GOMAXPROCS(procs)
	defer runtime.GOMAXPROCS(old)
	var wg sync.WaitGroup
	start := make(chan struct{})
	var mu sync.Mutex
	var firstFail *pbt.Fail
	var stamps []stamp
	for gi, g := range c.Plan {
		wg.Add(1)
		go func(gi int, g []Call) {
			defer wg.Done()
			<-start
			for ci, cl := range g {
				t0 := time.Now().UnixNano()
				got := runCall(cl, c.Inputs, imgs)
				t1 := time.Now().UnixNano()
				mu.Lock()
				stamps = append(stamps, stamp{gi, cl.Entry, t0, t1})
				if got != want[cl] && firstFail == nil {
					firstFail = pbt.Failf("differs:"+cl.Entry, "goroutine %d call %d: %s on input #%d returned something else while %d goroutines ran than it does alone: %s", gi, ci, cl.Entry, cl.In, len(c.Plan), firstDiff(want[cl], got))
				}
				mu.Unlock()
				if c.Yield {
					runtime.Gosched()
				}
			}
		}(gi, g)
	}
	done := make(chan struct{})
	go func() { wg.Wait(); close(done) }()
	close(start)
	select {
	case <-done:
	case <-time.After(120 * time.Second): // nominal: well under a second
		buf := make([]byte, 1<<16)
		n := runtime.Stack(buf, true)
		return pbt.Failf("deadlock", "the plan (%d goroutines) did not finish within 120 s; goroutine dump:\n%s", len(c.Plan), buf[:n])
	}
	overlapped = overlap(stamps)
	return firstFail
}

var overlapped bool

// overlap: did two goroutines run the same pool-using entry point at the same time?
func overlap(st []stamp) bool {
	for i := range st {
		for j := i + 1; j < len(st) && j < i+400; j++ {
			if st[i].g != st[j].g && family(st[i].entry) == family(st[j].entry) && st[i].start < st[j].end && st[j].start < st[i].end {
				return true
			}
		}
	}
	return false
}

func family(e string) string {
	switch {
	case strings.HasPrefix(e, "hash:"):
		return "hash"
	case strings.HasPrefix(e, "It"):
		return "sniff"
	case e == "ParseXmp":
		return "xmp"
	default:
		return "decode"
	}
}

func firstDiff(a, b string) string {
	la, lb := strings.Split(a, "\n"), strings.Split(b, "\n")
	for i := 0; i < len(la) && i < len(lb); i++ {
		if la[i] != lb[i] {
			return fmt.Sprintf("alone %q vs concurrent %q", la[i], lb[i])
		}
	}
	return fmt.Sprintf("%d vs %d lines", len(la), len(lb))
}

// zones rewrites the zone-offset strings of a generated TIFF so that many distinct offsets are cached concurrently.
func zones(rt *rapid.T, b []byte) []byte {
	b = append([]byte{}, b...)
	for i := 0; i+7 <= len(b); i++ {
		if (b[i] == '+' || b[i] == '-') && b[i+3] == ':' && b[i+6] == 0 && b[i+1] >= '0' && b[i+1] <= '9' {
			copy(b[i:], fmt.Sprintf("%s%02d:%02d", rapid.SampledFrom([]string{"+", "-"}).Draw(rt, "zs"), rapid.IntRange(0, 13).Draw(rt, "zh"), rapid.SampledFrom([]int{0, 15, 30, 45}).Draw(rt, "zm")))
		}
	}
	return b
}

func genCase(rt *rapid.T) Case {
	var c Case
	for i, n := 0, rapid.IntRange(4, 10).Draw(rt, "ninputs"); i < n; i++ {
		in := gen.GenInput(rt, nil)
		data := in.Data
		if in.Exif != nil && in.Kind != "png" { // (PNG chunks carry a CRC over their bytes)
			data = zones(rt, data)
		}
		if len(data) > 30000 {
			data = data[:30000]
		}
		c.Inputs = append(c.Inputs, data)
		c.Kinds = append(c.Kinds, in.Kind)
	}
	for i, k := 0, rapid.IntRange(1, 3).Draw(rt, "nimages"); i < k; i++ {
		sz := rapid.SampledFrom([]int{64, 64, 256, 63}).Draw(rt, "imgsize")
		c.Images = append(c.Images, imgen.Spec{Kind: rapid.SampledFrom([]string{"rgba", "gray", "ycbcr", "nrgba"}).Draw(rt, "imgkind"), W: sz, H: sz, Content: rapid.SampledFrom([]string{"noise", "smooth"}).Draw(rt, "content"), Seed: rapid.Uint32().Draw(rt, "seed"), Ratio: "444", Transp: rapid.IntRange(0, 2).Draw(rt, "transparent") == 0})
	}
	c.Procs = rapid.SampledFrom([]int{1, 2, 4, 16, 32}).Draw(rt, "procs")
	c.Yield = rapid.Bool().Draw(rt, "yield")
	ng := rapid.SampledFrom([]int{2, 3, 4, 8, 16, 32, 64}).Draw(rt, "goroutines")
	per := rapid.IntRange(5, 30).Draw(rt, "percall")
	if ng*per > 640 {
		per = 640 / ng
	}
	for g := 0; g < ng; g++ {
		var calls []Call
		for i := 0; i < per; i++ {
			switch k := rapid.IntRange(0, 9).Draw(rt, "kind"); {
			case k <= 6:
				in := rapid.IntRange(0, len(c.Inputs)-1).Draw(rt, "in")
				calls = append(calls, Call{Entry: rapid.SampledFrom(gen.EntriesFor(c.Kinds[in])).Draw(rt, "entry"), In: in})
			case k == 7:
				calls = append(calls, Call{Entry: rapid.SampledFrom([]string{"ItScan", "ItBuf", "ItReadAt", "ItScanBuf"}).Draw(rt, "sniff"), In: rapid.IntRange(0, len(c.Inputs)-1).Draw(rt, "in")})
			default:
				calls = append(calls, Call{Entry: rapid.SampledFrom([]string{"hash:p64", "hash:p64alt", "hash:p256", "hash:p256alt"}).Draw(rt, "hash"), In: rapid.IntRange(0, len(c.Images)-1).Draw(rt, "img")})
			}
		}
		c.Plan = append(c.Plan, calls)
	}
	return c
}

func evalCounted(c Case) *pbt.Fail {
	overlapped = false
	f := eval(c)
	n := 0
	for _, g := range c.Plan {
		n += len(g)
	}
	key := fmt.Sprint(c.Plan, c.Procs, c.Yield)
	for _, in := range c.Inputs {
		key += fmt.Sprint(len(in))
	}
	rec.Case(overlapped, ev.HashS(key), fmt.Sprintf("goroutines:%d", len(c.Plan)), fmt.Sprintf("gomaxprocs:%d", c.Procs), fmt.Sprintf("overlap-observed:%v", overlapped))
	rec.Class("calls", int64(n))
	if overlapped && len(c.Plan) <= 4 && n <= 40 {
		rec.Sample("plan", map[string]any{"plan": c.Plan, "gomaxprocs": c.Procs, "yield": c.Yield, "input_kinds": c.Kinds, "images": c.Images})
	}
	return f
}

var chk = pbt.Check[Case]{Name: "concurrent-calls", Gen: genCase, Eval: evalCounted}

func init() { pbt.Register(chk); pbt.CrashGuard = true }

func TestProp(t *testing.T) {
	defer rec.MustWrite()
	rec.Rule("plans: 2-64 goroutines, each 5-30 calls (decoding through every entry point that fits the input, sniffing, the four perceptual hashes) over a pool of 4-10 inputs (samples, encoder output in every container with many distinct zone offsets so that the time-zone cache is written concurrently, XMP packets) and 1-3 images; GOMAXPROCS in {1,2,4,16,32}; start barrier; optional yields; the process-wide caches and pools are emptied (hook) between the sequential reference pass and the concurrent phase. " +
		"The binary is built with -race (halt_on_error): a reported data race ends the process and the driver reports the plan in flight. oracle inside the check: every call's digest equals the digest of the same call run alone beforehand; the plan finishes (120 s watchdog, nominal < 1 s). " +
		"non-trivial = two goroutines were observed inside the same entry-point family at the same time (start/end stamps); distinct by plan")
	rec.Assume("the Go scheduler, not the harness, owns the interleaving: the race detector makes data races independent of the schedule hit, an atomicity bug without a data race is found only if the schedule produces it")
	rec.Assume("the logger configuration is process-wide by design and is not changed during a plan")
	pbt.RegressDir(t, rec)
	pbt.Run(t, rec, chk, rec.Env.Pick(60, 1500), 1)
}

func TestReplay(t *testing.T) { pbt.Replay(t, rec) }
