// C14 — memory allocated by a decode is bounded by the input size, not by its
// contents: bytes allocated during f(b) <= 4 MiB + 16*len(b).
package c14

import (
	"bytes"
	"encoding/binary"
	"fmt"
	"os"
	"strings"
	"testing"

	"pgregory.net/rapid"

	"verif/internal/ev"
	"verif/internal/gen"
	"verif/internal/pbt"
	"verif/internal/worker"
)

var rec = ev.New("C14")

// single goroutine, 8 GiB address space: a 4 GiB make is measured instead of killing the machine
var cl = &worker.Client{VLimitKB: 8 << 20, Env: []string{"GOMAXPROCS=1"}}

func TestMain(m *testing.M) {
	worker.MaybeServe()
	code := m.Run()
	cl.Close()
	os.Exit(code)
}

type Case struct {
	Entry  string   `json:"entry"`
	Input  []byte   `json:"input"`
	K      int      `json:"k,omitempty"`
	Origin string   `json:"origin"`
	Ops    []string `json:"ops,omitempty"`
	Big    bool     `json:"carries_oversized_field"`
}

var warmed = map[string]bool{}

func eval(c Case) *pbt.Fail {
	wd := worker.Watchdog(len(c.Input))
	req := worker.Req{Entry: c.Entry, Input: c.Input, K: c.K, Alloc: true}
	if !warmed[c.Entry] || cl.Restarts == 0 {
		cl.Do(req, wd) // pools and lazily initialised tables are filled by one prior call
		warmed[c.Entry] = true
	}
	restarts := cl.Restarts
	r := cl.Do(req, wd)
	if cl.Restarts != restarts {
		warmed = map[string]bool{}
	}
	past := len(c.Input) >= 64 && !strings.Contains(r.Err, "imagetype not found") && !strings.Contains(r.Err, "not supported") && !strings.Contains(r.Err, "not long enough")
	rec.Case(c.Big && past, ev.Hash([]byte(c.Entry), c.Input), "entry:"+c.Entry, "origin:"+c.Origin, fmt.Sprintf("oversized-field:%v", c.Big))
	limit := uint64(4<<20 + 16*len(c.Input))
	switch {
	case r.Died:
		if strings.Contains(r.Stderr, "out of memory") || strings.Contains(r.Stderr, "cannot allocate") || strings.Contains(r.Stderr, "makeslice") {
			return pbt.Failf(c.Entry+"/oom", "%s on a %d-byte %s input exhausted the worker's 8 GiB address space; stderr tail:\n%s", c.Entry, len(c.Input), c.Origin, tailOf(r.Stderr, 600))
		}
		rec.Class("worker-died-other(C01)", 1)
		return nil
	case r.Hung || r.Aborted != "":
		rec.Inconclusive(1)
		return nil
	case r.Panic != "":
		if strings.Contains(r.Panic, "makeslice") || strings.Contains(r.Panic, "out of memory") {
			return pbt.Failf(c.Entry+"/makeslice/"+r.PanicFrame, "%s on a %d-byte %s input asked for an impossible allocation: %s in %s", c.Entry, len(c.Input), c.Origin, r.Panic, r.PanicFrame)
		}
		rec.Class("panicked(C01)", 1)
		return nil
	}
	if c.Big && past {
		rec.Sample(c.Origin, map[string]any{"entry": c.Entry, "origin": c.Origin, "input_len": len(c.Input), "allocated": r.Alloc, "limit": limit, "ops": c.Ops, "err": r.Err})
	}
	if r.Alloc > limit {
		return pbt.Failf(c.Entry+"/alloc", "%s allocated %d bytes while decoding a %d-byte %s input (limit 4 MiB + 16 x len = %d); ops %v; returned %s", c.Entry, r.Alloc, len(c.Input), c.Origin, limit, c.Ops, r.Err)
	}
	return nil
}

func tailOf(s string, n int) string {
	if len(s) > n {
		return s[len(s)-n:]
	}
	return s
}

var bigs = []uint32{0x7fffffff, 0x80000000, 0x80000001, 0xfffffff0, 0xffffffff, 0x40000000, 0x10000000, 0x01000000}

// sizeField overwrites one count / size / length field of the file with a huge value or with len +- 1.
func sizeField(rt *rapid.T, b []byte, sites []gen.Site) ([]byte, string, bool) {
	var cands []gen.Site
	for _, s := range sites {
		k := s.Name
		if i := strings.LastIndex(k, "."); i >= 0 {
			k = k[i+1:]
		}
		switch k {
		case "count", "size", "len", "size64", "size64lo", "extentlen", "value", "entry0", "extent", "next":
			cands = append(cands, s)
		}
	}
	if len(cands) == 0 {
		return b, "", false
	}
	s := cands[rapid.IntRange(0, len(cands)-1).Draw(rt, "site")]
	out := append([]byte{}, b...)
	v := rapid.SampledFrom(bigs).Draw(rt, "big")
	if rapid.IntRange(0, 3).Draw(rt, "lenish") == 0 {
		v = uint32(len(b) + rapid.IntRange(-1, 1).Draw(rt, "d"))
	}
	be := rapid.Bool().Draw(rt, "be")
	switch {
	case s.Size >= 8 && s.Off+8 <= len(out):
		binary.BigEndian.PutUint64(out[s.Off:], uint64(v)<<rapid.SampledFrom([]uint{0, 8, 31}).Draw(rt, "shift"))
	case s.Size >= 4 && s.Off+4 <= len(out):
		if be {
			binary.BigEndian.PutUint32(out[s.Off:], v)
		} else {
			binary.LittleEndian.PutUint32(out[s.Off:], v)
		}
	case s.Off+2 <= len(out):
		if be {
			binary.BigEndian.PutUint16(out[s.Off:], uint16(v>>16))
		} else {
			binary.LittleEndian.PutUint16(out[s.Off:], uint16(v>>16))
		}
	}
	return out, "size-field:" + s.Name, true
}

// previewFile: a camera-layout CR3 whose PRVW box states a preview size unrelated to what the file holds.
func previewFile(rt *rapid.T) ([]byte, string) {
	jpegLen := rapid.SampledFrom([]int{0, 10, 3000, 3000, 3000, 3000, 70000, 300000, 400000}).Draw(rt, "have")
	stated := rapid.SampledFrom(bigs).Draw(rt, "stated")
	if rapid.IntRange(0, 3).Draw(rt, "near") == 0 {
		stated = uint32(jpegLen + rapid.IntRange(-1, 70000).Draw(rt, "d"))
	}
	if jpegLen >= 70000 || rapid.IntRange(0, 4).Draw(rt, "honest") == 0 {
		stated = uint32(jpegLen) // an honest file that is mostly preview: the cost must stay proportional to its size
	}
	f := make([]byte, 16)
	binary.BigEndian.PutUint16(f[4:], 1)
	// the stated dimensions are file fields too: ordinary, zero, or the largest a 16-bit field holds
	dims := rapid.SampledFrom([][2]uint16{{160, 120}, {1620, 1080}, {0, 0}, {0xffff, 0xffff}, {0xffff, 1}}).Draw(rt, "dims")
	binary.BigEndian.PutUint16(f[6:], dims[0])
	binary.BigEndian.PutUint16(f[8:], dims[1])
	binary.BigEndian.PutUint16(f[10:], 1)
	binary.BigEndian.PutUint32(f[12:], stated)
	prvw := &gen.Box{Type: "PRVW", Data: append(f, make([]byte, jpegLen)...)}
	if int(stated) != jpegLen && rapid.Bool().Draw(rt, "boxlies") { // the PRVW box itself also claims the stated size
		prvw.Overstate = int64(stated) - int64(jpegLen)
	}
	pre := &gen.Box{Type: "uuid", Data: append(append([]byte{}, gen.UUIDPreview...), 0, 0, 0, 0, 0, 0, 0, 1), Kids: []*gen.Box{prvw}}
	canon := &gen.Box{Type: "uuid", Data: append([]byte{}, gen.UUIDCanon...), Kids: []*gen.Box{{Type: "CNCV", Data: make([]byte, 30)}}}
	moov := &gen.Box{Type: "moov", Kids: []*gen.Box{canon}}
	xp := &gen.Box{Type: "uuid", Data: append(append([]byte{}, gen.UUIDXPacket...), []byte("<x:xmpmeta xmlns:x=\"adobe:ns:meta/\"></x:xmpmeta>")...)}
	var out []byte
	for _, b := range []*gen.Box{gen.Ftyp("crx ", 1, "crx ", "isom"), moov, xp, pre, {Type: "mdat", Data: make([]byte, 64)}} {
		out = append(out, b.Serialise(len(out))...)
	}
	return out, fmt.Sprintf("prvw-stated-%d-have-%d", stated, jpegLen)
}

// manySmall: files made of very many tiny structures, each of which may trigger a fixed-size or
// count-sized allocation: the total must still be bounded by the file size.
func manySmall(rt *rapid.T) ([]byte, string, string) {
	n := rapid.SampledFrom([]int{2, 8, 32, 200, 2000, 20000}).Draw(rt, "copies")
	kind := rapid.SampledFrom([]string{"preview-boxes", "iloc-boxes", "cmt-boxes", "xpacket-boxes", "tiny-boxes", "tiny-boxes", "tiny-boxes"}).Draw(rt, "what")
	if kind == "tiny-boxes" {
		// header-only (or nearly) boxes of one known type: whatever the parser of that type does with a payload that is
		// too short (an error value, a log record) must not cost more than a few bytes per box
		typ := rapid.SampledFrom(gen.BoxTypes).Draw(rt, "tiny.type")
		if rapid.Bool().Draw(rt, "tiny.common") {
			typ = rapid.SampledFrom([]string{"uuid", "hdlr", "pitm", "iinf", "iloc", "infe", "idat", "iref", "iprp", "CTBO", "CNCV", "CMT1", "CMT3", "PRVW", "trak", "free"}).Draw(rt, "tiny.type2")
		}
		pl := rapid.IntRange(0, 20).Draw(rt, "tiny.payload")
		if rapid.Bool().Draw(rt, "tiny.container") {
			// container types left with room for a child header (8..15 bytes) but not for the 16 bytes of a 64-bit one
			typ = rapid.SampledFrom([]string{"iprp", "ipco", "iref", "dinf", "trak", "mdia", "minf", "stbl", "grpl", "moov", "meta"}).Draw(rt, "tiny.ctype")
			pl = rapid.IntRange(8, 19).Draw(rt, "tiny.cpayload")
		}
		n = rapid.SampledFrom([]int{2000, 20000, 100000, 300000}).Draw(rt, "tiny.copies")
		where := rapid.SampledFrom([]string{"moov", "canon", "meta", "top"}).Draw(rt, "tiny.where")
		payload := make([]byte, pl)
		if typ == "uuid" && rapid.Bool().Draw(rt, "tiny.knownuuid") {
			// a uuid box that carries one of the identifiers the reader knows and (almost) nothing behind it
			payload = append(append([]byte{}, rapid.SampledFrom([][]byte{gen.UUIDPreview, gen.UUIDCanon, gen.UUIDXPacket}).Draw(rt, "tiny.uuid")...), make([]byte, pl%9)...)
			if rec.Env.Thorough() {
				n = rapid.SampledFrom([]int{20000, 300000, 600000}).Draw(rt, "tiny.copies2")
			}
		}
		one := (&gen.Box{Type: typ, Data: payload}).Serialise(0)
		body := bytes.Repeat(one, n)
		brand := "crx "
		var out []byte
		switch where {
		case "meta":
			brand = rapid.SampledFrom([]string{"heic", "avif"}).Draw(rt, "tiny.brand")
			out = gen.Ftyp(brand, 0, "mif1", brand).Serialise(0)
			out = append(out, (&gen.Box{Type: "meta", Full: true, Data: body}).Serialise(len(out))...)
		case "canon":
			out = gen.Ftyp(brand, 1, brand, "isom").Serialise(0)
			canon := &gen.Box{Type: "uuid", Data: append(append([]byte{}, gen.UUIDCanon...), body...)}
			out = append(out, (&gen.Box{Type: "moov", Kids: []*gen.Box{canon}}).Serialise(len(out))...)
		case "moov":
			out = gen.Ftyp(brand, 1, brand, "isom").Serialise(0)
			out = append(out, (&gen.Box{Type: "moov", Data: body}).Serialise(len(out))...)
		default:
			out = append(gen.Ftyp(brand, 1, brand, "isom").Serialise(0), body...)
		}
		out = append(out, (&gen.Box{Type: "mdat", Data: make([]byte, 64)}).Serialise(len(out))...)
		return out, fmt.Sprintf("%d x %q with %d payload bytes in %s", n, typ, pl, where), kind
	}
	var kids []*gen.Box
	for i := 0; i < n; i++ {
		switch kind {
		case "preview-boxes":
			f := make([]byte, 16)
			binary.BigEndian.PutUint16(f[4:], 1)
			binary.BigEndian.PutUint32(f[12:], uint32(rapid.SampledFrom([]int{0, 2048, 1 << 20}).Draw(rt, "psz")))
			kids = append(kids, &gen.Box{Type: "uuid", Data: append(append([]byte{}, gen.UUIDPreview...), 0, 0, 0, 0, 0, 0, 0, 1), Kids: []*gen.Box{{Type: "PRVW", Data: f}}})
		case "iloc-boxes":
			d := []byte{0x44, 0x00, 0xFF, 0xFF} // offset/length size 4, item_count 0xFFFF, no entries
			if i%2 == 1 {
				d = []byte{0x44, 0x00, 0x00, 0x01, 0x00, 0x01, 0x00, 0x00, 0xFF, 0xFF} // one item that declares 65535 extents, none present
			}
			kids = append(kids, &gen.Box{Type: "iloc", Full: true, Data: d})
		case "cmt-boxes":
			kids = append(kids, &gen.Box{Type: "CMT1", Data: []byte("II*\x00\x08\x00\x00\x00\x00\x00\x00\x00\x00\x00\x00\x00")})
		default:
			kids = append(kids, &gen.Box{Type: "uuid", Data: append(append([]byte{}, gen.UUIDXPacket...), []byte("<x:xmpmeta xmlns:x=\"adobe:ns:meta/\"/>")...)})
		}
	}
	if kind == "preview-boxes" && n >= 200 && rapid.Bool().Draw(rt, "real-preview-first") {
		// one honest large preview in front of the many empty ones: whatever is kept from one preview box to the next (a
		// buffer, its capacity) is paid for again in every one of them
		sz := rapid.SampledFrom([]int{100 << 10, 280 << 10, 400 << 10}).Draw(rt, "realpsz")
		f := make([]byte, 16)
		binary.BigEndian.PutUint16(f[4:], 1)
		binary.BigEndian.PutUint16(f[6:], 1620)
		binary.BigEndian.PutUint16(f[8:], 1080)
		binary.BigEndian.PutUint16(f[10:], 1)
		binary.BigEndian.PutUint32(f[12:], uint32(sz))
		real := &gen.Box{Type: "uuid", Data: append(append([]byte{}, gen.UUIDPreview...), 0, 0, 0, 0, 0, 0, 0, 1), Kids: []*gen.Box{{Type: "PRVW", Data: append(f, bytes.Repeat([]byte{0xd5}, sz)...)}}}
		kids = append([]*gen.Box{real}, kids...)
		kind = "preview-boxes-after-a-real-one"
	}
	var top []*gen.Box
	brand := "crx "
	switch kind {
	case "iloc-boxes":
		brand = "avif"
		top = []*gen.Box{{Type: "meta", Full: true, Kids: kids}}
	case "cmt-boxes":
		top = []*gen.Box{{Type: "moov", Kids: []*gen.Box{{Type: "uuid", Data: append([]byte{}, gen.UUIDCanon...), Kids: kids}}}}
	default:
		if rapid.Bool().Draw(rt, "insideMoov") {
			top = []*gen.Box{{Type: "moov", Kids: kids}}
		} else {
			top = kids
		}
	}
	out := gen.Ftyp(brand, 1, brand, "mif1").Serialise(0)
	for _, b := range top {
		out = append(out, b.Serialise(len(out))...)
	}
	out = append(out, (&gen.Box{Type: "mdat", Data: make([]byte, 64)}).Serialise(len(out))...)
	return out, fmt.Sprintf("%d-%s", n, kind), kind
}

// lyingChain: an Exif block inside boxes that all declare far more than the file holds (CR3 CMTn, HEIF
// Exif item), with out-of-line tags whose unit counts are huge: every length the Exif reader could
// check a value against is a lie, only the bytes actually present are real.
func lyingChain(rt *rapid.T) ([]byte, string, string) {
	mm := rapid.Bool().Draw(rt, "mm")
	bo := binary.AppendByteOrder(binary.LittleEndian)
	hdr := []byte("II*\x00\x08\x00\x00\x00")
	if mm {
		bo = binary.BigEndian
		hdr = []byte("MM\x00*\x00\x00\x00\x08")
	}
	which := rapid.IntRange(0, 3).Draw(rt, "cmt")
	ids := [][]uint16{{0x010e, 0x010f, 0x0110, 0x013b, 0x8298, 0x0131}, {0x9286, 0xa434, 0xa433, 0x9003, 0x829a, 0x8827}, {0x0006, 0x0007, 0x0095, 0x0096, 0x0001, 0x4019}, {0x0001, 0x0002, 0x0007, 0x001d}}[which]
	n := rapid.IntRange(1, 4).Draw(rt, "entries")
	tiff := append([]byte{}, hdr...)
	tiff = bo.AppendUint16(tiff, uint16(n))
	after := uint32(8 + 2 + 12*n + 4)
	var desc []string
	for i := 0; i < n; i++ {
		id := ids[rapid.IntRange(0, len(ids)-1).Draw(rt, "tag")]
		typ := rapid.SampledFrom([]uint16{2, 2, 7, 1, 3, 4, 5, 10}).Draw(rt, "type")
		cnt := rapid.SampledFrom([]uint32{0x10000000, 0x00400000, 0x003fff00, 0x01000000, 0x7fffffff, 0xffffffff, 70000, 5000}).Draw(rt, "count")
		off := after + uint32(rapid.IntRange(0, 64).Draw(rt, "voff"))
		tiff = bo.AppendUint16(tiff, id)
		tiff = bo.AppendUint16(tiff, typ)
		tiff = bo.AppendUint32(tiff, cnt)
		tiff = bo.AppendUint32(tiff, off)
		desc = append(desc, fmt.Sprintf("%04x/t%d/n%d", id, typ, cnt))
	}
	tiff = bo.AppendUint32(tiff, 0)
	tiff = append(tiff, rapid.SliceOfN(rapid.Byte(), 0, 200).Draw(rt, "present")...)
	lie := int64(rapid.SampledFrom([]uint32{0x7fff0000, 0x10000000, 0x02000000, 0x00500000}).Draw(rt, "lie"))
	var out []byte
	kind := "cr3"
	if rapid.IntRange(0, 3).Draw(rt, "heif?") == 0 {
		kind = "heif"
		full := gen.HEIFWith(rt, tiff)
		// cut the file right after the TIFF block, then enlarge the extent length and the mdat size
		at := bytes.Index(full, tiff)
		out = append([]byte{}, full[:at+len(tiff)]...)
		if i := bytes.Index(out, []byte("iloc")); i >= 0 && i+4+4+14+4 <= len(out) {
			binary.BigEndian.PutUint32(out[i+4+4+14:], uint32(lie))
		}
		if i := bytes.LastIndex(out[:at], []byte("mdat")); i >= 4 {
			binary.BigEndian.PutUint32(out[i-4:], uint32(lie))
		}
	} else {
		cmt := &gen.Box{Type: fmt.Sprintf("CMT%d", which+1), Data: tiff, Overstate: lie}
		canon := &gen.Box{Type: "uuid", Data: append([]byte{}, gen.UUIDCanon...), Kids: []*gen.Box{cmt}, Overstate: lie}
		moov := &gen.Box{Type: "moov", Kids: []*gen.Box{canon}, Overstate: lie}
		out = gen.Ftyp("crx ", 1, "crx ", "isom").Serialise(0)
		out = append(out, moov.Serialise(len(out))...)
	}
	return out, fmt.Sprintf("%s lie=%d %v", kind, lie, desc), kind
}

// oversizeStrings: Exif blocks whose directories consist of string tags that each declare more bytes than the reader's
// window holds (4 KiB), many per directory, one block per APP1 segment, many segments: whatever the decoder does with
// a value it cannot read, it must not copy a window per tag.
func oversizeStrings(rt *rapid.T) ([]byte, string) {
	nseg := rapid.SampledFrom([]int{1, 8, 40, 200}).Draw(rt, "segments")
	ntags := rapid.SampledFrom([]int{1, 10, 80, 120}).Draw(rt, "tags")
	count := uint32(rapid.SampledFrom([]int{4097, 4200, 5000, 60000, 1 << 20}).Draw(rt, "count"))
	present := rapid.SampledFrom([]int{64, 4400, 4400, 6000}).Draw(rt, "present") // bytes that really follow the directory
	dup := rapid.Bool().Draw(rt, "duplicate-ids")
	ids := []uint16{0x010e, 0x010f, 0x0110, 0x0131, 0x013b, 0x8298}
	block := func() []byte {
		t := []byte("II*\x00\x08\x00\x00\x00")
		t = binary.LittleEndian.AppendUint16(t, uint16(ntags))
		after := uint32(8 + 2 + 12*ntags + 4)
		for i := 0; i < ntags; i++ {
			id := ids[i%len(ids)]
			if !dup {
				id = uint16(0x010e + i)
			}
			t = binary.LittleEndian.AppendUint16(t, id)
			t = binary.LittleEndian.AppendUint16(t, 2)
			t = binary.LittleEndian.AppendUint32(t, count)
			t = binary.LittleEndian.AppendUint32(t, after+uint32(i)) // strictly increasing: a forward-only reader accepts every one
		}
		t = binary.LittleEndian.AppendUint32(t, 0)
		return append(t, bytes.Repeat([]byte{'A'}, present)...)
	}
	var segs []gen.Seg
	for i := 0; i < nseg; i++ {
		segs = append(segs, gen.Seg{Marker: 0xE1, Payload: append([]byte(gen.ExifPrefix), block()...), Kind: "exif"})
	}
	segs = append(segs, gen.DQT())
	tail := append([]byte{0xFF, 0xDA, 0x00, 0x08, 0x01, 0x01, 0x00, 0x00, 0x3F, 0x00}, bytes.Repeat([]byte{'B'}, 8000)...)
	return gen.JPEGStream(segs, tail), fmt.Sprintf("%d segments x %d string tags of count %d, %d bytes present (duplicate ids %v)", nseg, ntags, count, present, dup)
}

// xmpLongToken: a packet in which one token (element text, attribute value, white-space run, tag name) is far longer
// than the reader's window: whatever the parser does with it, the cost must stay proportional to the packet.
func xmpLongToken(rt *rapid.T) ([]byte, string) {
	n := rapid.SampledFrom([]int{2000, 20000, 100000, 300000, 1000000}).Draw(rt, "toklen")
	where := rapid.SampledFrom([]string{"element-text", "attribute-value", "white-space", "tag-name", "array-item", "many-malformed-values", "many-tiny-items", "many-separators"}).Draw(rt, "where")
	wrap := func(inner string) []byte {
		return []byte("<x:xmpmeta xmlns:x=\"adobe:ns:meta/\"><rdf:RDF xmlns:rdf=\"http://www.w3.org/1999/02/22-rdf-syntax-ns#\"><rdf:Description rdf:about=\"\">" + inner + "</rdf:Description></rdf:RDF></x:xmpmeta>")
	}
	if where == "many-tiny-items" {
		// a list with very many items of a few bytes each, under a list property and under properties whose typed parser
		// rejects every item: the cost of an item (a list entry, a rejection) is paid per 4..17 bytes of input
		prop := rapid.SampledFrom([]string{"xmpMM:DocumentID", "xmpMM:InstanceID", "dc:subject", "dc:creator", "dc:title", "xmp:CreateDate", "exif:ISOSpeedRatings", "exif:GPSLatitude"}).Draw(rt, "listprop")
		item := rapid.SampledFrom([]string{"<rdf:li>x</rdf:li>", "<rdf:li>x", "<:>x", "<:b>x", "<a:b>"}).Draw(rt, "item")
		k := rapid.SampledFrom([]int{1000, 100000, 300000}).Draw(rt, "nitems")
		return wrap("<" + prop + "><rdf:Bag>" + strings.Repeat(item, k) + "</rdf:Bag></" + prop + ">"), fmt.Sprintf("%d x %s under %s", k, item, prop)
	}
	if where == "many-separators" {
		// values made of the separator characters the typed parsers split at
		sep := rapid.SampledFrom([]string{",", "/", ":", "-", ".", "T", " "}).Draw(rt, "sep")
		prop := rapid.SampledFrom([]string{"exif:GPSLatitude", "exif:GPSLongitude", "exif:FNumber", "exif:ExposureBiasValue", "xmp:CreateDate", "xmpMM:DocumentID", "exif:GPSAltitude"}).Draw(rt, "sepprop")
		run, k := rapid.SampledFrom([]int{100, 1000, 1400}).Draw(rt, "seprun"), rapid.SampledFrom([]int{100, 2000}).Draw(rt, "sepk")
		val := strings.Repeat(sep, run) + rapid.SampledFrom([]string{"N", "", "1"}).Draw(rt, "septail")
		if rapid.Bool().Draw(rt, "sepelem") {
			return wrap(strings.Repeat("<"+prop+">"+val+"</"+prop+">", k)), fmt.Sprintf("%d elements %s of %d x %q", k, prop, run, sep)
		}
		body := "<x:xmpmeta xmlns:x=\"adobe:ns:meta/\"><rdf:RDF xmlns:rdf=\"http://www.w3.org/1999/02/22-rdf-syntax-ns#\"><rdf:Description rdf:about=\"\" " + strings.Repeat(prop+"=\""+val+"\" ", k) + "></rdf:Description></rdf:RDF></x:xmpmeta>"
		return []byte(body), fmt.Sprintf("%d attributes %s of %d x %q", k, prop, run, sep)
	}
	if where == "many-malformed-values" {
		// very many short attributes whose values the typed parsers reject: whatever a rejection costs, it is paid per attribute
		attr := rapid.SampledFrom([]string{`xmpMM:InstanceID="x"`, `xmpMM:DocumentID="0123456789"`, `xmp:CreateDate="x"`, `exif:FNumber="1/"`, `xmp:Rating="-"`, `exif:GPSLatitude="1,2,3,4N"`}).Draw(rt, "badattr")
		k := rapid.SampledFrom([]int{1000, 50000, 150000}).Draw(rt, "nattr")
		body := "<x:xmpmeta xmlns:x=\"adobe:ns:meta/\"><rdf:RDF xmlns:rdf=\"http://www.w3.org/1999/02/22-rdf-syntax-ns#\"><rdf:Description rdf:about=\"\" " + strings.Repeat(attr+" ", k) + "></rdf:Description></rdf:RDF></x:xmpmeta>"
		return []byte(body), fmt.Sprintf("%d x %s", k, attr)
	}
	long := strings.Repeat("v", n)
	head := "<x:xmpmeta xmlns:x=\"adobe:ns:meta/\"><rdf:RDF xmlns:rdf=\"http://www.w3.org/1999/02/22-rdf-syntax-ns#\"><rdf:Description rdf:about=\"\" xmlns:dc=\"http://purl.org/dc/elements/1.1/\" xmlns:tiff=\"http://ns.adobe.com/tiff/1.0/\""
	tail := "</rdf:Description></rdf:RDF></x:xmpmeta>"
	var body string
	switch where {
	case "element-text":
		body = head + "><tiff:Make>" + long + "</tiff:Make>" + tail
	case "attribute-value":
		body = head + " tiff:Make=\"" + long + "\">" + tail
	case "white-space":
		body = head + ">" + strings.Repeat(" ", n) + "<tiff:Make>x</tiff:Make>" + tail
	case "tag-name":
		body = head + "><tiff:" + long + ">x</tiff:" + long + ">" + tail
	default:
		body = head + "><dc:description><rdf:Alt><rdf:li xml:lang=\"x-default\">" + long + "</rdf:li></rdf:Alt></dc:description>" + tail
	}
	return []byte(body), fmt.Sprintf("%s of %d bytes", where, n)
}

func genCase(rt *rapid.T) Case {
	if gen.Chance(rt, "xmp-long-token?", 0.05) {
		data, origin := xmpLongToken(rt)
		return Case{Entry: "ParseXmp", Input: data, Origin: "xmp-long-token", Ops: []string{origin}, Big: true}
	}
	if gen.Chance(rt, "oversize-strings?", 0.06) {
		data, origin := oversizeStrings(rt)
		return Case{Entry: rapid.SampledFrom([]string{"Decode", "DecodeJPEG", "ScanJPEG"}).Draw(rt, "entry"), Input: data, Origin: "oversize-strings", Ops: []string{origin}, Big: true}
	}
	if gen.Chance(rt, "lyingchain?", 0.08) {
		data, origin, kind := lyingChain(rt)
		entries := []string{"DecodeCR3", "Decode", "BMFF"}
		if kind == "heif" {
			entries = []string{"DecodeHeif", "Decode", "BMFF"}
		}
		return Case{Entry: rapid.SampledFrom(entries).Draw(rt, "entry"), Input: data, K: 4, Origin: "lying-box-chain", Ops: []string{origin}, Big: true}
	}
	if gen.Chance(rt, "manysmall?", 0.08) {
		data, origin, _ := manySmall(rt)
		return Case{Entry: rapid.SampledFrom([]string{"PreviewCR3", "BMFF", "Decode", "DecodeCR3"}).Draw(rt, "entry"), Input: data, K: 25000, Origin: "many-small-boxes", Ops: []string{origin}, Big: true}
	}
	if gen.Chance(rt, "preview?", 0.12) {
		data, origin := previewFile(rt)
		return Case{Entry: rapid.SampledFrom([]string{"PreviewCR3", "PreviewCR3", "BMFF", "Decode"}).Draw(rt, "entry"), Input: data, K: 4, Origin: "cr3-preview", Ops: []string{origin}, Big: true}
	}
	in := gen.GenInput(rt, nil)
	c := Case{Input: in.Data, Origin: in.Kind}
	if gen.Chance(rt, "entry.any", 0.1) {
		c.Entry = rapid.SampledFrom(gen.AllEntries).Draw(rt, "entry")
	} else {
		c.Entry = rapid.SampledFrom(gen.EntriesFor(in.Kind)).Draw(rt, "entryk")
	}
	switch rapid.IntRange(0, 5).Draw(rt, "mode") {
	case 0:
		c.Origin += "+asis"
	case 1, 2, 3:
		for i, n := 0, rapid.IntRange(1, 3).Draw(rt, "nfields"); i < n; i++ {
			var op string
			var ok bool
			if c.Input, op, ok = sizeField(rt, c.Input, in.Sites); ok {
				c.Ops = append(c.Ops, op)
				c.Big = true
			}
		}
		c.Origin += "+size-fields"
	default:
		c.Input, c.Ops = gen.Mutate(rt, in.Data, in.Sites)
		c.Origin += "+mutated"
		for _, op := range c.Ops {
			if strings.Contains(op, "interesting") || strings.Contains(op, "site:") {
				c.Big = true
			}
		}
	}
	return c
}

var chk = pbt.Check[Case]{Name: "allocation-bounded", Gen: genCase, Eval: eval}

func init() { pbt.Register(chk) }

func TestProp(t *testing.T) {
	defer rec.MustWrite()
	rec.Rule("inputs: repository samples and encoder output in every container with 1-3 count / size / length fields (IFD entry counts and unit counts, value offsets, box sizes incl. 64-bit, JPEG segment lengths, PNG chunk lengths, iloc / infe fields) overwritten by 2^24..2^32-1 or len(b)+-1 in either byte order, C01's hostile edits, and camera-layout CR3 files whose PRVW box states a preview size unrelated to the bytes present, or honestly holds a preview of up to 400 KB, Exif blocks inside CR3/HEIF boxes that all declare up to 2 GiB while the file ends after the IFD, with out-of-line tags of huge unit counts; and files made of 2..20000 copies of one tiny box (preview uuid+PRVW, iloc with item_count 0xFFFF, CMT1, xpacket); every entry point incl. PreviewCR3. " +
		"Each call runs in an isolated worker (GOMAXPROCS=1, 8 GiB address-space limit) after one warming call of the same entry point; oracle: runtime.MemStats.TotalAlloc delta around the call <= 4 MiB + 16 x len(b); an out-of-memory death or a makeslice panic counts as a violation. " +
		"non-trivial = the input carries >= 1 overwritten size/count field and the decode got past type identification; distinct by (entry, input)")
	rec.Assume("TotalAlloc counts every heap allocation of the process during the call; the worker runs one request at a time")
	pbt.RegressDir(t, rec)
	pbt.Run(t, rec, chk, rec.Env.Pick(6000, 200000), 1)
	rec.Extra("worker_restarts", cl.Restarts)
}

func TestReplay(t *testing.T) { pbt.Replay(t, rec) }
