// C04 — a result depends only on the bytes (or pixels) of that call: it is the
// same whatever was decoded earlier in the process, and a result that has been
// returned is never altered by later calls.
//
// A history is a sequence of steps over the process-wide state (buffer pools,
// time-zone cache, pixel pools): decode / hash calls, pool poisoning through
// the verification hooks, garbage collections. Oracles: (i) every call's
// digest equals the digest of the same call on pristine state; (ii) every value
// returned earlier is re-digested after each later step and must not change.
package c04

import (
	"bytes"
	"fmt"
	"image"
	"runtime"
	"strings"
	"testing"

	"pgregory.net/rapid"

	"github.com/evanoberholster/imagemeta/exif2"
	"github.com/evanoberholster/imagemeta/exif2/ifds"
	"github.com/evanoberholster/imagemeta/exif2/tag"
	"github.com/evanoberholster/imagemeta/imagehash"
	"github.com/evanoberholster/imagemeta/meta/utils"

	"verif/internal/digest"
	"verif/internal/ev"
	"verif/internal/gen"
	"verif/internal/imgen"
	"verif/internal/pbt"
	"verif/internal/worker"
)

var rec = ev.New("C04")

// Step is one action of a history.
type Step struct {
	Op    string      `json:"op"` // decode | hash | poison | gc
	Entry string      `json:"entry,omitempty"`
	In    int         `json:"in,omitempty"`  // index into Inputs
	Img   int         `json:"img,omitempty"` // index into Images
	Hash  string      `json:"hash,omitempty"`
	Fill  byte        `json:"fill,omitempty"`
	Tags  []PoisonTag `json:"tags,omitempty"`
	Len   uint32      `json:"len,omitempty"`
	Pos   uint32      `json:"pos,omitempty"`
	N     int         `json:"n,omitempty"`
}

type PoisonTag struct {
	ID     uint16 `json:"id"`
	Type   uint8  `json:"type"`
	Count  uint32 `json:"count"`
	Offset uint32 `json:"offset"`
	Ifd    uint8  `json:"ifd"`
	BE     bool   `json:"be"`
}

type Case struct {
	Inputs [][]byte     `json:"inputs"`
	Kinds  []string     `json:"kinds"`
	Images []imgen.Spec `json:"images"`
	Steps  []Step       `json:"steps"`
}

func resetAll() {
	exif2.VerifResetPools()
	imagehash.VerifResetPixelPools()
	worker.ResetLog()
}

func hashCall(which string, img image.Image) (string, []any) {
	var d string
	var keep []any
	func() {
		defer func() {
			if r := recover(); r != nil {
				d = fmt.Sprintf("panic: %v", r)
			}
		}()
		switch which {
		case "p64":
			h, err := imagehash.NewPHash64(img)
			d = fmt.Sprintf("%016x err=%v", uint64(h), err)
		case "p64alt":
			h, err := imagehash.NewPHash64Alt(img)
			d = fmt.Sprintf("%016x err=%v", uint64(h), err)
		case "p256":
			h, err := imagehash.NewPHash256(img)
			d = fmt.Sprintf("%016x err=%v", [4]uint64(h), err)
		case "ahash":
			h, err := imagehash.NewAHash(img)
			d = fmt.Sprintf("%v err=%v", h, err)
		case "blur":
			h, err := imagehash.EncodeBlurHashFast(img)
			d = fmt.Sprintf("%s err=%v", h, err)
		default:
			h, err := imagehash.NewPHash256Alt(img)
			d = fmt.Sprintf("%016x err=%v", [4]uint64(h), err)
		}
	}()
	return d, keep
}

// stalePatterns: what the pooled bufio readers (imagemeta, jpeg, isobmff) are left holding after a "stale-readers" step:
// 8 KiB of one repeated fragment that a look-ahead reaching past its window would mistake for structure.
var stalePatterns = [][]byte{
	[]byte("\x00\x00\x00\x06Exif\x00\x00II*\x00\x08\x00\x00\x00"), []byte("MM\x00*\x00\x00\x00\x08\x00\x01\x01\x0f\x00\x02\x00\x00\x00\x04abc\x00"), []byte("\xff\xe1\x00\x20Exif\x00\x00II*\x00\x08\x00\x00\x00"),
	[]byte("\x00\x00\x00\x10uuid\x85\xc0\xb6\x87\x82\x0f\x11\xe0"), []byte("\x00\x00\x00\x18CMT1II*\x00\x08\x00\x00\x00\x00\x00\x00\x00\x00\x00\x00\x00"), []byte("+13:59\x002024:02:29 23:59:59\x00"),
}

func staleReaders(s Step) {
	pat := stalePatterns[int(s.Fill)%len(stalePatterns)]
	junk := bytes.Repeat(pat, 8192/len(pat)+1)
	n := s.N
	if n < 1 {
		n = 1
	}
	for i := 0; i < n; i++ {
		for _, m := range [][]byte{[]byte("\xff\xd8"), []byte("\x00\x00\x00\x18ftypcrx \x00\x00\x00\x01crx isom"), []byte("\x00\x00\x00\x18ftypheic\x00\x00\x00\x00mif1heic"), []byte("\x89PNG\r\n\x1a\n"), nil} {
			in := append(append([]byte{}, m...), junk...)
			for _, e := range []string{"Decode", "ScanJPEG", "BMFF", "ItScan"} {
				worker.Exec(worker.Req{Entry: e, Input: in})
			}
		}
	}
}

func poison(s Step) {
	tags := make([]exif2.Tag, 0, len(s.Tags))
	for _, t := range s.Tags {
		bo := utils.LittleEndian
		if t.BE {
			bo = utils.BigEndian
		}
		tags = append(tags, exif2.NewTag(tag.ID(t.ID), tag.Type(t.Type), t.Count, t.Offset, ifds.IfdType(t.Ifd), 0, bo))
	}
	n := s.N
	if n < 1 {
		n = 2
	}
	exif2.VerifPoisonPool(n, s.Fill, tags, s.Len, s.Pos)
	f := float64(s.Fill)
	imagehash.VerifPoisonPixelPools(n, func(i int) float64 { return f*257 - float64(i%97) }, func(i int) float32 { return float32(f*257) - float32(i%89) })
}

type kept struct {
	vals  []any
	dig   string
	where string
}

func redigest(vals []any) string {
	var sb strings.Builder
	for _, v := range vals {
		sb.WriteString(digest.Of(v))
	}
	return sb.String()
}

var pristineCache = map[uint64]string{}

func pristine(key uint64, f func() string) string {
	if d, ok := pristineCache[key]; ok {
		return d
	}
	resetAll()
	d := f()
	if len(pristineCache) > 20000 {
		pristineCache = map[uint64]string{}
	}
	pristineCache[key] = d
	return d
}

func eval(c Case) (f *pbt.Fail) {
	defer func() {
		if r := recover(); r != nil {
			f = pbt.Failf("panic", "history panicked: %v", r)
		}
		resetAll()
	}()
	imgs := make([]image.Image, len(c.Images))
	for i, s := range c.Images {
		imgs[i] = s.Build()
	}
	// pristine results first (each on fresh state)
	type callKey struct{ kind, a, b string }
	want := map[string]string{}
	for _, s := range c.Steps {
		switch s.Op {
		case "decode":
			if s.In >= len(c.Inputs) {
				continue
			}
			k := "d/" + s.Entry + "/" + fmt.Sprint(s.In)
			if _, ok := want[k]; !ok {
				in := c.Inputs[s.In]
				want[k] = pristine(ev.Hash([]byte("decode"), []byte(s.Entry), in), func() string {
					r := worker.Exec(worker.Req{Entry: s.Entry, Input: in})
					return r.Digest + "\nerr=" + r.Err + "\npanic=" + r.Panic
				})
			}
		case "hash":
			if s.Img >= len(imgs) {
				continue
			}
			k := "h/" + s.Hash + "/" + fmt.Sprint(s.Img)
			if _, ok := want[k]; !ok {
				img := imgs[s.Img]
				want[k] = pristine(ev.HashS("hash", s.Hash, fmt.Sprint(c.Images[s.Img])), func() string { d, _ := hashCall(s.Hash, img); return d })
			}
		}
	}
	resetAll()
	var held []kept
	touched := false
	for si, s := range c.Steps {
		switch s.Op {
		case "gc":
			runtime.GC()
		case "poison":
			poison(s)
		case "stale-readers":
			staleReaders(s)
		case "decode":
			if s.In >= len(c.Inputs) {
				continue
			}
			before := exif2.VerifNewBuffers()
			r := worker.Exec(worker.Req{Entry: s.Entry, Input: c.Inputs[s.In]})
			if exif2.VerifNewBuffers() == before {
				touched = true // ran on a pooled (possibly poisoned) buffer
			}
			got := r.Digest + "\nerr=" + r.Err + "\npanic=" + r.Panic
			if w := want["d/"+s.Entry+"/"+fmt.Sprint(s.In)]; got != w {
				return pbt.Failf("history:"+s.Entry, "step %d: %s on input #%d (%s, %d bytes) returns something else after this history than on pristine state: %s\nhistory: %s",
					si, s.Entry, s.In, c.Kinds[s.In], len(c.Inputs[s.In]), firstDiff(w, got), describe(c.Steps[:si+1]))
			}
			if len(worker.LastValues) > 0 {
				vals := append([]any(nil), worker.LastValues...)
				held = append(held, kept{vals, redigest(vals), fmt.Sprintf("step %d %s(#%d)", si, s.Entry, s.In)})
			}
		case "hash":
			if s.Img >= len(imgs) {
				continue
			}
			got, _ := hashCall(s.Hash, imgs[s.Img])
			if w := want["h/"+s.Hash+"/"+fmt.Sprint(s.Img)]; got != w {
				return pbt.Failf("history:hash:"+s.Hash, "step %d: %s of image #%d (%dx%d %s) is %s after this history and %s on pristine state\nhistory: %s",
					si, s.Hash, s.Img, c.Images[s.Img].W, c.Images[s.Img].H, c.Images[s.Img].Kind, got, w, describe(c.Steps[:si+1]))
			}
		}
		for _, k := range held {
			if d := redigest(k.vals); d != k.dig {
				return pbt.Failf("retained", "the value returned by %s changed after step %d (%s): %s", k.where, si, s.Op, firstDiff(k.dig, d))
			}
		}
		if len(held) > 6 {
			held = held[len(held)-6:]
		}
	}
	lastTouched = touched
	return nil
}

var lastTouched bool

func describe(steps []Step) string {
	var s []string
	for _, st := range steps {
		switch st.Op {
		case "decode":
			s = append(s, fmt.Sprintf("%s(#%d)", st.Entry, st.In))
		case "hash":
			s = append(s, fmt.Sprintf("%s(img#%d)", st.Hash, st.Img))
		case "stale-readers":
			s = append(s, fmt.Sprintf("stale-readers(pattern %d x%d)", int(st.Fill)%len(stalePatterns), st.N))
		case "poison":
			s = append(s, fmt.Sprintf("poison(fill %#x, %d tags, len %d, pos %d)", st.Fill, len(st.Tags), st.Len, st.Pos))
		default:
			s = append(s, st.Op)
		}
	}
	return strings.Join(s, " ; ")
}

func firstDiff(a, b string) string {
	la, lb := strings.Split(a, "\n"), strings.Split(b, "\n")
	for i := 0; i < len(la) && i < len(lb); i++ {
		if la[i] != lb[i] {
			return fmt.Sprintf("pristine %q vs now %q", la[i], lb[i])
		}
	}
	return fmt.Sprintf("%d vs %d lines", len(la), len(lb))
}

// ------------------------------------------------------------- generator ----

// misSized: a TIFF in which fields the decoder expects out of line are given
// a count that makes them fit the 4-byte slot, next to well-formed ones.
func misSized(rt *rapid.T) []byte {
	f := gen.GenExif(rt, gen.Options{Unbuffered: true, MaxForeign: 1})
	b := append([]byte{}, f.Enc.II...)
	for _, st := range f.Enc.Sites {
		if strings.HasSuffix(st.Name, ".count") && strings.Contains(st.Name, ".entry[") && st.Off+4 <= len(b) && gen.Chance(rt, "shrink?", 0.35) {
			v := uint32(rapid.SampledFrom([]int{0, 1, 2, 3, 4}).Draw(rt, "newcount"))
			b[st.Off], b[st.Off+1], b[st.Off+2], b[st.Off+3] = byte(v), 0, 0, 0
		}
	}
	return b
}

// embeddedOnly: a small directory whose entries all fit their slots (the pending list stays empty or holds one tag),
// whole or cut right before / inside the next-IFD pointer: what the reader does there must not depend on
// tags an earlier decode left behind in the pooled buffer.
func embeddedOnly(rt *rapid.T) []byte {
	n := rapid.IntRange(1, 4).Draw(rt, "n")
	b := []byte("II*\x00\x08\x00\x00\x00")
	b = append(b, byte(n), 0)
	ids := []uint16{0x0112, 0x0100, 0x0101, 0x0128, 0x0103}
	for i := 0; i < n; i++ {
		id := ids[i%len(ids)]
		b = append(b, byte(id), byte(id>>8), 3, 0, 1, 0, 0, 0, byte(rapid.IntRange(1, 8).Draw(rt, "v")), 0, 0, 0)
	}
	if rapid.Bool().Draw(rt, "onePending") { // one out-of-line value after the table
		off := uint32(len(b) + 12 + 4)
		b[8]++
		b = append(b, 0x31, 0x01, 2, 0, 8, 0, 0, 0, byte(off), byte(off>>8), 0, 0)
		b = append(b, 0, 0, 0, 0)
		b = append(b, "abcdefg\x00"...)
		return b[:len(b)-rapid.SampledFrom([]int{0, 0, 8, 9, 10, 12}).Draw(rt, "cut1")]
	}
	b = append(b, 0, 0, 0, 0)
	b = append(b, make([]byte, 40)...)
	return b[:len(b)-rapid.SampledFrom([]int{0, 0, 40, 41, 42, 43, 44}).Draw(rt, "cut")]
}

// cutInsideValue: a bare block that ends in the middle of one of its out-of-line values (what a failed
// read leaves in the scratch buffer must not reach the result).
func cutInsideValue(rt *rapid.T) []byte {
	f := gen.GenExif(rt, gen.Options{Unbuffered: true, MaxForeign: 1, PlainStrings: true})
	b := f.Enc.II
	if rapid.Bool().Draw(rt, "mm") {
		b = f.Enc.MM
	}
	var offs []int
	for _, o := range f.Enc.ValueOff {
		if o > 8 && o < len(b) {
			offs = append(offs, o)
		}
	}
	if len(offs) == 0 {
		return b[:len(b)/2]
	}
	sortInts(offs)
	cut := offs[rapid.IntRange(0, len(offs)-1).Draw(rt, "which")] + rapid.IntRange(1, 6).Draw(rt, "into")
	if cut > len(b) {
		cut = len(b)
	}
	return b[:cut]
}

func sortInts(a []int) {
	for i := 1; i < len(a); i++ {
		for j := i; j > 0 && a[j] < a[j-1]; j-- {
			a[j], a[j-1] = a[j-1], a[j]
		}
	}
}

func zoneFile(rt *rapid.T) []byte {
	// the same local time with different spellings of the zone offset
	r := gen.GenRecord(rt, gen.Options{NoGPS: true, PlainStrings: true})
	_ = r
	f := gen.GenExif(rt, gen.Options{Unbuffered: true, MaxForeign: 0})
	b := append([]byte{}, f.Enc.II...)
	// rewrite every "+hh:mm" / "-hh:mm" offset string into one of the zero spellings or a same-hour variant
	for i := 0; i+7 <= len(b); i++ {
		if (b[i] == '+' || b[i] == '-') && b[i+3] == ':' && b[i+6] == 0 && isDigit(b[i+1]) && isDigit(b[i+2]) && isDigit(b[i+4]) && isDigit(b[i+5]) {
			copy(b[i:], rapid.SampledFrom([]string{"+00:00", "-00:00", "+05:00", "+05:30", "+05:45", "-03:30", "-03:00", "+01:60", "+02:00"}).Draw(rt, "zone"))
		}
	}
	return b
}

func isDigit(c byte) bool { return c >= '0' && c <= '9' }

var knownIDs = []uint16{0x010f, 0x0110, 0x0132, 0x9003, 0x9004, 0x9010, 0x9011, 0x829a, 0x829d, 0x920a, 0xa432, 0x8769, 0x8825, 0x014a, 0x927c, 2, 4, 7, 0x1d}

func genCase(rt *rapid.T) Case {
	var c Case
	n := rapid.IntRange(3, 8).Draw(rt, "ninputs")
	for i := 0; i < n; i++ {
		var data []byte
		kind := ""
		switch rapid.IntRange(0, 9).Draw(rt, "inputclass") {
		case 9:
			data, kind = cutInsideValue(rt), "tiff"
		case 8:
			data, kind = embeddedOnly(rt), "tiff"
		case 0:
			data, kind = misSized(rt), "tiff"
		case 1:
			data, kind = zoneFile(rt), "tiff"
		case 2:
			in := gen.GenInput(rt, nil)
			data, kind = in.Data[:rapid.IntRange(0, len(in.Data)).Draw(rt, "trunc")], in.Kind
		case 3:
			in := gen.GenInput(rt, nil)
			data, _ = gen.Mutate(rt, in.Data, in.Sites)
			kind = in.Kind
		default:
			in := gen.GenInput(rt, nil)
			data, kind = in.Data, in.Kind
		}
		if len(data) > 40000 {
			data = data[:40000]
		}
		c.Inputs = append(c.Inputs, data)
		c.Kinds = append(c.Kinds, kind)
	}
	for i, k := 0, rapid.IntRange(1, 3).Draw(rt, "nimages"); i < k; i++ {
		sz := rapid.SampledFrom([]int{64, 64, 64, 256, 63, 65, 32, 128}).Draw(rt, "imgsize")
		s := imgen.Spec{Kind: rapid.SampledFrom([]string{"rgba", "gray", "ycbcr", "nrgba"}).Draw(rt, "imgkind"), W: sz, H: sz, Content: rapid.SampledFrom([]string{"noise", "smooth", "blocks"}).Draw(rt, "content"), Seed: rapid.Uint32().Draw(rt, "seed"), Ratio: "444", Transp: rapid.IntRange(0, 2).Draw(rt, "transparent") == 0}
		if rapid.IntRange(0, 5).Draw(rt, "nonsquare") == 0 {
			s.H = rapid.SampledFrom([]int{1, 32, 63, 64, 100}).Draw(rt, "h")
		}
		c.Images = append(c.Images, s)
	}
	steps := rapid.IntRange(4, 30).Draw(rt, "nsteps")
	for i := 0; i < steps; i++ {
		switch k := rapid.IntRange(0, 9).Draw(rt, "op"); {
		case k <= 5:
			in := rapid.IntRange(0, len(c.Inputs)-1).Draw(rt, "in")
			entry := ""
			if gen.Chance(rt, "entry.any", 0.15) {
				entry = rapid.SampledFrom(gen.AllEntries).Draw(rt, "entry")
			} else {
				entry = rapid.SampledFrom(gen.EntriesFor(c.Kinds[in])).Draw(rt, "entryk")
			}
			c.Steps = append(c.Steps, Step{Op: "decode", Entry: entry, In: in})
		case k == 6:
			c.Steps = append(c.Steps, Step{Op: "hash", Img: rapid.IntRange(0, len(c.Images)-1).Draw(rt, "img"), Hash: rapid.SampledFrom([]string{"p64", "p64alt", "p256", "p256alt", "ahash", "blur"}).Draw(rt, "hash")})
		case k <= 8:
			st := Step{Op: "poison", Fill: rapid.SampledFrom([]byte{0xA5, 0x00, 0xFF, '0', ':', '+', 0x20}).Draw(rt, "fill"), N: rapid.IntRange(1, 4).Draw(rt, "pn"),
				Len: uint32(rapid.SampledFrom([]int{0, 1, 2, 40, 83, 84}).Draw(rt, "plen")), Pos: uint32(rapid.SampledFrom([]int{0, 1, 2, 39, 83}).Draw(rt, "ppos"))}
			for j, m := 0, rapid.IntRange(0, 6).Draw(rt, "ntags"); j < m; j++ {
				st.Tags = append(st.Tags, PoisonTag{ID: rapid.SampledFrom(knownIDs).Draw(rt, "tid"), Type: rapid.SampledFrom([]uint8{1, 2, 3, 4, 5, 7, 10, 0xf1}).Draw(rt, "ttype"),
					Count: uint32(rapid.SampledFrom([]int{0, 1, 2, 4, 6, 20, 1000}).Draw(rt, "tcount")), Offset: uint32(rapid.SampledFrom([]int{0, 1, 8, 26, 100, 300, 1000, 1 << 30}).Draw(rt, "toff")),
					Ifd: rapid.SampledFrom([]uint8{1, 3, 4, 12, 6}).Draw(rt, "tifd"), BE: rapid.Bool().Draw(rt, "tbe")})
			}
			c.Steps = append(c.Steps, st)
		default:
			if rapid.Bool().Draw(rt, "stale?") {
				c.Steps = append(c.Steps, Step{Op: "stale-readers", Fill: byte(rapid.IntRange(0, len(stalePatterns)-1).Draw(rt, "pattern")), N: rapid.IntRange(1, 3).Draw(rt, "sn")})
			} else {
				c.Steps = append(c.Steps, Step{Op: "gc"})
			}
		}
	}
	return c
}

func evalCounted(c Case) *pbt.Fail {
	lastTouched = false
	f := eval(c)
	decodes, poisons := 0, 0
	distinctIn := map[int]bool{}
	for _, s := range c.Steps {
		if s.Op == "decode" {
			decodes++
			distinctIn[s.In] = true
		}
		if s.Op == "poison" {
			poisons++
		}
	}
	nt := lastTouched && decodes >= 2 && (poisons > 0 || len(distinctIn) >= 2)
	var key []byte
	for _, in := range c.Inputs {
		key = append(key, byte(len(in)), byte(len(in)>>8))
		if len(in) > 16 {
			key = append(key, in[len(in)-16:]...)
		}
	}
	rec.Case(nt, ev.Hash(key, []byte(describe(c.Steps))), fmt.Sprintf("pooled-buffer-reused:%v", lastTouched), fmt.Sprintf("has-poison:%v", poisons > 0), fmt.Sprintf("steps>=10:%v", len(c.Steps) >= 10))
	if nt && len(c.Steps) <= 12 {
		rec.Sample("history", map[string]any{"history": describe(c.Steps), "input_kinds": c.Kinds, "images": c.Images})
	}
	return f
}

var chk = pbt.Check[Case]{Name: "no-state-leak", Gen: genCase, Eval: evalCounted}

func init() { pbt.Register(chk) }

func TestProp(t *testing.T) {
	defer rec.MustWrite()
	rec.Rule("histories of 4-30 steps over one process: decode(entry, input) with every entry point over a per-history pool of 3-8 inputs (well-formed files of every container, truncated and hostile-edited ones, TIFFs whose out-of-line fields are given counts that fit the 4-byte slot, TIFFs whose zone-offset strings are respelled: +00:00 / -00:00 / same-hour variants, tiny directories with an empty or one-entry pending list cut at the next-IFD pointer, blocks that end inside an out-of-line value), " +
		"hash(image, function) over right- and wrong-size images, poison (verification hook: the Exif buffer pool is refilled with buffers whose scratch area, 84-entry tag array, len and pos are hostile; the pixel pools with other data), stale-readers (the pooled bufio readers of imagemeta, jpeg and isobmff are left holding 8 KiB of a repeated structure-like fragment: Exif item prefix, TIFF header + entry, APP1 header, uuid / CMT1 box header, zone and date strings), gc. " +
		"oracle: (i) every call's digest (value, error, panic) equals the digest of the same call on pristine state (fresh pools, empty zone cache), computed once per (entry, input); (ii) every returned value is kept and re-digested after each later step: it must not change. " +
		"non-trivial = the history ran at least one decode on a pooled buffer (no new buffer allocated) and has >= 2 decodes with a poison step or >= 2 distinct inputs; distinct by history")
	rec.Assume("single goroutine; sync.Pool hand-out is therefore deterministic enough for the hook's allocation counter to tell whether a pooled buffer was reused")
	pbt.RegressDir(t, rec)
	pbt.Run(t, rec, chk, rec.Env.Pick(400, 30000), 1)
}

func TestReplay(t *testing.T) { pbt.Replay(t, rec) }
