// C10 — JPEG segment framing: the Exif callback gets a header that describes
// exactly the APP1 Exif payload, the XMP callback a reader that yields exactly
// the XMP packet; whatever the XMP callback consumes, scanning resumes at the
// next marker with correct absolute offsets; non-metadata segments are never
// mistaken for metadata; the caller's reader is left just after the DQT segment.
//
// Oracle: the byte-offset model computed by the stream writer.
package c10

import (
	"bufio"
	"bytes"
	"encoding/binary"
	"fmt"
	"io"
	"testing"
	"time"

	"pgregory.net/rapid"

	"github.com/evanoberholster/imagemeta/exif2"
	"github.com/evanoberholster/imagemeta/jpeg"
	"github.com/evanoberholster/imagemeta/meta"
	"github.com/evanoberholster/imagemeta/meta/utils"

	"verif/internal/digest"
	"verif/internal/ev"
	"verif/internal/gen"
	"verif/internal/pbt"
)

var rec = ev.New("C10")

// Case: a marker stream and the behaviour of the two callbacks.
type Case struct {
	Segs     []gen.Seg `json:"segments"` // between SOI and the terminating DQT
	Tail     []byte    `json:"tail"`     // after the DQT segment (>= 64 bytes)
	XMPRead  string    `json:"xmp_read"` // nothing | part | all | all-odd | nil-callback
	XMPPart  int       `json:"xmp_part,omitempty"`
	ExifRead string    `json:"exif_read"` // pieces | library | nil-callback
	Pieces   []int     `json:"pieces,omitempty"`
	BufSize  int       `json:"bufio_size"`     // size of the caller's bufio.Reader (>= 4096 is adopted by the scanner)
	Fill     bool      `json:"fill,omitempty"` // extended: 0xFF fill bytes before markers
	// TermDHT: a Huffman table (DHT) segment sits between the last generated segment and the quantisation table
	TermDHT bool `json:"term_dht,omitempty"`
}

type exifCall struct {
	H    meta.ExifHeader
	Data []byte
	Err  string
}

type model struct {
	exif   []exifCall // expected calls
	xmp    [][]byte   // expected packets
	endOff int        // stream offset just after the DQT segment
	stream []byte
}

func build(c Case) model {
	var m model
	segs := append([]gen.Seg{}, c.Segs...)
	if c.TermDHT { // a Huffman table in front of the quantisation table, after the last metadata segment
		segs = append(segs, gen.Seg{Marker: 0xC4, Payload: append([]byte{0x00, 0, 1, 5, 1, 1, 1, 1, 1, 1, 0, 0, 0, 0, 0, 0, 0}, []byte{0, 1, 2, 3, 4, 5, 6, 7, 8, 9, 10, 11}...), Kind: "other"})
	}
	segs = append(segs, gen.DQT())
	out := []byte{0xFF, 0xD8}
	for _, s := range segs {
		if !c.Fill {
			s.Fill = 0
		}
		start := len(out) + s.Fill
		out = append(out, gen.SegBytes(s)...)
		switch s.Kind {
		case "exif":
			tiff := s.Payload[6:]
			bo := utils.BinaryOrder(tiff)
			var first uint32
			if bo == utils.BigEndian {
				first = binary.BigEndian.Uint32(tiff[4:8])
			} else {
				first = binary.LittleEndian.Uint32(tiff[4:8])
			}
			h := meta.ExifHeader{ByteOrder: bo, FirstIfdOffset: first, TiffHeaderOffset: uint32(start + 10), ExifLength: uint32(len(tiff))}
			m.exif = append(m.exif, exifCall{H: h, Data: tiff})
		case "xmp":
			m.xmp = append(m.xmp, s.Payload[len(gen.XMPPrefix):])
		}
	}
	m.endOff = len(out)
	m.stream = append(out, c.Tail...)
	return m
}

func eval(c Case) (f *pbt.Fail) {
	defer func() {
		if r := recover(); r != nil {
			f = pbt.Failf("panic", "harness or scanner panicked: %v", r)
		}
	}()
	m := build(c)
	size := c.BufSize
	if size < 4096 {
		size = 4096
	}
	br := bufio.NewReaderSize(bytes.NewReader(m.stream), size)
	var gotExif []exifCall
	var gotXMP [][]byte
	var xmpAfterEOF []string
	ir := exif2.NewIfdReader(exif2.Logger)
	defer ir.Close()
	var exifCB func(r io.Reader, h meta.ExifHeader) error
	switch c.ExifRead {
	case "nil-callback":
	case "library":
		exifCB = func(r io.Reader, h meta.ExifHeader) error {
			gotExif = append(gotExif, exifCall{H: h})
			return ir.DecodeJPEGIfd(r, h)
		}
	default:
		exifCB = func(r io.Reader, h meta.ExifHeader) error {
			data := make([]byte, 0, h.ExifLength)
			pi := 0
			for uint32(len(data)) < h.ExifLength {
				n := int(h.ExifLength) - len(data)
				if len(c.Pieces) > 0 {
					if p := c.Pieces[pi%len(c.Pieces)]; p > 0 && p < n {
						n = p
					}
					pi++
				}
				buf := make([]byte, n)
				k, err := io.ReadFull(r, buf)
				data = append(data, buf[:k]...)
				if err != nil {
					gotExif = append(gotExif, exifCall{H: h, Data: data, Err: err.Error()})
					return nil
				}
			}
			gotExif = append(gotExif, exifCall{H: h, Data: data})
			return nil
		}
	}
	var xmpCB func(r io.Reader) error
	if c.XMPRead != "nil-callback" {
		xmpCB = func(r io.Reader) error {
			var data []byte
			switch c.XMPRead {
			case "nothing":
			case "part":
				buf := make([]byte, c.XMPPart)
				k, _ := io.ReadFull(r, buf)
				data = buf[:k]
			case "all-odd":
				for {
					buf := make([]byte, 1+len(data)%7)
					k, err := r.Read(buf)
					data = append(data, buf[:k]...)
					if err != nil {
						break
					}
				}
			default:
				data, _ = io.ReadAll(r)
				var one [1]byte
				if k, err := r.Read(one[:]); k != 0 || err != io.EOF {
					xmpAfterEOF = append(xmpAfterEOF, fmt.Sprintf("Read after the end of packet %d returned (%d, %v)", len(gotXMP), k, err))
				}
			}
			gotXMP = append(gotXMP, data)
			return nil
		}
	}
	done := make(chan error, 1)
	go func() { done <- jpeg.ScanJPEG(br, exifCB, xmpCB) }()
	var err error
	select {
	case err = <-done:
	case <-time.After(30 * time.Second): // nominal: well under a millisecond
		return pbt.Failf("hang", "ScanJPEG did not return within 30 s on a well-formed %d-byte marker stream (%d segments, exif callback %s, xmp callback %s)", len(m.stream), len(c.Segs), c.ExifRead, c.XMPRead)
	}
	desc := fmt.Sprintf("%d segments, exif callback %s, xmp callback %s", len(c.Segs), c.ExifRead, c.XMPRead)
	if err != nil {
		return pbt.Failf("error", "ScanJPEG returned %v on a well-formed marker stream (%s)", err, desc)
	}
	// callbacks: exactly the metadata segments, in order
	wantExif := m.exif
	if c.ExifRead == "nil-callback" {
		wantExif = nil
	}
	if len(gotExif) != len(wantExif) {
		return pbt.Failf("exif-count", "the Exif callback ran %d times, the stream has %d APP1 Exif segments (%s)", len(gotExif), len(wantExif), desc)
	}
	for i, w := range wantExif {
		g := gotExif[i]
		if g.H.ByteOrder != w.H.ByteOrder || g.H.FirstIfdOffset != w.H.FirstIfdOffset || g.H.ExifLength != w.H.ExifLength {
			return pbt.Failf("exif-header", "Exif segment %d: callback header {order %v, first IFD %d, length %d}, the segment holds {order %v, first IFD %d, length %d} (%s)",
				i, g.H.ByteOrder, g.H.FirstIfdOffset, g.H.ExifLength, w.H.ByteOrder, w.H.FirstIfdOffset, w.H.ExifLength, desc)
		}
		if g.H.TiffHeaderOffset != w.H.TiffHeaderOffset {
			return pbt.Failf("exif-offset", "Exif segment %d: callback reports the TIFF header at absolute offset %d, it is at %d (%s)", i, g.H.TiffHeaderOffset, w.H.TiffHeaderOffset, desc)
		}
		if c.ExifRead != "library" {
			if g.Err != "" || !bytes.Equal(g.Data, w.Data) {
				return pbt.Failf("exif-bytes", "Exif segment %d: reading the declared %d bytes inside the callback gave %d bytes (err %q) that %s the segment's TIFF block (%s)",
					i, w.H.ExifLength, len(g.Data), g.Err, map[bool]string{true: "equal", false: "differ from"}[bytes.Equal(g.Data, w.Data)], desc)
			}
		}
	}
	wantXMP := m.xmp
	if c.XMPRead == "nil-callback" {
		wantXMP = nil
	}
	if len(gotXMP) != len(wantXMP) {
		return pbt.Failf("xmp-count", "the XMP callback ran %d times, the stream has %d APP1 XMP segments (%s)", len(gotXMP), len(wantXMP), desc)
	}
	for i, w := range wantXMP {
		g := gotXMP[i]
		switch c.XMPRead {
		case "nothing":
		case "part":
			n := c.XMPPart
			if n > len(w) {
				n = len(w)
			}
			if !bytes.Equal(g, w[:n]) {
				return pbt.Failf("xmp-bytes", "XMP segment %d: the first %d bytes readable in the callback differ from the packet (%s)", i, n, desc)
			}
		default:
			if !bytes.Equal(g, w) {
				return pbt.Failf("xmp-bytes", "XMP segment %d: the callback's reader yielded %d bytes, the packet has %d; equal prefix %d (%s)", i, len(g), len(w), commonPrefix(g, w), desc)
			}
		}
	}
	if len(xmpAfterEOF) > 0 {
		return pbt.Failf("xmp-eof", "%s (%s)", xmpAfterEOF[0], desc)
	}
	// the caller's reader stands just after the DQT segment
	rest, _ := io.ReadAll(br)
	if pos := len(m.stream) - len(rest); pos != m.endOff || !bytes.Equal(rest, m.stream[m.endOff:]) {
		return pbt.Failf("position", "after the scan the caller's bufio.Reader stands at stream offset %d; the terminating DQT segment ends at %d (%s)", pos, m.endOff, desc)
	}
	if c.ExifRead == "library" && len(m.exif) == 1 {
		// the library's own reader, fed through the scanner, decodes what a direct decode of the block gives
		want, err := exif2.Parse(bytes.NewReader(append(append([]byte{}, m.exif[0].Data...), make([]byte, 64)...)))
		if err == nil {
			a, b := maskType(digest.Of(ir.Exif)), maskType(digest.Of(want))
			if a != b {
				return pbt.Failf("library-decode", "decoding through the scanner differs from decoding the same TIFF block directly (%s)", desc)
			}
		}
	}
	return nil
}

func maskType(d string) string {
	var out []byte
	for _, ln := range bytes.Split([]byte(d), []byte("\n")) {
		if bytes.Contains(ln, []byte("ImageType")) {
			continue
		}
		out = append(append(out, ln...), '\n')
	}
	return string(out)
}

func commonPrefix(a, b []byte) int {
	n := 0
	for n < len(a) && n < len(b) && a[n] == b[n] {
		n++
	}
	return n
}

func exifSeg(rt *rapid.T, library bool) gen.Seg {
	var tiff []byte
	if library {
		f := gen.GenExif(rt, gen.Options{Unbuffered: true, MaxForeign: 2})
		tiff = f.Enc.II
		if rapid.Bool().Draw(rt, "mm") {
			tiff = f.Enc.MM
		}
		if n := len(tiff) - f.Enc.Tail; f.Enc.Tail > 0 && rapid.Bool().Draw(rt, "exact") {
			tiff = tiff[:n]
		}
		if len(tiff) > 60000 {
			tiff = tiff[:60000]
		}
	} else {
		first := rapid.SampledFrom([]uint32{8, 8, 9, 16, 100, 0x01020304}).Draw(rt, "firstifd")
		tiff = make([]byte, 8)
		if rapid.Bool().Draw(rt, "mm") {
			copy(tiff, "MM\x00*")
			binary.BigEndian.PutUint32(tiff[4:], first)
		} else {
			copy(tiff, "II*\x00")
			binary.LittleEndian.PutUint32(tiff[4:], first)
		}
		body := rapid.SliceOfN(rapid.Byte(), 0, 900).Draw(rt, "tiffbody")
		if len(body) > 12 && rapid.Bool().Draw(rt, "thumb") { // an embedded thumbnail: SOI ... EOI inside the payload
			copy(body[4:], []byte{0xFF, 0xD8, 0xFF, 0xE1, 0x00, 0x08})
			copy(body[len(body)-2:], []byte{0xFF, 0xD9})
		}
		tiff = append(tiff, body...)
	}
	return gen.Seg{Marker: 0xE1, Payload: append([]byte(gen.ExifPrefix), tiff...), Kind: "exif"}
}

func xmpSeg(rt *rapid.T) gen.Seg {
	n := rapid.SampledFrom([]int{0, 1, 2, 30, 100, 1000, 4000, 4067, 4096, 5000, 9000, 65000}).Draw(rt, "xmplen")
	if n > 0 && n < 65000 {
		n += rapid.IntRange(0, 5).Draw(rt, "xd")
	}
	pkt := make([]byte, n)
	alpha := []byte("<x:xmpmeta rdf:Description=\"abc\"/>\n \xff\xd8\xff\xe1\x00")
	seed := rapid.IntRange(0, 1<<20).Draw(rt, "xmpseed")
	for i := range pkt {
		pkt[i] = alpha[(i*7+seed+i/13)%len(alpha)]
	}
	return gen.Seg{Marker: 0xE1, Payload: append([]byte(gen.XMPPrefix), pkt...), Kind: "xmp"}
}

func genWith(fill bool) func(rt *rapid.T) Case {
	return func(rt *rapid.T) Case {
		c := Case{Fill: fill}
		c.ExifRead = rapid.SampledFrom([]string{"pieces", "pieces", "library", "nil-callback"}).Draw(rt, "exifread")
		c.XMPRead = rapid.SampledFrom([]string{"nothing", "part", "part", "all", "all-odd", "nil-callback"}).Draw(rt, "xmpread")
		if c.XMPRead == "part" {
			c.XMPPart = rapid.SampledFrom([]int{1, 2, 29, 100, 4095, 4096, 4097, 10000}).Draw(rt, "xmppart")
		}
		if c.ExifRead == "pieces" {
			c.Pieces = rapid.SliceOfN(rapid.SampledFrom([]int{1, 2, 3, 7, 8, 64, 1000, 4096, 5000}), 0, 4).Draw(rt, "pieces")
		}
		c.BufSize = rapid.SampledFrom([]int{4096, 4096, 8192, 65536}).Draw(rt, "bufsize")
		c.TermDHT = gen.Chance(rt, "term-dht", 0.2)
		n := rapid.IntRange(0, 12).Draw(rt, "nsegs")
		nExif, nXMP, before := 0, 0, 0
		for i := 0; i < n; i++ {
			var s gen.Seg
			switch k := rapid.IntRange(0, 9).Draw(rt, "segkind"); {
			case k <= 1 && nExif < 2:
				s = exifSeg(rt, c.ExifRead == "library")
				nExif++
			case k <= 3 && nXMP < 2:
				s = xmpSeg(rt)
				nXMP++
			case k == 4:
				s = gen.Seg{Marker: 0xE1, Payload: append([]byte(gen.XMPExtPrefix), rapid.SliceOfN(rapid.Byte(), 40, 300).Draw(rt, "xmpext")...), Kind: "xmpext"}
			case k == 5 && gen.Chance(rt, "exifstub?", 0.5):
				// an APP1 segment that carries the Exif identifier and less than a TIFF header (0..7 bytes): it holds no Exif
				// block, and the eight bytes a reader would take for the header belong to the next segment
				stub := []byte("II*\x00\x08\x00\x00\x00")[:rapid.IntRange(0, 7).Draw(rt, "stublen")]
				s = gen.Seg{Marker: 0xE1, Payload: append([]byte(gen.ExifPrefix), stub...), Kind: "exifstub"}
			case k == 5:
				s = gen.Seg{Marker: byte(rapid.SampledFrom([]int{0xC0, 0xC1, 0xC2}).Draw(rt, "sof")), Payload: []byte{8, 0, 16, 0, 16, 1, 1, 0x11, 0}, Kind: "sof"}
			case k == 6 && gen.Chance(rt, "maxlen?", 0.4):
				// a segment at and just below the largest length a 16-bit length field can state, full of marker look-alikes
				n := rapid.SampledFrom([]int{65533, 65533, 65532, 65531, 65530, 65279, 32768, 32767}).Draw(rt, "maxlen")
				p := make([]byte, n)
				pat := append(append([]byte{0xFF, 0xE1, 0x00, 0x20}, gen.ExifPrefix...), []byte("II*\x00\x08\x00\x00\x00\xFF\xDB\x00\x43\xFF\xD9\xFF\xD8zz")...)
				for i := range p {
					p[i] = pat[i%len(pat)]
				}
				s = gen.Seg{Marker: rapid.SampledFrom([]byte{0xE0, 0xE2, 0xE5, 0xED, 0xEF, 0xFE}).Draw(rt, "maxm"), Payload: p, Kind: "other"}
			default:
				s = gen.OtherSeg(rt, "other")
			}
			if fill {
				s.Fill = rapid.IntRange(0, 3).Draw(rt, "fill")
				if rapid.IntRange(0, 5).Draw(rt, "longfill?") == 0 {
					// runs as long as the scanner's 64-byte look-ahead and its multiples (any number of fill bytes is legal)
					s.Fill = rapid.SampledFrom([]int{61, 62, 63, 64, 65, 126, 127, 128, 129, 191, 192, 255, 256, 1000}).Draw(rt, "longfill")
				}
			}
			if s.Kind != "exif" && s.Kind != "xmp" && nExif+nXMP == 0 {
				before++
			}
			c.Segs = append(c.Segs, s)
		}
		c.Tail = gen.JPEGTail(rt)
		for len(c.Tail) < 70 {
			c.Tail = append(c.Tail, 0x11)
		}
		underRead := c.XMPRead == "nothing" || c.XMPRead == "part"
		nt := (nExif+nXMP >= 2 || nExif+nXMP >= 1 && before >= 2) && (underRead || nXMP == 0)
		cls := []string{fmt.Sprintf("dht-before-dqt:%v", c.TermDHT), "exif-cb:" + c.ExifRead, "xmp-cb:" + c.XMPRead, fmt.Sprintf("metadata-segments:%d", nExif+nXMP)}
		if nXMP > 0 && nExif > 0 {
			cls = append(cls, "both-kinds")
		}
		raw := build(c).stream
		rec.Case(nt, ev.Hash(raw, []byte(c.ExifRead+c.XMPRead), []byte(fmt.Sprint(c.XMPPart, c.Pieces))), cls...)
		if nt && len(raw) < 3000 {
			kinds := []string{}
			for _, s := range c.Segs {
				kinds = append(kinds, fmt.Sprintf("%s(%02x,%d)", s.Kind, s.Marker, len(s.Payload)))
			}
			rec.Sample("stream", map[string]any{"segments": kinds, "exif_callback": c.ExifRead, "xmp_callback": c.XMPRead, "xmp_part": c.XMPPart, "stream_len": len(raw)})
		}
		return c
	}
}

var chk = pbt.Check[Case]{Name: "jpeg-framing", Gen: genWith(false), Eval: eval}
var chkFill = pbt.Check[Case]{Name: "jpeg-framing-ext-fill-bytes", Gen: genWith(true), Eval: func(c Case) *pbt.Fail {
	return eval(c)
}}

func init() { pbt.Register(chk); pbt.Register(chkFill) }

func TestProp(t *testing.T) {
	defer rec.MustWrite()
	rec.Rule("marker streams SOI, S1..Sn (n <= 12), [DHT in 20 %], DQT, >= 70 bytes of image data with Si from {APP0 JFIF, COM, near-miss APP1 prefixes, ICC APP2, Photoshop APP13, DRI, Exif-looking payloads under other markers, APP3..APP15 with random payloads incl. 0xFF bytes and nested SOI/EOI, segments at and just below the largest statable length (0xFFFF) filled with marker look-alikes, XMP-extension APP1, SOF0-2, up to two Exif-APP1 (random TIFF blocks with embedded thumbnails, or encoder output for the library's reader) and up to two XMP-APP1 of 0..65000 bytes}; " +
		"callbacks: Exif reads its declared length in generated pieces / is the library's DecodeJPEGIfd / is nil; XMP reads nothing / a prefix / everything / everything in odd pieces / is nil; caller's bufio.Reader of 4 KiB..64 KiB. " +
		"oracle (computed by the writer): callbacks run exactly for the metadata segments, in order; header byte order, first-IFD offset, absolute TIFF offset and length; bytes readable inside each callback == payload, then EOF; error nil; the caller's reader stands just after the DQT segment. " +
		"non-trivial = >= 2 metadata segments, or one preceded by >= 2 other segments, with an XMP callback that under-reads (or no XMP segment); distinct by (stream, callback behaviour)")
	rec.Assume("the Exif callback consumes exactly its declared length (the property's precondition); a nil callback means the segment is skipped")
	rec.Assume("0xFF fill bytes before a marker (legal per T.81 B.1.1.2) are generated by a second check of the same oracle")
	rec.Rule("exhaustive: one fixed stream (COM pad, APP0, Exif APP1 of 200 bytes, DRI, XMP APP1 of 300 bytes, APP2, second Exif APP1) with the pad swept byte by byte over one (quick) or three (thorough) 4 KiB reader buffers, under four callback behaviours: every marker, length field, prefix and payload crosses every buffer boundary at every phase")
	pbt.RegressDir(t, rec)
	{
		mk := func(n int, salt byte) []byte {
			b := make([]byte, n)
			for i := range b {
				b[i] = byte(i*7) ^ salt
			}
			return b
		}
		tiff := func(n int) []byte { return append([]byte("II*\x00\x08\x00\x00\x00"), mk(n-8, 0x5a)...) }
		behaviours := []Case{
			{ExifRead: "pieces", Pieces: []int{7}, XMPRead: "part", XMPPart: 29},
			{ExifRead: "pieces", XMPRead: "all-odd"},
			{ExifRead: "nil-callback", XMPRead: "nothing"},
			{ExifRead: "pieces", Pieces: []int{4096}, XMPRead: "nil-callback"},
		}
		idx := 0
		for pad := 0; pad <= rec.Env.Pick(4096+400, 3*4096+400); pad++ {
			for _, bh := range behaviours {
				idx++
				if idx%rec.Env.Shards != rec.Env.Shard {
					continue
				}
				c := bh
				c.BufSize = 4096
				c.Segs = []gen.Seg{
					{Marker: 0xFE, Payload: bytes.Repeat([]byte{' '}, pad), Kind: "other"},
					{Marker: 0xE0, Payload: []byte("JFIF\x00\x01\x02\x00\x00\x01\x00\x01\x00\x00"), Kind: "other"},
					{Marker: 0xE1, Payload: append([]byte(gen.ExifPrefix), tiff(200)...), Kind: "exif"},
					{Marker: 0xDD, Payload: []byte{0, 4}, Kind: "other"},
					{Marker: 0xE1, Payload: append([]byte(gen.XMPPrefix), mk(300, 0x21)...), Kind: "xmp"},
					{Marker: 0xE2, Payload: mk(50, 0x33), Kind: "other"},
					{Marker: 0xE1, Payload: append([]byte(gen.ExifPrefix), tiff(64)...), Kind: "exif"},
				}
				c.Tail = append([]byte{0xFF, 0xDA, 0x00, 0x08, 0x01, 0x01, 0x00, 0x00, 0x3F, 0x00}, mk(80, 0x11)...)
				rec.Case(true, ev.HashS("sweep", fmt.Sprint(pad, bh.ExifRead, bh.XMPRead)), "pad-sweep")
				if f := eval(c); f != nil {
					if pbt.Report(t, rec, chk.Name, c, f) {
						return
					}
				}
			}
		}
	}
	if !pbt.Run(t, rec, chk, rec.Env.Pick(4000, 150000), 1) {
		return
	}
	pbt.Run(t, rec, chkFill, rec.Env.Pick(400, 5000), 2)
}

func TestReplay(t *testing.T) { pbt.Replay(t, rec) }
