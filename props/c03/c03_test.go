// C03 — Exif fields of a well-formed file are extracted with their exact
// values. Generator: logical record x forward layout (internal/gen); oracle:
// the record itself through the spec-written comparison in internal/exifcheck.
package c03

import (
	"bytes"
	"fmt"
	"strings"
	"testing"

	"pgregory.net/rapid"

	"github.com/evanoberholster/imagemeta"
	"github.com/evanoberholster/imagemeta/exif2"
	"github.com/evanoberholster/imagemeta/imagetype"

	"verif/internal/ev"
	"verif/internal/exifcheck"
	"verif/internal/gen"
	"verif/internal/pbt"
)

var rec = ev.New("C03")

type Case struct {
	Rec   *gen.Record   `json:"rec"`
	Ctx   exifcheck.Ctx `json:"ctx"`
	II    []byte        `json:"ii"`
	MM    []byte        `json:"mm"`
	Order string        `json:"block_order"`
	HW    int           `json:"pending_high_water"`
	Ext   string        `json:"ext,omitempty"`
	Tail  int           `json:"tail,omitempty"` // trailing bytes after the last block (stripped for the exact-length JPEG form)
	// BufferedOnly: the layout exceeds what the reader of a plain io.Reader accepts (directories of 86..128 entries, values over
	// 1 KiB): only the entry points that read through a bufio.Reader are run
	BufferedOnly bool `json:"buffered_only,omitempty"`
}

// jpegExact carries the block, without its trailing bytes, in the APP1 segment of a
// minimal fixed JPEG: the block's declared length then ends on the last byte of its last value.
func jpegExact(p []byte, tail int) []byte {
	if tail > 0 && tail < len(p) {
		p = p[:len(p)-tail]
	}
	if len(p) > 65000 {
		return nil
	}
	fixedTail := append([]byte{0xFF, 0xC0, 0x00, 0x0B, 0x08, 0x00, 0x10, 0x00, 0x10, 0x01, 0x01, 0x11, 0x00, 0xFF, 0xDA, 0x00, 0x08, 0x01, 0x01, 0x00, 0x00, 0x3F, 0x00}, bytes.Repeat([]byte{0x55}, 80)...)
	fixedTail = append(fixedTail, 0xFF, 0xD9)
	return gen.JPEGStream([]gen.Seg{{Marker: 0xE1, Payload: append([]byte(gen.ExifPrefix), p...)}, gen.DQT()}, fixedTail)
}

func decode(entry string, b []byte) (e exif2.Exif, err error, pan string) {
	defer func() {
		if r := recover(); r != nil {
			pan = fmt.Sprint(r)
		}
	}()
	switch entry {
	case "Decode":
		e, err = imagemeta.Decode(bytes.NewReader(b))
	case "DecodeTiff":
		e, err = imagemeta.DecodeTiff(bytes.NewReader(b))
	case "DecodeJPEG":
		e, err = imagemeta.DecodeJPEG(bytes.NewReader(b))
	default:
		e, err = exif2.Parse(bytes.NewReader(b))
	}
	return
}

func eval(c Case) *pbt.Fail {
	for _, entry := range []string{"Decode", "ExifParse", "DecodeTiff", "DecodeJPEG"} {
		for _, enc := range []struct {
			name string
			b    []byte
		}{{"II", c.II}, {"MM", c.MM}} {
			in := enc.b
			if entry == "ExifParse" && c.BufferedOnly {
				continue
			}
			if entry == "ExifParse" && c.Tail > 0 && len(enc.b)-c.Tail >= 64 && len(enc.b)%2 == 0 {
				in = enc.b[:len(enc.b)-c.Tail] // the bare block without trailing bytes (still >= 28 bytes after the signature)
			}
			if entry == "DecodeJPEG" {
				if in = jpegExact(enc.b, c.Tail); in == nil {
					continue
				}
			}
			e, err, pan := decode(entry, in)
			key := c.Ext
			if pan != "" {
				return pbt.Failf(key, "%s(%s) panicked on a well-formed file: %s", entry, enc.name, pan)
			}
			if err != nil {
				return pbt.Failf(key, "%s(%s) returned error %v on a well-formed file", entry, enc.name, err)
			}
			diffs := exifcheck.Compare(e, c.Rec, c.Ctx)
			if len(diffs) > 0 {
				// text values longer than the reader's window: a recorded finding exactly when the library reports
				// them as absent and everything else is right
				window, kind := 4095, "bufio-reader"
				if entry == "ExifParse" {
					window, kind = 1023, "plain-reader"
				}
				drop := *c.Rec
				dropped := 0
				for _, f := range []**string{&drop.ImageDescription, &drop.Software, &drop.Copyright} {
					if *f != nil && len(**f) > window {
						*f = nil
						dropped++
					}
				}
				// a dimension beyond 16 bits (the reported field is a uint16): a recorded finding exactly when nothing else differs
				big := func(p *uint32) bool { return p != nil && *p > 65535 }
				if big(c.Rec.Width) || big(c.Rec.Height) || big(c.Rec.PixelX) || big(c.Rec.PixelY) {
					only := true
					for _, d := range diffs {
						if !strings.HasPrefix(d, "ImageWidth") && !strings.HasPrefix(d, "ImageHeight") {
							only = false
						}
					}
					if only {
						return pbt.Failf("dimension-over-16-bits", "%s(%s): %s", entry, enc.name, strings.Join(diffs, "; "))
					}
				}
				// exposure compensation whose reduced fraction does not fit the 8-bit numerator / denominator of meta.ExposureBias
				if c.Rec.Bias != nil && len(diffs) == 1 && strings.HasPrefix(diffs[0], "ExposureBias") {
					n, d := int64(c.Rec.Bias[0]), int64(c.Rec.Bias[1])
					a, b := n, d
					if a < 0 {
						a = -a
					}
					for b != 0 {
						a, b = b, a%b
					}
					if a > 0 && (n/a > 127 || n/a < -128 || d/a > 255) {
						return pbt.Failf("bias-not-representable", "%s(%s): %s (the reduced fraction %d/%d does not fit 8 + 8 bits)", entry, enc.name, diffs[0], n/a, d/a)
					}
				}
				if dropped > 0 && len(exifcheck.Compare(e, &drop, c.Ctx)) == 0 {
					return pbt.Failf("long-text:"+kind, "%s(%s): %d text value(s) longer than %d bytes are reported as absent (everything else is exact): %s", entry, enc.name, dropped, window, strings.Join(diffs, "; "))
				}
			}
			wantType := imagetype.ImageTiff
			if c.Rec.DNGVersion {
				wantType = imagetype.ImageDNG
			}
			if entry == "DecodeJPEG" {
				wantType = exifcheck.WantType("jpeg", c.Rec.DNGVersion)
			}
			if e.ImageType != wantType {
				diffs = append(diffs, fmt.Sprintf("ImageType = %v, want %v", e.ImageType, wantType))
			}
			if len(diffs) > 0 {
				return pbt.Failf(key, "%s(%s): %s", entry, enc.name, strings.Join(diffs, "; "))
			}
		}
	}
	return nil
}

func genWith(o gen.Options, ext string) func(rt *rapid.T) Case {
	return func(rt *rapid.T) Case {
		f := gen.GenExif(rt, o)
		if f.Enc.PendingHW > 84 {
			panic(fmt.Sprintf("generator bug: pending high-water %d > 84", f.Enc.PendingHW))
		}
		c := Case{Rec: f.Rec, Ctx: exifcheck.CtxOf(f), II: f.Enc.II, MM: f.Enc.MM, Order: f.Enc.BlockOrder, HW: f.Enc.PendingHW, Ext: ext, Tail: f.Enc.Tail, BufferedOnly: !o.Unbuffered}
		cls := append([]string{}, f.Classes...)
		if ext != "" {
			cls = append(cls, "ext:"+ext)
		}
		rec.Case(f.NonTrivial(), ev.Hash(f.Enc.II), cls...)
		if f.NonTrivial() {
			rec.Sample("record"+ext, map[string]any{"rec": f.Rec, "block_order": f.Enc.BlockOrder, "pending_high_water": f.Enc.PendingHW, "len": len(f.Enc.II), "first_ifd": f.FirstIFD})
		}
		return c
	}
}

var chkMain = pbt.Check[Case]{Name: "record-roundtrip", Eval: eval, Gen: genWith(gen.Options{Unbuffered: true}, "")}
var chkBig = pbt.Check[Case]{Name: "record-roundtrip-pending-limit", Eval: eval, Gen: genWith(gen.Options{Unbuffered: true, BigPending: true}, "")}
var chkHeavy = pbt.Check[Case]{Name: "record-roundtrip-consumed-plus-pending", Eval: eval, Gen: genWith(gen.Options{Unbuffered: true, HeavyWriter: true}, "")}
var chkMany = pbt.Check[Case]{Name: "record-roundtrip-entry-limit", Eval: eval, Gen: genWith(gen.Options{Unbuffered: true, ManyEntries: true}, "")}
var chkManyBuf = pbt.Check[Case]{Name: "record-roundtrip-entry-limit-buffered", Eval: eval, Gen: genWith(gen.Options{ManyEntries: true}, "")}
var chkBias = pbt.Check[Case]{Name: "record-roundtrip-camera-bias", Eval: eval, Gen: genWith(gen.Options{Unbuffered: true, CameraBias: true, MaxForeign: 2}, "")}
var chkDims = pbt.Check[Case]{Name: "record-roundtrip-big-dimensions", Eval: eval, Gen: genWith(gen.Options{Unbuffered: true, BigDims: true, MaxForeign: 2}, "")}
var chkArr = pbt.Check[Case]{Name: "record-roundtrip-out-of-line-arrays", Eval: eval, Gen: genWith(gen.Options{Unbuffered: true, Arrays: true, MaxForeign: 3}, "")}
var chkLong = pbt.Check[Case]{Name: "record-roundtrip-long-text", Eval: eval, Gen: genWith(gen.Options{Unbuffered: true, LongText: true, MaxForeign: 2}, "")}
var chkSub = pbt.Check[Case]{Name: "record-roundtrip-ext-subsec", Eval: eval, Gen: genWith(gen.Options{Unbuffered: true, ExtSubSecDigits: true}, "subsec-digits")}

func init() {
	pbt.Register(chkMain)
	pbt.Register(chkBig)
	pbt.Register(chkHeavy)
	pbt.Register(chkSub)
	pbt.Register(chkMany)
	pbt.Register(chkManyBuf)
	pbt.Register(chkLong)
	pbt.Register(chkArr)
	pbt.Register(chkBias)
	pbt.Register(chkDims)
}

func TestProp(t *testing.T) {
	defer rec.MustWrite()
	rec.Rule("logical record (random subset of the supported IFD0/Exif/GPS fields, in-range values, Appendix A) x forward layout " +
		"(block order writer-like/LIFO/random/tables-first/values-first, padding, foreign tags of all 12 TIFF types, SubIFDs, IFD1, MakerNote blob, shuffled entry order, padded first-IFD offset, trailing bytes), " +
		"both byte orders, decoded through imagemeta.Decode, imagemeta.DecodeTiff, exif2.Parse and (the block without trailing bytes in an exact-length APP1 segment) imagemeta.DecodeJPEG, and compared field by field with the record. " +
		"non-trivial = >= 5 supported fields and out-of-line values in >= 2 directories; distinct by encoded bytes")
	rec.Assume("generated strings never end in space/newline/NUL (no trim rule assumed); no interior NULs")
	rec.Assume("at most one serial-number source unless both are equal (a record has one serial number; with two different ones the first one read wins)")
	rec.Assume("main check: directories <= 85 entries and values <= 1024 bytes so that the same file is valid for the unbuffered exif2.Parse path (directories up to 128 entries and longer values are separate checks); <= 84 out-of-line references pending at any time")
	rec.Assume("Make and Model are reported by the library's canonical names where it knows them (\"NIKON CORPORATION\" => \"Nikon\"): the generator's known models are those whose documented name is their own text; the CameraModel enum is asserted for either order of the two values")
	rec.Rule("entry limit: one directory filled with embedded-value foreign tags to 128, 127, 126, 118 or 100 entries (entry points that read through a bufio.Reader) and to 85, 84, 83, 75 or 57 entries (every entry point incl. exif2.Parse on a plain reader, whose scratch buffer holds 85 entries)")
	rec.Rule("exhaustive shift: records drawn from VERIF_SEED (plain, and writer-like with > 84 consumed + pending tags), re-encoded with IFD0 at every offset 8..N (N = 4500 quick, 12700 thorough): every directory, value and sub-directory of the block crosses every 1 KiB scratch and 4 KiB reader-buffer boundary at every phase")
	pbt.RegressDir(t, rec)
	{
		idx := 0
		for ri := 0; ri < rec.Env.Pick(2, 6); ri++ {
			o := gen.Options{Unbuffered: true, HeavyWriter: ri%2 == 1, MaxForeign: 3}
			base := rapid.Custom(func(rt *rapid.T) *gen.ExifFile { return gen.GenExif(rt, o) }).Example(int(rec.Env.Seed%100000)*16 + ri + 1)
			for first := 8; first <= rec.Env.Pick(4500, 12700); first++ {
				idx++
				if idx%rec.Env.Shards != rec.Env.Shard {
					continue
				}
				f := base.Reencode(first)
				if f.Enc.PendingHW > 84 {
					break // (the writer-like re-layout of this record exceeds the documented pending limit)
				}
				c := Case{Rec: f.Rec, Ctx: exifcheck.CtxOf(f), II: f.Enc.II, MM: f.Enc.MM, Order: f.Enc.BlockOrder, HW: f.Enc.PendingHW, Tail: f.Enc.Tail}
				rec.Case(true, ev.HashS("shift", fmt.Sprint(ri, first)), "first-ifd-offset-sweep")
				if fl := eval(c); fl != nil {
					if pbt.Report(t, rec, chkMain.Name, c, fl) {
						return
					}
				}
			}
		}
	}
	if !pbt.Run(t, rec, chkMain, rec.Env.Pick(3000, 60000), 1) {
		return
	}
	if !pbt.Run(t, rec, chkBig, rec.Env.Pick(300, 6000), 2) {
		return
	}
	if !pbt.Run(t, rec, chkHeavy, rec.Env.Pick(300, 6000), 4) {
		return
	}
	if !pbt.Run(t, rec, chkMany, rec.Env.Pick(300, 6000), 5) {
		return
	}
	if !pbt.Run(t, rec, chkManyBuf, rec.Env.Pick(300, 6000), 6) {
		return
	}
	if !pbt.Run(t, rec, chkDims, rec.Env.Pick(200, 4000), 10) {
		return
	}
	if !pbt.Run(t, rec, chkBias, rec.Env.Pick(400, 8000), 9) {
		return
	}
	if !pbt.Run(t, rec, chkArr, rec.Env.Pick(400, 8000), 8) {
		return
	}
	if !pbt.Run(t, rec, chkLong, rec.Env.Pick(300, 6000), 7) {
		return
	}
	pbt.Run(t, rec, chkSub, rec.Env.Pick(300, 3000), 3)
}

func TestReplay(t *testing.T) { pbt.Replay(t, rec) }
