// C12 — the TIFF header search reports the first TIFF signature at any offset,
// its byte order and first-IFD offset, leaves the stream at the header, and
// reports "no Exif" when there is no signature.
//
// Oracle: a naive scan written here (first index of "II*\0" or "MM\0*").
// Exhaustive part: every prefix over the signature alphabet {I, M, *, 0x00, x}
// up to length L, in front of every header variant. Random part: long binary
// prefixes (crossing bufio's 4 KiB boundary), several reader kinds.
package c12

import (
	"bufio"
	"bytes"
	"encoding/binary"
	"encoding/hex"
	"fmt"
	"io"
	"testing"
	"testing/iotest"

	"pgregory.net/rapid"

	"github.com/evanoberholster/imagemeta"
	"github.com/evanoberholster/imagemeta/exif2"
	"github.com/evanoberholster/imagemeta/imagetype"
	"github.com/evanoberholster/imagemeta/meta"
	"github.com/evanoberholster/imagemeta/meta/utils"
	"github.com/evanoberholster/imagemeta/tiff"

	"verif/internal/ev"
	"verif/internal/pbt"
)

var rec = ev.New("C12")

// Case is one stream and the way it is presented.
type Case struct {
	Hex    string `json:"stream_hex"`
	Reader string `json:"reader"` // bufio32 | bufio64 | bufio4096 | bufio8192 | plain | onebyte | half | dataerr
	Origin string `json:"origin"`
}

var sigII, sigMM = []byte("II*\x00"), []byte("MM\x00*")

// model: first index of a signature that is followed by at least 28 more bytes
// (the property's precondition); -1 if none. short = a signature exists but too
// close to the end of the stream (nothing is asserted about the result then).
func model(b []byte) (idx int, bo utils.ByteOrder, first uint32, short bool) {
	for i := 0; i+4 <= len(b); i++ {
		var o utils.ByteOrder
		switch {
		case bytes.Equal(b[i:i+4], sigII):
			o = utils.LittleEndian
		case bytes.Equal(b[i:i+4], sigMM):
			o = utils.BigEndian
		default:
			continue
		}
		if len(b)-(i+4) < 28 {
			return -1, 0, 0, true
		}
		if o == utils.LittleEndian {
			first = binary.LittleEndian.Uint32(b[i+4:])
		} else {
			first = binary.BigEndian.Uint32(b[i+4:])
		}
		return i, o, first, false
	}
	// a partial signature at the very end is not a signature
	return -1, 0, 0, false
}

type oneByte struct{ r io.Reader }

func (o oneByte) Read(p []byte) (int, error) {
	if len(p) == 0 {
		return 0, nil
	}
	return o.r.Read(p[:1])
}

func evalStream(b []byte, reader string) (f *pbt.Fail) {
	defer func() {
		if r := recover(); r != nil {
			f = pbt.Failf("panic", "ScanTiffHeader panicked: %v", r)
		}
	}()
	var r io.Reader
	var br *bufio.Reader
	switch reader {
	case "bufio16":
		br = bufio.NewReaderSize(bytes.NewReader(b), 16)
	case "bufio24":
		br = bufio.NewReaderSize(oneByte{bytes.NewReader(b)}, 24)
	case "bufio32":
		br = bufio.NewReaderSize(bytes.NewReader(b), 32)
	case "bufio64":
		br = bufio.NewReaderSize(oneByte{bytes.NewReader(b)}, 64)
	case "bufio4096":
		br = bufio.NewReaderSize(bytes.NewReader(b), 4096)
	case "bufio8192":
		br = bufio.NewReaderSize(iotest.HalfReader(bytes.NewReader(b)), 8192)
	case "onebyte":
		r = oneByte{bytes.NewReader(b)}
	case "half":
		r = iotest.HalfReader(bytes.NewReader(b))
	case "dataerr":
		r = iotest.DataErrReader(bytes.NewReader(b))
	default:
		r = bytes.NewReader(b)
	}
	if br != nil {
		r = br
	}
	h, err := tiff.ScanTiffHeader(r, imagetype.ImageUnknown)
	idx, bo, first, short := model(b)
	if short {
		return nil // signature without the 28 following bytes: outside the property's precondition
	}
	if idx < 0 {
		if err != meta.ErrNoExif {
			return pbt.Failf("nosig", "stream of %d bytes without a TIFF signature: got header %+v, err %v; want meta.ErrNoExif", len(b), h, err)
		}
		return nil
	}
	if err != nil {
		return pbt.Failf("missed", "signature at offset %d (%d bytes follow) not found: err %v (reader %s)", idx, len(b)-idx-4, err, reader)
	}
	if int(h.TiffHeaderOffset) != idx {
		return pbt.Failf("offset", "reported TIFF header offset %d, first signature is at %d (reader %s)", h.TiffHeaderOffset, idx, reader)
	}
	if h.ByteOrder != bo {
		return pbt.Failf("byteorder", "reported byte order %v, signature at %d is %v", h.ByteOrder, idx, bo)
	}
	if h.FirstIfdOffset != first {
		return pbt.Failf("firstifd", "reported first-IFD offset %d, header at %d stores %d", h.FirstIfdOffset, idx, first)
	}
	if br != nil {
		rest, _ := io.ReadAll(br)
		if !bytes.Equal(rest, b[idx:]) {
			n := len(b) - len(rest)
			return pbt.Failf("position", "after the search the caller's bufio.Reader stands at stream offset %d (%d bytes left), want the reported header offset %d", n, len(rest), idx)
		}
	}
	return nil
}

func eval(c Case) *pbt.Fail {
	b, err := hex.DecodeString(c.Hex)
	if err != nil {
		return pbt.Failf("", "bad hex in case: %v", err)
	}
	return evalStream(b, c.Reader)
}

var alphabet = []byte{'I', 'M', '*', 0x00, 'x'}
var readers = []string{"bufio16", "bufio24", "bufio32", "bufio64", "bufio4096", "bufio8192", "plain", "onebyte", "half", "dataerr"}

// headers: both byte orders x two first-IFD values, each followed by 32 bytes that
// themselves contain a later signature (which must never be the one reported).
func headers() [][]byte {
	var out [][]byte
	for _, sig := range [][]byte{sigII, sigMM} {
		for _, first := range []uint32{8, 0x01020304} {
			h := append([]byte{}, sig...)
			var f [4]byte
			if sig[0] == 'I' {
				binary.LittleEndian.PutUint32(f[:], first)
			} else {
				binary.BigEndian.PutUint32(f[:], first)
			}
			h = append(h, f[:]...)
			h = append(h, []byte("\x01\x00\x12\x01\x03\x00\x01\x00\x00\x00\x01\x00MM\x00*\x00\x00\x00\x08II*\x00\x08\x00\x00\x00")...)
			out = append(out, h)
		}
	}
	return out
}

// partial reports whether the prefix holds >= 2 leading bytes of a signature or a full one.
func partial(p []byte) bool {
	for i := 0; i+2 <= len(p); i++ {
		if p[i] == 'I' && p[i+1] == 'I' || p[i] == 'M' && p[i+1] == 'M' {
			return true
		}
	}
	return false
}

func genCase(rt *rapid.T) Case {
	mode := rapid.IntRange(0, 3).Draw(rt, "mode")
	var b []byte
	origin := ""
	sym := rapid.SampledFrom([]byte{'I', 'I', 'M', 'M', '*', 0, 0, 'x', 0xff, 0x2a, 0x49, 0x4d, 1, 8})
	switch mode {
	case 0: // long prefix over the biased alphabet, header, tail; prefix length near buffer boundaries
		n := rapid.SampledFrom([]int{0, 1, 29, 30, 31, 32, 33, 63, 64, 65, 4064, 4065, 4091, 4092, 4093, 4094, 4095, 4096, 4097, 4128, 8191, 8192, 8193}).Draw(rt, "plen") + rapid.IntRange(0, 3).Draw(rt, "pd")
		p := rapid.SliceOfN(sym, n, n).Draw(rt, "prefix")
		b = append(p, rapid.SampledFrom(headers()).Draw(rt, "hdr")...)
		b = append(b, rapid.SliceOfN(rapid.Byte(), 0, 100).Draw(rt, "tail")...)
		origin = "long-prefix"
	case 1: // arbitrary bytes with signatures sprinkled in
		b = rapid.SliceOfN(rapid.Byte(), 0, 9000).Draw(rt, "bytes")
		for i, k := 0, rapid.IntRange(0, 3).Draw(rt, "nsig"); i < k && len(b) > 8; i++ {
			at := rapid.IntRange(0, len(b)-4).Draw(rt, "at")
			copy(b[at:], rapid.SampledFrom([][]byte{sigII, sigMM, []byte("II*"), []byte("MM\x00"), []byte("IIII*\x00"), []byte("MMM\x00*")}).Draw(rt, "sig"))
		}
		origin = "random+sprinkled"
	case 2: // no signature at all: signature alphabet with every complete signature broken
		b = rapid.SliceOfN(sym, 0, 6000).Draw(rt, "nosig")
		for {
			i, _, _, short := model(append(append([]byte{}, b...), make([]byte, 32)...))
			if i < 0 && !short {
				break
			}
			if i < 0 {
				break
			}
			b[i+2] = 'x'
		}
		origin = "no-signature"
	default: // signature close to the end of the stream: 27, 28, 29 bytes follow
		p := rapid.SliceOfN(sym, 0, 70).Draw(rt, "prefix")
		h := rapid.SampledFrom(headers()).Draw(rt, "hdr")
		follow := rapid.IntRange(24, 40).Draw(rt, "follow")
		b = append(p, h[:4]...)
		b = append(b, bytes.Repeat([]byte{7}, follow)...)
		origin = "near-end"
	}
	rd := rapid.SampledFrom(readers).Draw(rt, "reader")
	idx, _, _, _ := model(b)
	nt := idx > 0 && partial(b[:idx]) || idx < 0 && partial(b)
	rec.Case(nt, ev.Hash(b, []byte(rd)), "origin:"+origin, "reader:"+rd)
	c := Case{Hex: hex.EncodeToString(b), Reader: rd, Origin: origin}
	if nt && len(b) < 200 {
		rec.Sample(origin, c)
	}
	return c
}

var chk = pbt.Check[Case]{Name: "tiff-header-search", Gen: genCase, Eval: eval}

// Far: the entry points that search for the header themselves (exif2.Parse, imagemeta.DecodeTiff / DecodeHeif) must find a
// header that lies far into the stream as well: "whatever bytes precede it".
type Far struct {
	Prefix int    `json:"prefix_len"`
	Fill   byte   `json:"fill"`
	MM     bool   `json:"mm"`
	Width  uint16 `json:"image_width"`
	Entry  string `json:"entry"`
	// Start > 0 (exif2.Parse only): the io.ReadSeeker handed over stands Start bytes into its data, behind another TIFF block
	Start int `json:"start_offset,omitempty"`
}

func evalFar(c Far) (f *pbt.Fail) {
	defer func() {
		if r := recover(); r != nil {
			f = pbt.Failf("far-panic", "%s panicked: %v", c.Entry, r)
		}
	}()
	bo := binary.ByteOrder(binary.LittleEndian)
	blk := []byte("II*\x00\x08\x00\x00\x00")
	if c.MM {
		bo = binary.BigEndian
		blk = []byte("MM\x00*\x00\x00\x00\x08")
	}
	ent := make([]byte, 2+12+4)
	bo.PutUint16(ent, 1)
	bo.PutUint16(ent[2:], 0x0100)
	bo.PutUint16(ent[4:], 3)
	bo.PutUint32(ent[6:], 1)
	bo.PutUint16(ent[10:], c.Width)
	pre := bytes.Repeat([]byte{c.Fill}, c.Prefix)
	if c.Entry != "exif2.Parse" && c.Prefix >= 24 {
		copy(pre, "\x00\x00\x00\x18ftypheic\x00\x00\x00\x00mif1heic") // these entry points identify the image type first
	}
	b := append(pre, append(blk, ent...)...)
	b = append(b, make([]byte, 64)...)
	var e exif2.Exif
	var err error
	switch c.Entry {
	case "exif2.Parse":
		if c.Start > 0 {
			front := append(append([]byte{}, blk...), ent...)
			bo.PutUint16(front[len(blk)+10:], ^c.Width) // a block in front of the starting position, with another width
			front = append(front, bytes.Repeat([]byte{c.Fill}, c.Start)...)
			rs := bytes.NewReader(append(front, b...))
			if _, err = rs.Seek(int64(len(front)), io.SeekStart); err != nil {
				return pbt.Failf("", "seek: %v", err)
			}
			e, err = exif2.Parse(rs)
			if err != nil || e.ImageWidth != c.Width {
				return pbt.Failf("far:start-offset", "exif2.Parse on a ReadSeeker standing at offset %d, TIFF header %d bytes further on: ImageWidth = %d, err %v; the block says %d (the block in front of the starting position says %d)", len(front), c.Prefix, e.ImageWidth, err, c.Width, ^c.Width)
			}
			return nil
		}
		e, err = exif2.Parse(bytes.NewReader(b))
	case "DecodeHeif":
		e, err = imagemeta.DecodeHeif(bytes.NewReader(b))
	default:
		e, err = imagemeta.DecodeTiff(bytes.NewReader(b))
	}
	if err != nil || e.ImageWidth != c.Width {
		return pbt.Failf("far:"+c.Entry, "%s on a stream whose TIFF header lies at offset %d: ImageWidth = %d, err %v; the block says %d", c.Entry, c.Prefix, e.ImageWidth, err, c.Width)
	}
	return nil
}

var chkFar = pbt.Check[Far]{Name: "tiff-header-search-far", Eval: evalFar, Gen: func(rt *rapid.T) Far {
	c := Far{Prefix: rapid.SampledFrom([]int{0, 24, 4095, 4096, 65503, 65504, 65505, 65535, 65536, 65537, 70000, 131072, 1 << 20, 3 << 20}).Draw(rt, "prefix") + rapid.IntRange(0, 9).Draw(rt, "d"),
		Fill: rapid.SampledFrom([]byte{0x81, 0x00, 0xff, 'x'}).Draw(rt, "fill"), MM: rapid.Bool().Draw(rt, "mm"), Width: uint16(rapid.IntRange(1, 65535).Draw(rt, "width")),
		Entry: rapid.SampledFrom([]string{"exif2.Parse", "DecodeTiff", "DecodeHeif"}).Draw(rt, "entry")}
	if c.Entry != "exif2.Parse" && c.Prefix > 0 && c.Prefix < 24 {
		c.Prefix = 0 // (these entry points identify the image type from the first 24 bytes: a TIFF at offset 0, or an ftyp box)
	}
	if c.Entry == "exif2.Parse" && rapid.IntRange(0, 2).Draw(rt, "prepositioned") == 0 {
		c.Start = rapid.SampledFrom([]int{1, 7, 100, 4000, 4096, 5000}).Draw(rt, "start")
		if c.Prefix > 70000 {
			c.Prefix %= 5000
		}
	}
	rec.Case(c.Prefix > 4096 || c.Start > 0, ev.HashS("far", fmt.Sprint(c)), "far-prefix>64KiB:"+fmt.Sprint(c.Prefix > 65536), "far-prepositioned-seeker:"+fmt.Sprint(c.Start > 0))
	return c
}}

func init() { pbt.Register(chk); pbt.Register(chkFar) }

func TestProp(t *testing.T) {
	defer rec.MustWrite()
	L := rec.Env.Pick(7, 10)
	rec.Rule(fmt.Sprintf("exhaustive: every prefix over {I, M, *, 0x00, x} of length 0..%d in front of 4 header variants (II/MM x first-IFD 8 / 0x01020304, each followed by 32 bytes that contain later signatures), "+
		"read through a 32-byte bufio.Reader and (every 7th case) a one-byte plain reader; also every such prefix alone followed by 40 filler bytes (no signature => ErrNoExif, unless the prefix itself holds one). "+
		"random: prefixes of 0..8 KiB with lengths around 32/64/4096/8192, arbitrary bytes with sprinkled (partial) signatures, signature-free streams, signatures 24..40 bytes before the end; 10 reader kinds (caller's bufio.Reader of 16, 24, 32, 64, 4096, 8192 bytes - 16 is the smallest bufio makes - and plain readers delivering all / one byte / half / data+error). "+
		"oracle: naive first-index scan written in the check; offset, byte order, first-IFD offset; caller's bufio.Reader left at the header; no signature => meta.ErrNoExif. "+
		"non-trivial = the bytes before the reported header (or the whole signature-free stream) contain >= 2 leading signature bytes; distinct by (stream, reader)", L))
	rec.Rule("far headers: a one-entry TIFF block behind 0 .. 3 MiB of signature-free filler (lengths on and around 4 KiB, 64 KiB, 128 KiB, 1 MiB) is decoded through exif2.Parse, DecodeTiff and DecodeHeif, which run the search themselves: the block's ImageWidth must come back; a third of the exif2.Parse cases hand over an io.ReadSeeker that stands 1..5000 bytes into its data, behind another TIFF block (offsets count from where the stream stands)")
	rec.Assume("a signature followed by fewer than 28 bytes is outside the property's precondition: nothing is asserted about such streams")
	pbt.RegressDir(t, rec)
	hs := headers()
	filler := bytes.Repeat([]byte{'x'}, 40)
	complete := true
	var trivial int64
	buf := make([]byte, 0, 128)
	prefix := make([]byte, 0, 16)
	var count int64
	var walk func(depth int) bool
	visit := func() bool {
		count++
		if int(count)%rec.Env.Shards != rec.Env.Shard {
			return true
		}
		nt := partial(prefix)
		for hi, h := range hs {
			buf = append(append(buf[:0], prefix...), h...)
			rd := "bufio32"
			if (int(count)+hi)%7 == 0 {
				rd = "onebyte"
			}
			if nt {
				rec.Case(true, ev.Hash(buf, []byte(rd)), "exhaustive:prefix+header")
				if len(prefix) >= 3 {
					rec.Sample("exhaustive", Case{Hex: hex.EncodeToString(buf), Reader: rd, Origin: "exhaustive"})
				}
			} else {
				trivial++
			}
			if f := evalStream(buf, rd); f != nil {
				if pbt.Report(t, rec, chk.Name, Case{Hex: hex.EncodeToString(buf), Reader: rd, Origin: "exhaustive"}, f) {
					return false
				}
			}
		}
		buf = append(append(buf[:0], prefix...), filler...)
		if nt {
			rec.Case(true, ev.Hash(buf, []byte("nosig")), "exhaustive:prefix-only")
		} else {
			trivial++
		}
		if f := evalStream(buf, "bufio32"); f != nil {
			if pbt.Report(t, rec, chk.Name, Case{Hex: hex.EncodeToString(buf), Reader: "bufio32", Origin: "exhaustive-nosig"}, f) {
				return false
			}
		}
		return true
	}
	walk = func(depth int) bool {
		if !visit() {
			return false
		}
		if depth == L {
			return true
		}
		for _, a := range alphabet {
			prefix = append(prefix, a)
			ok := walk(depth + 1)
			prefix = prefix[:len(prefix)-1]
			if !ok {
				return false
			}
		}
		return true
	}
	if !walk(0) {
		complete = false
	}
	rec.Eval(trivial)
	rec.Class("exhaustive:trivial(no partial signature in prefix)", trivial)
	rec.Exhaustive(complete)
	rec.Extra("exhaustive_prefix_length", L)
	if t.Failed() {
		return
	}
	if !pbt.Run(t, rec, chk, rec.Env.Pick(6000, 60000), 1) {
		return
	}
	pbt.Run(t, rec, chkFar, rec.Env.Pick(150, 1500), 2)
}

func TestReplay(t *testing.T) { pbt.Replay(t, rec) }
