// C11 — ISOBMFF box containment: processing a box never consumes bytes beyond
// its declared end nor beyond its parent's; after a top-level box the reader
// stands exactly at the next one; the readers handed to the Exif / XMP /
// preview callbacks yield exactly the payload of CMT1-4 / xpacket / PRVW, with
// the directory type matching the box.
//
// Oracle: the byte-offset model computed by the box-tree writer in this file.
package c11

import (
	"bufio"
	"bytes"
	"encoding/binary"
	"fmt"
	"io"
	"testing"

	"pgregory.net/rapid"

	"github.com/evanoberholster/imagemeta"
	"github.com/evanoberholster/imagemeta/exif2/ifds"
	"github.com/evanoberholster/imagemeta/isobmff"
	"github.com/evanoberholster/imagemeta/meta"
	"github.com/evanoberholster/imagemeta/meta/utils"

	"verif/internal/ev"
	"verif/internal/gen"
	"verif/internal/pbt"
)

var rec = ev.New("C11")

// Node is one box of the generated tree.
type Node struct {
	Type     string `json:"t"`
	IlocLen  *int   `json:"iloc_len,omitempty"` // (mdatitem, malformed variants) the length the iloc box states for the item instead of its real one
	Role     string `json:"role,omitempty"`     // canon | cmt1..cmt4 | xpacket | preview | prvw | cncv | ctbo | hdlr | pitm | "" (opaque)
	Full     bool   `json:"full,omitempty"`
	Large    bool   `json:"large,omitempty"` // 64-bit size header
	Len      int    `json:"len"`             // opaque payload bytes (position coded) in addition to the role's fixed fields
	Kids     []Node `json:"kids,omitempty"`
	Over     int64  `json:"over,omitempty"`     // malformed: declared size = real size + Over
	Declared *int64 `json:"declared,omitempty"` // malformed: declared size forced to this value
	FirstIFD int    `json:"first_ifd,omitempty"`
	MM       bool   `json:"mm,omitempty"`
	// role mdatitem: an Exif item of ItemLen bytes starts ItemAt bytes into the payload (the iloc box of the tree points at it)
	ItemAt  int `json:"item_at,omitempty"`
	ItemLen int `json:"item_len,omitempty"`
}

type Case struct {
	Top   []Node `json:"top"` // top-level boxes after ftyp
	Brand string `json:"brand"`
	Mal   bool   `json:"malformed,omitempty"`
	// compatible brands of the ftyp box (nil = the major brand and "isom")
	Compat []string `json:"compatible_brands,omitempty"`
	// size of the caller's bufio.Reader (0 = 8192)
	Buf int `json:"bufio_size,omitempty"`
	// how much of its reader every callback consumes: "" = all (io.ReadAll), "none", "half": whatever a callback leaves
	// unread, the box must be closed behind it
	CB string `json:"callbacks_read,omitempty"`
}

// placed is a node after layout.
type placed struct {
	n                     *Node
	start, payload, end   int // real extent
	declaredEnd           int
	parent                *placed
	kids                  []*placed
	cbStart, cbEnd        int // for callback roles: the byte range the callback's reader must yield
	topIndex              int
	depth                 int
	hdr                   meta.ExifHeader
	prvwW, prvwH, prvwLen int
}

func code(off int) byte { // position-coded payload byte
	h := uint32(off) * 2654435761
	return byte(h>>24) ^ byte(off)
}

func (c Case) layout() ([]byte, []*placed, []*placed) {
	compat := c.Compat
	if compat == nil {
		compat = []string{c.Brand, "isom"}
	}
	ft := gen.Ftyp(c.Brand, 1, compat...).Serialise(0)
	out := append([]byte{}, ft...)
	var all, tops []*placed
	var emit func(n *Node, parent *placed, depth, topIndex int) *placed
	emit = func(n *Node, parent *placed, depth, topIndex int) *placed {
		p := &placed{n: n, parent: parent, start: len(out), depth: depth, topIndex: topIndex}
		all = append(all, p)
		hdr := 8
		if n.Large {
			hdr = 16
		}
		out = append(out, make([]byte, hdr)...)
		p.payload = len(out)
		if n.Full {
			out = append(out, 0, 0, 0, 0)
		}
		opaque := func(k int) {
			for i := 0; i < k; i++ {
				out = append(out, code(len(out)))
			}
		}
		switch n.Role {
		case "canon":
			out = append(out, gen.UUIDCanon...)
		case "xpacket":
			out = append(out, gen.UUIDXPacket...)
			p.cbStart = len(out)
			opaque(n.Len)
			p.cbEnd = len(out)
		case "preview":
			out = append(out, gen.UUIDPreview...)
			out = append(out, 0, 0, 0, 0, 0, 0, 0, 1)
		case "prvw":
			p.prvwW, p.prvwH, p.prvwLen = 160+n.Len%7, 120+n.Len%5, n.Len
			f := make([]byte, 16)
			binary.BigEndian.PutUint16(f[4:], 1)
			binary.BigEndian.PutUint16(f[6:], uint16(p.prvwW))
			binary.BigEndian.PutUint16(f[8:], uint16(p.prvwH))
			binary.BigEndian.PutUint16(f[10:], 1)
			binary.BigEndian.PutUint32(f[12:], uint32(n.Len))
			out = append(out, f...)
			p.cbStart = len(out)
			opaque(n.Len)
			p.cbEnd = len(out)
		case "cmt1", "cmt2", "cmt3", "cmt4":
			first := n.FirstIFD
			if first < 8 {
				first = 8
			}
			tiffStart := len(out)
			th := make([]byte, 8)
			bo := utils.LittleEndian
			if n.MM {
				copy(th, "MM\x00*")
				binary.BigEndian.PutUint32(th[4:], uint32(first))
				bo = utils.BigEndian
			} else {
				copy(th, "II*\x00")
				binary.LittleEndian.PutUint32(th[4:], uint32(first))
			}
			out = append(out, th...)
			total := n.Len
			if total < first+6 { // at least an empty directory (entry count + next-IFD pointer) behind the first-IFD offset
				total = first + 6
			}
			opaque(total - 8)
			p.cbStart, p.cbEnd = tiffStart+first, len(out)
			ft := map[string]ifds.IfdType{"cmt1": ifds.IFD0, "cmt2": ifds.ExifIFD, "cmt3": ifds.MknoteIFD, "cmt4": ifds.GPSIFD}[n.Role]
			p.hdr = meta.ExifHeader{ByteOrder: bo, FirstIfdOffset: uint32(first), ExifLength: uint32(total), FirstIfd: ft}
		case "cncv":
			v := make([]byte, 30)
			copy(v, "CanonCR3_001/00.09.00/00.00.00")
			out = append(out, v...)
		case "ctbo":
			out = append(out, 0, 0, 0, 2)
			for i := 1; i <= 2; i++ {
				r := make([]byte, 20)
				r[3], r[11], r[19] = byte(i), byte(10*i), byte(i)
				out = append(out, r...)
			}
		case "hdlr":
			out = append(out, 0, 0, 0, 0, 'p', 'i', 'c', 't')
			out = append(out, make([]byte, 13)...)
		case "pitm":
			out = append(out, 0, 1)
		case "iinf": // two items: 1 = hvc1 (primary), 2 = Exif
			out = append(out, 0, 2)
			for id, typ := range []string{"hvc1", "Exif"} {
				out = append(out, 0, 0, 0, 21, 'i', 'n', 'f', 'e', 2, 0, 0, 0, 0, byte(id+1), 0, 0)
				out = append(out, typ...)
				out = append(out, 0)
			}
		case "iloc": // one extent for item 2; offset and length are patched in once the mdat is placed
			d := make([]byte, 18)
			d[0] = 0x44
			binary.BigEndian.PutUint16(d[2:], 1)
			binary.BigEndian.PutUint16(d[4:], 2)
			binary.BigEndian.PutUint16(d[8:], 1)
			p.cbStart = len(out) + 10
			out = append(out, d...)
		case "mdatitem":
			opaque(n.ItemAt)
			p.cbStart = len(out)
			out = append(out, 0, 0, 0, 6, 'E', 'x', 'i', 'f', 0, 0)
			if n.MM {
				out = append(out, 'M', 'M', 0, '*', 0, 0, 0, 8)
			} else {
				out = append(out, 'I', 'I', '*', 0, 8, 0, 0, 0)
			}
			opaque(n.ItemLen - 18)
			p.cbEnd = len(out)
			opaque(n.Len)
		default:
			opaque(n.Len)
		}
		for i := range n.Kids {
			p.kids = append(p.kids, emit(&n.Kids[i], p, depth+1, topIndex))
		}
		p.end = len(out)
		size := int64(p.end - p.start)
		decl := size + n.Over
		if n.Declared != nil {
			decl = *n.Declared
		}
		p.declaredEnd = p.start + int(decl)
		if n.Large {
			binary.BigEndian.PutUint32(out[p.start:], 1)
			copy(out[p.start+4:], n.Type)
			binary.BigEndian.PutUint64(out[p.start+8:], uint64(decl))
		} else {
			binary.BigEndian.PutUint32(out[p.start:], uint32(decl))
			copy(out[p.start+4:], n.Type)
		}
		return p
	}
	for i := range c.Top {
		tops = append(tops, emit(&c.Top[i], nil, 1, i))
	}
	var iloc, item *placed
	for _, p := range all {
		switch p.n.Role {
		case "iloc":
			iloc = p
		case "mdatitem":
			item = p
		}
	}
	if iloc != nil && item != nil {
		binary.BigEndian.PutUint32(out[iloc.cbStart:], uint32(item.cbStart))
		binary.BigEndian.PutUint32(out[iloc.cbStart+4:], uint32(item.cbEnd-item.cbStart))
		if item.n.IlocLen != nil {
			binary.BigEndian.PutUint32(out[iloc.cbStart+4:], uint32(*item.n.IlocLen))
		}
	}
	return out, all, tops
}

type call struct {
	kind       string
	start, end int
	data       []byte
	h          meta.ExifHeader
	ph         meta.PreviewHeader
	readErr    error
}

func eval(c Case) (f *pbt.Fail) {
	defer func() {
		if r := recover(); r != nil {
			f = pbt.Failf("panic", "reader or harness panicked: %v", r)
		}
	}()
	file, all, tops := c.layout()
	var want []*placed
	for _, p := range all {
		switch p.n.Role {
		case "xpacket", "prvw", "cmt1", "cmt2", "cmt3", "cmt4":
			want = append(want, p)
		}
	}
	var calls []call
	for k := 1; k <= len(tops); k++ {
		src := bytes.NewReader(file)
		bsz := c.Buf
		if bsz == 0 {
			bsz = 8192
		}
		br := bufio.NewReaderSize(src, bsz)
		pos := func() int { return len(file) - src.Len() - br.Buffered() }
		calls = calls[:0]
		r := isobmff.NewReader(br)
		grab := func(kind string, rd io.Reader) call {
			cl := call{kind: kind, start: pos()}
			switch c.CB {
			case "none":
			case "half":
				all, err := io.ReadAll(io.LimitReader(rd, 37))
				cl.data, cl.readErr = all, err
			case "negative":
				// a consumer that steps back (an Exif directory whose value offsets overlap makes the library's own reader
				// ask for a negative skip): the box must refuse, not grow
				if d, ok := rd.(interface{ Discard(int) (int, error) }); ok {
					_, _ = d.Discard(-10)
					_, _ = d.Discard(-1 << 20)
				}
				all, err := io.ReadAll(io.LimitReader(rd, 37))
				cl.data, cl.readErr = all, err
			default:
				cl.data, cl.readErr = io.ReadAll(rd)
			}
			cl.end = pos()
			return cl
		}
		r.ExifReader = func(rd io.Reader, h meta.ExifHeader) error {
			cl := grab("exif", rd)
			cl.h = h
			calls = append(calls, cl)
			return nil
		}
		r.XMPReader = func(rd io.Reader) error {
			calls = append(calls, grab("xmp", rd))
			return nil
		}
		r.PreviewImageReader = func(rd io.Reader, h meta.PreviewHeader) error {
			cl := grab("preview", rd)
			cl.ph = h
			calls = append(calls, cl)
			return nil
		}
		if err := r.ReadFTYP(); err != nil {
			return pbt.Failf("ftyp", "ReadFTYP failed on a well-formed ftyp box: %v", err)
		}
		if got := pos(); got != tops[0].start {
			return pbt.Failf("position-ftyp", "after ReadFTYP (ftyp with %d compatible brands) the reader stands at offset %d; the first top-level box starts at %d", len(c.Compat), got, tops[0].start)
		}
		var err error
		done := 0
		for i := 0; i < k; i++ {
			if err = r.ReadMetadata(); err != nil {
				break
			}
			done++
		}
		// containment of everything the callbacks were given (well-formed and malformed alike)
		for _, cl := range calls {
			if cl.end-cl.start != len(cl.data) || cl.start < 0 || cl.end > len(file) || !bytes.Equal(cl.data, file[cl.start:cl.end]) {
				return pbt.Failf("callback-stream", "%s callback: the %d bytes its reader yielded are not the file's bytes [%d,%d) (stream advanced by %d)", cl.kind, len(cl.data), cl.start, cl.start+len(cl.data), cl.end-cl.start)
			}
			in := innermost(all, cl.start)
			// no read may pass the end any enclosing box declares (honest boxes declare their real end;
			// top-level boxes are always honest, so the walk ends at a real boundary)
			for a := in; a != nil; a = a.parent {
				if cl.end > a.declaredEnd {
					return pbt.Failf("escape:"+cl.kind, "%s callback inside box %q [%d,%d) (declared end %d) read up to offset %d, past the declared end %d of enclosing box %q [%d,%d)", cl.kind, in.n.Type, in.start, in.end, in.declaredEnd, cl.end, a.declaredEnd, a.n.Type, a.start, a.end)
				}
			}
		}
		if c.Mal {
			if err == nil && pos() != nextStart(tops, k, len(file)) {
				return pbt.Failf("position-malformed", "after %d top-level boxes (one child declares a wrong size) ReadMetadata returned nil but the reader stands at offset %d, the next top-level box starts at %d", k, pos(), nextStart(tops, k, len(file)))
			}
			if err != nil {
				// the box whose content ReadMetadata rejects is a top-level box with an honest size all the same: it counts as
				// processed, and the bytes consumed for it are its size (a caller that goes on reads the next box, not payload)
				if want := nextStart(tops, done+1, len(file)); pos() != want {
					return pbt.Failf("position-after-error", "ReadMetadata #%d returned %v for top-level box %q [%d,%d) and left the reader at offset %d: the next top-level box starts at %d (the next call would read payload bytes as a box header)",
						done+1, err, tops[done].n.Type, tops[done].start, tops[done].end, pos(), want)
				}
				break
			}
			continue
		}
		if err != nil {
			return pbt.Failf("error", "ReadMetadata #%d failed on a well-formed tree: %v (top-level box %q at %d)", done+1, err, tops[done].n.Type, tops[done].start)
		}
		if got, wantPos := pos(), nextStart(tops, k, len(file)); got != wantPos {
			return pbt.Failf("position", "after ReadFTYP and %d ReadMetadata calls the reader stands at offset %d; top-level box #%d (%q) ends / the next one starts at %d", k, got, k, tops[k-1].n.Type, wantPos)
		}
	}
	if c.Mal {
		return nil
	}
	// HEIF Exif item: its callback is only required to stay inside the item (checked here) and the mdat box (checked
	// above); the listed properties specify the exact byte range only for the CR3 callbacks
	kept := calls[:0]
	for _, cl := range calls {
		if in := innermost(all, cl.start); cl.kind == "exif" && in != nil && in.n.Role == "mdatitem" {
			heifCallbacks++
			rec.Class("heif-item-exif-callback-delivered", 1)
			if cl.start < in.cbStart || cl.end > in.cbEnd {
				return pbt.Failf("escape:heif-item", "the Exif callback for the HEIF item [%d,%d) was given file bytes [%d,%d)", in.cbStart, in.cbEnd, cl.start, cl.end)
			}
			continue
		}
		kept = append(kept, cl)
	}
	calls = kept
	// the last walk visited every top-level box: the callbacks must be exactly the model's, in file order
	if len(calls) != len(want) {
		return pbt.Failf("callback-count", "callbacks ran %d times (%s), the tree holds %d CMT / xpacket / PRVW boxes (%s)", len(calls), kindsOf(calls), len(want), rolesOf(want))
	}
	for i, w := range want {
		g := calls[i]
		wk := map[string]string{"xpacket": "xmp", "prvw": "preview"}[w.n.Role]
		if wk == "" {
			wk = "exif"
		}
		if g.kind != wk {
			return pbt.Failf("callback-kind", "callback %d is %s, the tree's box %d in file order is %s", i, g.kind, i, w.n.Role)
		}
		if g.readErr != nil {
			return pbt.Failf("callback-readall:"+wk, "io.ReadAll on the reader handed to the %s callback for box %q failed: %v (after %d of %d bytes)", wk, w.n.Type, g.readErr, len(g.data), w.cbEnd-w.cbStart)
		}
		if c.CB != "" {
			if g.start != w.cbStart || g.end > w.cbEnd {
				return pbt.Failf("callback-range:"+wk, "%s callback for box %q: its reader started at file offset %d and was read to %d, the payload is [%d,%d)", wk, w.n.Type, g.start, g.end, w.cbStart, w.cbEnd)
			}
		} else if g.start != w.cbStart || g.end != w.cbEnd {
			return pbt.Failf("callback-range:"+wk, "%s callback for box %q [%d,%d): its reader yielded file bytes [%d,%d), the payload is [%d,%d)", wk, w.n.Type, w.start, w.end, g.start, g.end, w.cbStart, w.cbEnd)
		}
		switch wk {
		case "exif":
			if g.h.ByteOrder != w.hdr.ByteOrder || g.h.FirstIfdOffset != w.hdr.FirstIfdOffset || g.h.ExifLength != w.hdr.ExifLength || g.h.FirstIfd != w.hdr.FirstIfd {
				return pbt.Failf("exif-header", "box %s: Exif callback header {order %v, first IFD %d, length %d, directory %v}, the box holds {order %v, first IFD %d, length %d, directory %v}",
					w.n.Type, g.h.ByteOrder, g.h.FirstIfdOffset, g.h.ExifLength, g.h.FirstIfd, w.hdr.ByteOrder, w.hdr.FirstIfdOffset, w.hdr.ExifLength, w.hdr.FirstIfd)
			}
		case "preview":
			if int(g.ph.Size) != w.prvwLen || int(g.ph.Width) != w.prvwW || int(g.ph.Height) != w.prvwH {
				return pbt.Failf("preview-header", "PRVW callback header {size %d, %dx%d}, the box holds {size %d, %dx%d}", g.ph.Size, g.ph.Width, g.ph.Height, w.prvwLen, w.prvwW, w.prvwH)
			}
		}
	}
	// camera layout (moov, xpacket, preview first): PreviewCR3 returns exactly the PRVW payload
	if len(tops) >= 3 && c.Brand == "crx " && tops[0].n.Type == "moov" && tops[1].n.Role == "xpacket" && tops[2].n.Role == "preview" && len(tops[2].kids) == 1 {
		pv := tops[2].kids[0]
		got, err := imagemeta.PreviewCR3(bytes.NewReader(file))
		if err != nil || !bytes.Equal(got, file[pv.cbStart:pv.cbEnd]) {
			return pbt.Failf("previewcr3", "PreviewCR3 returned %d bytes (err %v); the PRVW box holds %d preview bytes at [%d,%d); equal: %v", len(got), err, pv.cbEnd-pv.cbStart, pv.cbStart, pv.cbEnd, bytes.Equal(got, file[pv.cbStart:pv.cbEnd]))
		}
	}
	return nil
}

var heifCallbacks int

func nextStart(tops []*placed, k, flen int) int {
	if k < len(tops) {
		return tops[k].start
	}
	return flen
}

func innermost(all []*placed, off int) *placed {
	var best *placed
	for _, p := range all {
		if off >= p.start && off < p.end && (best == nil || p.depth > best.depth) {
			best = p
		}
	}
	return best
}

func kindsOf(cs []call) string {
	s := ""
	for _, c := range cs {
		s += c.kind + " "
	}
	return s
}

func rolesOf(ps []*placed) string {
	s := ""
	for _, p := range ps {
		s += p.n.Role + " "
	}
	return s
}

// ------------------------------------------------------------- generator ----

func opaqueNode(rt *rapid.T, depth int) Node {
	t := rapid.SampledFrom([]string{"free", "skip", "zzzz", "CCTP", "THMB", "mvhd", "abcd", "CCDT", "CTMD"}).Draw(rt, "otype")
	n := Node{Type: t, Len: rapid.SampledFrom([]int{0, 1, 4, 7, 8, 16, 40, 100, 500, 5000}).Draw(rt, "olen"), Large: gen.Chance(rt, "large?", 0.15)}
	if depth < 4 && gen.Chance(rt, "nest?", 0.25) {
		n.Type = rapid.SampledFrom([]string{"trak", "mdia", "minf", "stbl", "dinf"}).Draw(rt, "ctype")
		n.Len = 0
		for i, k := 0, rapid.IntRange(0, 3).Draw(rt, "nk"); i < k; i++ {
			n.Kids = append(n.Kids, opaqueNode(rt, depth+1))
		}
	}
	return n
}

func cmtNode(rt *rapid.T, i int) Node {
	first := rapid.SampledFrom([]int{8, 8, 8, 9, 16, 26, 100}).Draw(rt, "first")
	return Node{Type: fmt.Sprintf("CMT%d", i), Role: fmt.Sprintf("cmt%d", i), Len: first + rapid.SampledFrom([]int{6, 7, 8, 10, 30, 200, 511, 512, 513, 1538, 4096, 6000}).Draw(rt, "cmtlen"),
		FirstIFD: first, MM: rapid.Bool().Draw(rt, "mm"), Large: gen.Chance(rt, "large?", 0.1)}
}

func genTop(rt *rapid.T, brand string) Node {
	switch rapid.IntRange(0, 7).Draw(rt, "topkind") {
	case 0, 1: // moov with the Canon metadata box
		canon := Node{Type: "uuid", Role: "canon"}
		canon.Kids = append(canon.Kids, Node{Type: "CNCV", Role: "cncv"})
		if rapid.Bool().Draw(rt, "cctp") {
			canon.Kids = append(canon.Kids, opaqueNode(rt, 3))
		}
		canon.Kids = append(canon.Kids, Node{Type: "CTBO", Role: "ctbo"})
		for i := 1; i <= 4; i++ {
			if rapid.Bool().Draw(rt, "cmt?") {
				canon.Kids = append(canon.Kids, cmtNode(rt, i))
			}
			if gen.Chance(rt, "between?", 0.2) {
				canon.Kids = append(canon.Kids, opaqueNode(rt, 3))
			}
		}
		if gen.Chance(rt, "tiny-last?", 0.3) { // a last child of 8..15 bytes
			canon.Kids = append(canon.Kids, Node{Type: "free", Len: rapid.IntRange(0, 7).Draw(rt, "tiny")})
		}
		moov := Node{Type: "moov", Large: gen.Chance(rt, "large?", 0.1)}
		before := rapid.IntRange(0, 2).Draw(rt, "mbefore")
		for i := 0; i < before; i++ {
			moov.Kids = append(moov.Kids, opaqueNode(rt, 2))
		}
		moov.Kids = append(moov.Kids, canon)
		for i, k := 0, rapid.IntRange(0, 2).Draw(rt, "mafter"); i < k; i++ {
			moov.Kids = append(moov.Kids, opaqueNode(rt, 2))
		}
		return moov
	case 2:
		return Node{Type: "uuid", Role: "xpacket", Len: rapid.SampledFrom([]int{0, 1, 100, 511, 512, 1537, 1538, 1539, 4095, 4096, 4097, 9000}).Draw(rt, "xlen"), Large: gen.Chance(rt, "large?", 0.1)}
	case 3:
		pv := Node{Type: "PRVW", Role: "prvw", Len: rapid.SampledFrom([]int{0, 1, 100, 2047, 2048, 2049, 4096, 10000}).Draw(rt, "plen"), Large: gen.Chance(rt, "prvw.large?", 0.15)}
		return Node{Type: "uuid", Role: "preview", Kids: []Node{pv}}
	case 4: // meta (HEIF style)
		m := Node{Type: "meta", Full: true}
		m.Kids = append(m.Kids, Node{Type: "hdlr", Role: "hdlr", Full: true}, Node{Type: "pitm", Role: "pitm", Full: true})
		for i, k := 0, rapid.IntRange(0, 3).Draw(rt, "metak"); i < k; i++ {
			m.Kids = append(m.Kids, opaqueNode(rt, 2))
		}
		return m
	case 5:
		return Node{Type: "mdat", Len: rapid.SampledFrom([]int{8, 64, 300, 5000}).Draw(rt, "mdat"), Large: gen.Chance(rt, "large?", 0.3)}
	default:
		return opaqueNode(rt, 1)
	}
}

func countNodes(ns []Node) (n, depth int, cb int) {
	for _, x := range ns {
		k, d, c := countNodes(x.Kids)
		n += 1 + k
		if d+1 > depth {
			depth = d + 1
		}
		cb += c
		switch x.Role {
		case "xpacket", "prvw", "cmt1", "cmt2", "cmt3", "cmt4":
			cb++
		}
	}
	return
}

// genHeifItem: meta{hdlr, pitm, iinf(Exif item), iloc -> item, ...}, further top-level boxes, mdat holding the item
// ItemAt bytes into its payload (0 = first payload byte), optionally with a 64-bit size header.
func genHeifItem(rt *rapid.T) Case {
	c := Case{Brand: rapid.SampledFrom([]string{"heic", "avif", "mif1", "heix"}).Draw(rt, "brand")}
	m := Node{Type: "meta", Full: true}
	m.Kids = append(m.Kids, Node{Type: "hdlr", Role: "hdlr", Full: true}, Node{Type: "pitm", Role: "pitm", Full: true})
	kids := []Node{{Type: "iinf", Role: "iinf", Full: true}, {Type: "iloc", Role: "iloc", Full: true}}
	if rapid.Bool().Draw(rt, "iloc-first") {
		kids[0], kids[1] = kids[1], kids[0]
	}
	for _, k := range kids {
		if gen.Chance(rt, "between?", 0.3) {
			m.Kids = append(m.Kids, opaqueNode(rt, 2))
		}
		m.Kids = append(m.Kids, k)
	}
	c.Top = append(c.Top, m)
	for i, k := 0, rapid.IntRange(0, 2).Draw(rt, "between-top"); i < k; i++ {
		if gen.Chance(rt, "plain-mdat-before?", 0.3) { // image data in an mdat of its own, in front of the one that holds the item
			c.Top = append(c.Top, Node{Type: "mdat", Len: rapid.SampledFrom([]int{0, 8, 64, 300, 5000}).Draw(rt, "mdat0"), Large: gen.Chance(rt, "large?", 0.2)})
			continue
		}
		c.Top = append(c.Top, opaqueNode(rt, 1))
	}
	at := rapid.SampledFrom([]int{0, 1, 2, 3, 4, 5, 6, 7, 8, 9, 12, 16, 17, 100, 4000, 4060, 4070, 4080, 4096, 9000}).Draw(rt, "item_at")
	if at >= 4000 && at < 9000 {
		at += rapid.IntRange(0, 40).Draw(rt, "item_at_d")
	}
	c.Top = append(c.Top, Node{Type: "mdat", Role: "mdatitem", ItemAt: at, ItemLen: rapid.SampledFrom([]int{36, 37, 40, 200, 3000, 5000}).Draw(rt, "item_len"),
		Len: rapid.SampledFrom([]int{0, 1, 7, 8, 64, 300}).Draw(rt, "after"), MM: rapid.Bool().Draw(rt, "mm"), Large: gen.Chance(rt, "large?", 0.2)})
	if rapid.Bool().Draw(rt, "trailing-box") {
		if gen.Chance(rt, "plain-mdat-after?", 0.4) {
			c.Top = append(c.Top, Node{Type: "mdat", Len: rapid.SampledFrom([]int{0, 8, 64, 300, 5000}).Draw(rt, "mdat1")})
		} else {
			c.Top = append(c.Top, opaqueNode(rt, 1))
		}
	}
	return c
}

func genWell(rt *rapid.T) Case {
	c := genWell0(rt)
	c.Buf = rapid.SampledFrom([]int{0, 0, 4096, 4096, 16384}).Draw(rt, "bufio")
	c.CB = rapid.SampledFrom([]string{"", "", "", "none", "half", "negative"}).Draw(rt, "callbacks-read")
	return c
}

func genWell0(rt *rapid.T) Case {
	if gen.Chance(rt, "heif-item?", 0.15) {
		return genHeifItem(rt)
	}
	c := Case{Brand: rapid.SampledFrom([]string{"crx ", "crx ", "heic", "avif"}).Draw(rt, "brand")}
	if gen.Chance(rt, "brands?", 0.4) {
		c.Compat = rapid.SliceOfN(rapid.SampledFrom([]string{"crx ", "isom", "mif1", "heic", "avif", "miaf", "MA1B", "msf1", "hevc", "zzzz", "mp41"}), 0, 16).Draw(rt, "compat")
		if c.Compat == nil {
			c.Compat = []string{}
		}
	}
	if gen.Chance(rt, "camera-layout?", 0.3) {
		c.Brand = "crx "
		moov := genTop(rt, c.Brand)
		for moov.Type != "moov" {
			moov = genTop(rt, c.Brand)
		}
		pv := Node{Type: "PRVW", Role: "prvw", Len: rapid.SampledFrom([]int{1, 100, 2047, 2048, 2049, 4096, 10000}).Draw(rt, "plen")}
		c.Top = []Node{moov, {Type: "uuid", Role: "xpacket", Len: rapid.IntRange(0, 3000).Draw(rt, "xlen")}, {Type: "uuid", Role: "preview", Kids: []Node{pv}}}
	} else {
		for i, k := 0, rapid.IntRange(1, 6).Draw(rt, "ntop"); i < k; i++ {
			c.Top = append(c.Top, genTop(rt, c.Brand))
		}
	}
	switch rapid.IntRange(0, 3).Draw(rt, "last") {
	case 0: // the file ends with a box of 8..15 bytes
		c.Top = append(c.Top, Node{Type: rapid.SampledFrom([]string{"free", "skip", "mdat"}).Draw(rt, "tinytype"), Len: rapid.IntRange(0, 7).Draw(rt, "tinylast")})
	case 1: // ... or with whatever the tree ends with
	default:
		c.Top = append(c.Top, Node{Type: "mdat", Len: rapid.SampledFrom([]int{64, 300}).Draw(rt, "lastmdat")})
	}
	return c
}

func record(c Case, kind string) {
	n, depth, cb := countNodes(c.Top)
	file, _, _ := c.layout()
	nt := depth >= 3 && cb >= 1
	if c.Mal {
		nt = true
	}
	cls := []string{kind, fmt.Sprintf("depth:%d", depth), fmt.Sprintf("callbacks>=1:%v", cb >= 1), "brand:" + c.Brand}
	for _, t := range c.Top {
		if t.Role == "mdatitem" {
			nt = true
			cls = append(cls, "heif-item-tree", fmt.Sprintf("heif-item-within-8-bytes-of-payload-start:%v", t.ItemAt < 8))
		}
	}
	if last := c.Top[len(c.Top)-1]; len(last.Kids) == 0 && last.Role == "" && last.Len < 8 && !last.Large && !last.Full {
		cls = append(cls, "file-ends-with-box-under-16-bytes")
	}
	rec.Case(nt, ev.Hash(file), cls...)

	if nt && n <= 14 {
		rec.Sample(kind, c)
	}
}

func genMal(rt *rapid.T) Case {
	c := genWell(rt)
	c.Mal = true
	// content the parser of a top-level box rejects, inside honest sizes
	switch rapid.IntRange(0, 7).Draw(rt, "badcontent") {
	case 0: // a uuid box too short for its 16-byte identifier
		at := rapid.IntRange(0, len(c.Top)).Draw(rt, "short-uuid-at")
		c.Top = append(c.Top[:at:at], append([]Node{{Type: "uuid", Len: rapid.IntRange(0, 15).Draw(rt, "short-uuid-len")}}, c.Top[at:]...)...)
	case 1: // the Canon metadata box as a top-level box (not closed by an enclosing moov)
		for i := range c.Top {
			if c.Top[i].Type == "moov" {
				for _, k := range c.Top[i].Kids {
					if k.Role == "canon" {
						c.Top[i] = k
						break
					}
				}
				break
			}
		}
	case 3: // an Exif item whose stated length is too short for the item prefix, the TIFF header or a directory (or far too long)
		for i := range c.Top {
			if c.Top[i].Role == "mdatitem" {
				l := rapid.SampledFrom([]int{0, 4, 10, 12, 17, 18, 20, 35, 1 << 20}).Draw(rt, "iloc-len")
				c.Top[i].IlocLen = &l
			}
		}
	case 2: // a preview box whose first child is not the PRVW box
		pv := Node{Type: "PRVW", Role: "prvw", Len: rapid.SampledFrom([]int{1, 100, 3000}).Draw(rt, "junk-plen")}
		c.Top = append(c.Top, Node{Type: "uuid", Role: "preview", Kids: []Node{{Type: "free", Len: rapid.SampledFrom([]int{0, 2, 20, 30}).Draw(rt, "junk-len")}, pv}}, Node{Type: "free", Len: 24})
	}
	// pick one non-top-level node and make it lie about its size
	var cands []*Node
	var walk func(ns []Node, top bool)
	walk = func(ns []Node, top bool) {
		for i := range ns {
			if !top {
				cands = append(cands, &ns[i])
			}
			walk(ns[i].Kids, false)
		}
	}
	walk(c.Top, true)
	if len(cands) == 0 {
		c.Top = append([]Node{{Type: "moov", Kids: []Node{{Type: "uuid", Role: "canon", Kids: []Node{cmtNode(rt, 1)}}}}}, c.Top...)
		walk(c.Top[:1], true)
	}
	lie := func(v *Node) {
		if rapid.Bool().Draw(rt, "small") {
			d := int64(rapid.SampledFrom([]int{0, 2, 3, 4, 7}).Draw(rt, "declared"))
			v.Declared = &d
		} else {
			v.Over = int64(rapid.SampledFrom([]int{1, 2, 7, 8, 9, 100, 4096, 65536, 1 << 20, 1<<31 - 40000}).Draw(rt, "over"))
		}
	}
	v := cands[rapid.IntRange(0, len(cands)-1).Draw(rt, "victim")]
	lie(v)
	// often a whole chain lies: the victim's children and grandchildren overstate too ("whatever sizes its children declare")
	if rapid.Bool().Draw(rt, "chain") {
		for lvl, cur := 0, v; lvl < 3 && len(cur.Kids) > 0; lvl++ {
			// prefer a callback-bearing child
			k := &cur.Kids[rapid.IntRange(0, len(cur.Kids)-1).Draw(rt, "kid")]
			for i := range cur.Kids {
				if r := cur.Kids[i].Role; (r == "cmt1" || r == "cmt2" || r == "cmt3" || r == "cmt4" || r == "prvw" || r == "canon") && rapid.Bool().Draw(rt, "prefer") {
					k = &cur.Kids[i]
				}
			}
			k.Over = int64(rapid.SampledFrom([]int{8, 64, 100, 4096, 65536, 1 << 20}).Draw(rt, "kidover"))
			k.Declared = nil
			cur = k
		}
	}
	return c
}

var chk = pbt.Check[Case]{Name: "box-containment", Eval: eval, Gen: func(rt *rapid.T) Case { c := genWell(rt); record(c, "well-formed"); return c }}
var chkMal = pbt.Check[Case]{Name: "box-containment-malformed-child", Eval: eval, Gen: func(rt *rapid.T) Case { c := genMal(rt); record(c, "malformed-child"); return c }}

func init() { pbt.Register(chk); pbt.Register(chkMal) }

func TestProp(t *testing.T) {
	defer rec.MustWrite()
	rec.Rule("box trees: ftyp (crx / heic / avif) followed by 1-7 top-level boxes from {moov[before*, uuid-canon[CNCV, CCTP?, CTBO, CMT1..4 with first-IFD offsets 8..100 and both byte orders, opaque boxes between, a last child of 8..15 bytes], after*], uuid-xpacket (0..9000 bytes), uuid-preview[PRVW (0..10000 bytes)], meta[hdlr, pitm, opaque*], mdat, opaque / nested unknown containers to depth 5}, 32- and 64-bit size headers, full-box headers; " +
		"the ftyp box lists 0..16 compatible brands; every opaque payload byte is a function of its absolute offset. For k = 1..n the file is read with ReadFTYP + k x ReadMetadata through a caller-supplied bufio.Reader and recording callbacks that io.ReadAll their reader. " +
		"oracle (computed by the writer): error nil and stream position == start of top-level box k+1 after every step; callbacks exactly the CMT/xpacket/PRVW boxes in file order; the bytes each callback's reader yields are exactly the file's bytes of that payload (CMT: from the first IFD to the end of the box); header fields (byte order, first IFD, length, directory type CMT1 root / CMT2 Exif / CMT3 maker note / CMT4 GPS; PRVW size and dimensions); PreviewCR3 on camera-layout files returns the PRVW payload. " +
		"malformed variant: one non-top-level box, and often a chain of its descendants, declare real size + {1..2^31} or a size < 8: whatever a callback reads must be file bytes inside every enclosing box, and a nil return must leave the reader at the next top-level box. HEIF item trees (15 %): meta[hdlr, pitm, iinf with an Exif item, iloc pointing at it, opaque*] + mdat holding the item 0..9040 bytes into its payload (position and nil error after every step; the Exif callback confined to the item); a quarter of the files end in a box of 8..15 bytes. non-trivial = depth >= 3 with >= 1 callback box, a HEIF item tree, or a malformed child; distinct by file bytes")
	rec.Assume("a HEIF Exif item holds at least the 10-byte item prefix, a TIFF header and a one-entry directory (36 bytes): for shorter items the reader reports an error, which is not a containment question")
	rec.Rule("exhaustive shift: a fixed CR3 tree (moov[free(L), uuid-canon[CNCV, CTBO, CMT1..CMT4]], uuid-xpacket, uuid-preview[PRVW], mdat) and a fixed HEIF item tree (meta[free(L), hdlr, pitm, iinf, iloc], mdat with the item 20 bytes in) for every L = 0..4300 (thorough 12500): every box header, full-box header, table and callback payload crosses every 4 KiB reader-buffer boundary at every phase")
	pbt.RegressDir(t, rec)
	{
		idx := 0
		for L := 0; L <= rec.Env.Pick(4300, 12500); L++ {
			for _, heif := range []bool{false, true} {
				idx++
				if idx%rec.Env.Shards != rec.Env.Shard {
					continue
				}
				var c Case
				if heif {
					c = Case{Brand: "heic", Top: []Node{
						{Type: "meta", Full: true, Kids: []Node{{Type: "free", Len: L}, {Type: "hdlr", Role: "hdlr", Full: true}, {Type: "pitm", Role: "pitm", Full: true}, {Type: "iinf", Role: "iinf", Full: true}, {Type: "iloc", Role: "iloc", Full: true}}},
						{Type: "mdat", Role: "mdatitem", ItemAt: 20, ItemLen: 200, Len: 64, MM: L%2 == 1}}}
				} else {
					canon := Node{Type: "uuid", Role: "canon", Kids: []Node{{Type: "CNCV", Role: "cncv"}, {Type: "CTBO", Role: "ctbo"},
						{Type: "CMT1", Role: "cmt1", Len: 120, MM: L%2 == 1}, {Type: "CMT2", Role: "cmt2", Len: 300, FirstIFD: 16}, {Type: "CMT3", Role: "cmt3", Len: 90}, {Type: "CMT4", Role: "cmt4", Len: 60, MM: true}}}
					c = Case{Brand: "crx ", Top: []Node{
						{Type: "moov", Kids: []Node{{Type: "free", Len: L}, canon, {Type: "trak", Len: 40}}},
						{Type: "uuid", Role: "xpacket", Len: 333},
						{Type: "uuid", Role: "preview", Kids: []Node{{Type: "PRVW", Role: "prvw", Len: 700}}},
						{Type: "mdat", Len: 64}}}
				}
				c.Buf = 4096
				rec.Case(true, ev.HashS("shift", fmt.Sprint(L, heif)), "buffer-boundary-sweep")
				if f := eval(c); f != nil {
					if pbt.Report(t, rec, chk.Name, c, f) {
						return
					}
				}
			}
		}
	}
	if !pbt.Run(t, rec, chk, rec.Env.Pick(3000, 120000), 1) {
		return
	}
	pbt.Run(t, rec, chkMal, rec.Env.Pick(2000, 80000), 2)
}

func TestReplay(t *testing.T) { pbt.Replay(t, rec) }
