// C02 — every decode terminates after work linear in the input size.
// Oracle: bytes requested from the instrumented reader <= 4*len+64KiB, read
// calls <= len+1024, and return within the watchdog (10 s + 50 us/byte,
// confirmed by one re-run in a fresh worker with twice the budget).
package c02

import (
	"bytes"
	"fmt"
	"os"
	"strings"
	"testing"
	"time"

	"pgregory.net/rapid"

	"verif/internal/ev"
	"verif/internal/gen"
	"verif/internal/pbt"
	"verif/internal/worker"
)

var rec = ev.New("C02")
var cl = &worker.Client{VLimitKB: 16 << 20}
var inconclusive int

func TestMain(m *testing.M) {
	worker.MaybeServe()
	code := m.Run()
	cl.Close()
	os.Exit(code)
}

type Case struct {
	Req    worker.Req `json:"req"`
	Origin string     `json:"origin"`
	Loops  int        `json:"loop_constructs"`
	Ops    []string   `json:"ops,omitempty"`
}

func eval(c Case) *pbt.Fail {
	c.Req.Entry = ownEntry(c.Req.Entry)
	n := len(c.Req.Input)
	wd := worker.Watchdog(n)
	r := cl.Do(c.Req, wd)
	cls := []string{"entry:" + c.Req.Entry, "origin:" + c.Origin}
	rec.Case(c.Loops > 0 && n >= 32, ev.Hash([]byte(c.Req.Entry), c.Req.Input), cls...)
	if r.Hung {
		// confirm once, alone, with twice the budget
		fresh := &worker.Client{VLimitKB: 16 << 20}
		r2 := fresh.Do(c.Req, 2*wd)
		fresh.Close()
		if !r2.Hung {
			inconclusive++
			rec.Inconclusive(1)
			fmt.Printf("NOTE C02: watchdog expired once for %s on %d bytes but the re-run returned (machine load?)\n", c.Req.Entry, n)
			r = r2
		} else {
			return pbt.Failf(c.Req.Entry+"/hang/"+r2.PanicFrame, "%s did not return within %v (re-run with %v also expired) on a %d-byte input; stuck in %s",
				c.Req.Entry, wd, 2*wd, n, r2.PanicFrame)
		}
	}
	if c.Loops > 0 && n >= 32 {
		rec.Sample(c.Origin, worker.Render(c.Req, c.Origin, c.Ops, r))
	}
	if r.Died || r.Panic != "" {
		rec.Class("crashed(C01)", 1)
		return nil // crashes are C01's subject
	}
	if r.Aborted != "" {
		return pbt.Failf("", "worker protocol problem: %s", r.Aborted)
	}
	if lim := int64(4*n + 64<<10); r.Requested > lim {
		return pbt.Failf(c.Req.Entry+"/requested", "%s requested %d bytes from the reader for a %d-byte input (limit 4*len+64KiB = %d), %d Read calls, %d Seek calls",
			c.Req.Entry, r.Requested, n, lim, r.ReadCalls, r.SeekCalls)
	}
	if lim := int64(n + 1024); r.ReadCalls > lim {
		return pbt.Failf(c.Req.Entry+"/readcalls", "%s made %d Read calls for a %d-byte input (limit len+1024)", c.Req.Entry, r.ReadCalls, n)
	}
	// work that asks nothing of the reader: processor time of the worker process (user + system, from getrusage: it does not
	// grow when the machine is busy the way wall-clock time does). Ordinary decoding costs 0.01-0.15 us per byte; the limit
	// is 0.3 s + 2 us per byte, and an excess is measured twice more in a fresh worker: only the smallest of the three counts
	cpuLim := func() int64 { return 300e6 + 2000*int64(n) }
	if r.CPUNs > cpuLim() {
		min := r.CPUNs
		for i := 0; i < 2 && min > cpuLim(); i++ {
			fresh := &worker.Client{VLimitKB: 16 << 20}
			r2 := fresh.Do(c.Req, 2*wd)
			fresh.Close()
			if !r2.Hung && !r2.Died && r2.CPUNs < min {
				min = r2.CPUNs
			}
		}
		if min > cpuLim() {
			return pbt.Failf(c.Req.Entry+"/cpu", "%s used %.2f s of processor time on a %d-byte input (%.1f us per byte; limit 0.3 s + 2 us per byte; smallest of three measurements), %d bytes requested from the reader: work that does not consume input",
				c.Req.Entry, float64(min)/1e9, n, float64(min)/1e3/float64(n+1), r.Requested)
		}
		rec.Class("cpu-excess-not-confirmed", 1)
	}
	return nil
}

// loopy builds inputs aimed at the loops of the parsers.
func loopy(rt *rapid.T) (string, []byte, string) {
	switch rapid.IntRange(0, 14).Draw(rt, "loopy") {
	case 14: // XMP values made of '&' (every one starts an entity look-up), as long as the reader's window allows
		return "xmp", nil, "xmp-ampersands" // (built in genCase, which also picks the caller's buffer size)
	case 13: // iloc boxes whose items declare the largest extent count: what is done per declared extent is done 65535 times per 6-byte item
		k := rapid.SampledFrom([]int{4, 30, 60}).Draw(rt, "nilocs")
		cnt := rapid.SampledFrom([]uint16{0xffff, 0xffff, 0x8000, 1000}).Draw(rt, "extents")
		var entries []byte
		for i := 0; i < 679; i++ {
			entries = append(entries, 0, byte(i%250+1), 0, 0, byte(cnt>>8), byte(cnt))
		}
		iloc := &gen.Box{Type: "iloc", Full: true, Data: append([]byte{0, 0, 0xff, 0xff}, entries...)}
		meta := &gen.Box{Type: "meta", Full: true}
		for i := 0; i < k; i++ {
			meta.Kids = append(meta.Kids, iloc)
		}
		brand := rapid.SampledFrom([]string{"avif", "heic", "crx "}).Draw(rt, "brand")
		out := gen.Ftyp(brand, 0, brand, "mif1").Serialise(0)
		out = append(out, meta.Serialise(len(out))...)
		out = append(out, (&gen.Box{Type: "mdat", Data: make([]byte, 64)}).Serialise(len(out))...)
		kind := "heif"
		if brand == "crx " {
			kind = "cr3"
		}
		return kind, out, "iloc-many-extents"
	case 12: // SubIFDs arrays of up to 128 directory pointers: forward, backward, beyond the end of the file
		b, _ := gen.SubIFDsTIFF(rt)
		return "tiff", b, "tiff-subifds-array"
	case 11: // XMP with one token (text, attribute value, white-space run, tag name) of 20 KB .. 1 MB, whole or cut
		n := rapid.SampledFrom([]int{20000, 100000, 300000, 1000000}).Draw(rt, "toklen")
		fill := rapid.SampledFrom([]string{"v", " ", "<", "&amp;", "\"", "a=\"b\" "}).Draw(rt, "tokfill")
		long := strings.Repeat(fill, n/len(fill))
		head := "<x:xmpmeta xmlns:x=\"adobe:ns:meta/\"><rdf:RDF xmlns:rdf=\"http://www.w3.org/1999/02/22-rdf-syntax-ns#\"><rdf:Description rdf:about=\"\" xmlns:tiff=\"http://ns.adobe.com/tiff/1.0/\""
		var body string
		switch rapid.IntRange(0, 3).Draw(rt, "tokwhere") {
		case 0:
			body = head + "><tiff:Make>" + long + "</tiff:Make>"
		case 1:
			body = head + " tiff:Make=\"" + long + "\">"
		case 2:
			body = head + ">" + long + "<tiff:Make>x</tiff:Make>"
		default:
			body = head + "><tiff:" + long + ">x</tiff:" + long + ">"
		}
		if rapid.Bool().Draw(rt, "closed") {
			body += "</rdf:Description></rdf:RDF></x:xmpmeta>"
		}
		return "xmp", []byte(body), "xmp-huge-token"
	case 10: // PNG chunks whose 32-bit length is negative as a signed number / wraps when the CRC size is added: a scanner that
		// seeks by it may step back onto a chunk it has read
		b := []byte("\x89PNG\r\n\x1a\n\x00\x00\x00\rIHDR\x00\x00\x00\x10\x00\x00\x00\x10\x08\x02\x00\x00\x00\x90\x91\x68\x36")
		var starts []int
		for i, n := 0, rapid.IntRange(0, 3).Draw(rt, "chunks"); i < n; i++ {
			starts = append(starts, len(b))
			d := rapid.SliceOfN(rapid.Byte(), 0, 40).Draw(rt, "chunk")
			b = append(b, byte(len(d)>>24), byte(len(d)>>16), byte(len(d)>>8), byte(len(d)))
			b = append(b, rapid.SampledFrom([]string{"tEXt", "gAMA", "pHYs", "zTXt"}).Draw(rt, "ctype")...)
			b = append(append(b, d...), 0, 0, 0, 0)
		}
		here := len(b)
		back := rapid.IntRange(1, 64).Draw(rt, "back")
		if len(starts) > 0 && rapid.Bool().Draw(rt, "to-earlier-chunk") { // length + CRC size + the 8 header bytes lands on an earlier chunk header
			back = here + 8 - starts[rapid.IntRange(0, len(starts)-1).Draw(rt, "which")] + 4
		}
		l := uint32(0) - uint32(back)
		b = append(b, byte(l>>24), byte(l>>16), byte(l>>8), byte(l))
		b = append(b, rapid.SampledFrom([]string{"tEXt", "iTXt", "IDAT", "prVt"}).Draw(rt, "ltype")...)
		b = append(b, rapid.SliceOfN(rapid.Byte(), 0, 60).Draw(rt, "rest")...)
		b = append(b, []byte("\x00\x00\x00\x08eXIfII*\x00\x08\x00\x00\x00\x00\x00\x00\x00\x00\x00\x00\x00IEND")...)
		return "png", b, "png-negative-lengths"
	case 0: // JPEG: EOI followed by markers, marker bytes at SOI depth 0
		b := []byte{0xFF, 0xD8}
		for i, n := 0, rapid.IntRange(0, 3).Draw(rt, "segs"); i < n; i++ {
			b = append(b, gen.SegBytes(gen.OtherSeg(rt, "seg"))...)
		}
		b = append(b, 0xFF, 0xD9)
		tail := rapid.SliceOfN(rapid.SampledFrom([]byte{0xFF, 0xFF, 0xD8, 0xD9, 0xE1, 0x00, 0x10, 0xDB, 0x41}), 64, 300).Draw(rt, "tail")
		return "jpeg", append(b, tail...), "jpeg-after-eoi"
	case 1: // marker soup without SOI
		return "jpeg", append([]byte{0xFF, 0xD8, 0xFF, 0xD9}, rapid.SliceOfN(rapid.SampledFrom([]byte{0xFF, 0xE1, 0xD8, 0xD9, 0x00, 0x02}), 64, 400).Draw(rt, "soup")...), "jpeg-soup"
	case 2: // iinf / iloc with zero and tiny sizes
		infe := rapid.SliceOfN(rapid.SampledFrom([]byte{0, 0, 0, 1, 8, 12, 21, 'i', 'n', 'f', 'e', 2}), 8, 120).Draw(rt, "infe")
		iinf := &gen.Box{Type: "iinf", Full: true, Data: append([]byte{0, 1}, infe...)}
		ilocd := rapid.SliceOfN(rapid.SampledFrom([]byte{0, 0, 1, 0x44, 0x88, 0x04, 0xff, 2}), 4, 80).Draw(rt, "iloc")
		iloc := &gen.Box{Type: "iloc", Full: true, Data: ilocd}
		meta := &gen.Box{Type: "meta", Full: true, Kids: []*gen.Box{iinf, iloc}}
		ft := gen.Ftyp("avif", 0, "avif", "mif1", "miaf")
		out := ft.Serialise(0)
		out = append(out, meta.Serialise(len(out))...)
		out = append(out, make([]byte, 64)...)
		return "avif", out, "bmff-iinf-iloc"
	case 3: // TIFF scan input made of partial signatures
		b := rapid.SliceOfN(rapid.SampledFrom([]byte{'I', 'M', '*', 0, 'x'}), 40, 3000).Draw(rt, "partials")
		return "tiff", append([]byte("\x00\x00\x00\x18ftypheic\x00\x00\x00\x00mif1heic"), b...), "tiff-partial-signatures"
	case 4: // XMP with long white-space runs and unterminated tokens
		b := []byte("<x:xmpmeta xmlns:x=\"adobe:ns:meta/\"><rdf:RDF><rdf:Description")
		b = append(b, rapid.SliceOfN(rapid.SampledFrom([]byte{' ', ' ', '\n', '\t', 'a', '=', '"', '<', ':'}), 0, 4000).Draw(rt, "ws")...)
		return "xmp", b, "xmp-whitespace"
	case 5: // IFD cycles: sub-directory pointers to themselves / back to IFD0
		f := gen.GenExif(rt, gen.Options{Unbuffered: true, MaxForeign: 2})
		b := append([]byte{}, f.Enc.II...)
		for _, s := range f.Enc.Sites {
			if strings.HasSuffix(s.Name, ".value") && (strings.Contains(s.Name, ":8769]") || strings.Contains(s.Name, ":8825]") || strings.Contains(s.Name, ":014a]")) || strings.HasSuffix(s.Name, ".next") {
				if s.Off+4 <= len(b) && rapid.Bool().Draw(rt, "cycle") {
					v := uint32(rapid.SampledFrom([]int{8, f.FirstIFD, s.Off - 10, s.Off}).Draw(rt, "cycleTo"))
					b[s.Off], b[s.Off+1], b[s.Off+2], b[s.Off+3] = byte(v), byte(v>>8), byte(v>>16), byte(v>>24)
				}
			}
		}
		return "tiff", b, "ifd-cycle"
	case 9: // JPEG markers of every kind whose length field sits at the ends of its 16-bit range
		b := []byte{0xFF, 0xD8}
		for i, n := 0, rapid.IntRange(0, 2).Draw(rt, "pre"); i < n; i++ {
			b = append(b, gen.SegBytes(gen.OtherSeg(rt, "pre"))...)
		}
		for i, n := 0, rapid.IntRange(1, 3).Draw(rt, "edges"); i < n; i++ {
			m := rapid.SampledFrom([]byte{0xC0, 0xC1, 0xC2, 0xC3, 0xC5, 0xCF, 0xC4, 0xDB, 0xDD, 0xE0, 0xE1, 0xE2, 0xED, 0xEF, 0xFE, 0xF0, 0x01}).Draw(rt, "marker")
			l := rapid.SampledFrom([]int{0, 1, 2, 3, 4, 0xFFFC, 0xFFFD, 0xFFFE, 0xFFFF}).Draw(rt, "length")
			b = append(b, 0xFF, m, byte(l>>8), byte(l))
			if m == 0xE1 && rapid.Bool().Draw(rt, "exifprefix") {
				b = append(b, gen.ExifPrefix...)
			}
			b = append(b, bytes.Repeat([]byte{0xFF, m, byte(l >> 8), byte(l), 0x11, 0x22}, rapid.SampledFrom([]int{12, 700, 11000}).Draw(rt, "fill"))...)
		}
		b = append(b, gen.SegBytes(gen.DQT())...)
		return "jpeg", append(b, make([]byte, 80)...), "jpeg-length-edges"
	case 7: // XMP whose attribute / element values run up to and beyond the reader's look-ahead window, whole or cut mid-value
		val := func(label string) []byte {
			n := rapid.SampledFrom([]int{100, 127, 128, 253, 255, 256, 511, 512, 1023, 1024, 1025, 1500, 1537, 1538, 1539, 1600, 2048, 3100, 4097, 9000}).Draw(rt, label+".len") + rapid.IntRange(-3, 3).Draw(rt, label+".d")
			return bytes.Repeat([]byte{rapid.SampledFrom([]byte{'a', ' ', '\n', '=', ':', '/', '>'}).Draw(rt, label+".ch")}, n)
		}
		b := []byte("<x:xmpmeta xmlns:x=\"adobe:ns:meta/\"><rdf:RDF xmlns:rdf=\"http://www.w3.org/1999/02/22-rdf-syntax-ns#\"><rdf:Description rdf:about=\"\" xmlns:dc=\"http://purl.org/dc/elements/1.1/\" xmlns:xmp=\"http://ns.adobe.com/xap/1.0/\"")
		if rapid.Bool().Draw(rt, "attr?") {
			b = append(append(append(b, " xmp:CreatorTool=\""...), val("attr")...), '"')
		}
		b = append(b, '>')
		for i, n := 0, rapid.IntRange(1, 3).Draw(rt, "elems"); i < n; i++ {
			name := rapid.SampledFrom([]string{"xmp:Label", "dc:format", "xmp:CreatorTool", "xmp:Unknown", "dc:title"}).Draw(rt, "elem")
			b = append(append(append(append(b, '<'), name...), '>'), val("elem")...)
			b = append(append(append(b, "</"...), name...), '>')
		}
		b = append(b, "</rdf:Description></rdf:RDF></x:xmpmeta>"...)
		if rapid.Bool().Draw(rt, "cut?") {
			b = b[:rapid.IntRange(len(b)/4, len(b)).Draw(rt, "cut")]
		}
		return "xmp", b, "xmp-long-values"
	case 8: // many pending out-of-line tags, then the stream ends (or the declared block outruns the file) before their values
		var p []byte
		tablesEnd := 8
		if rapid.Bool().Draw(rt, "handbuilt") {
			// one directory of 17..84 entries whose ids the decoder parses (repeats allowed - hostile, not well-formed),
			// each with an out-of-line ASCII/RATIONAL value at a distinct offset past the table
			n := rapid.IntRange(17, 84).Draw(rt, "n")
			ids := []uint16{0x010e, 0x010f, 0x0110, 0x0131, 0x0132, 0x013b, 0x8298, 0xc62f}
			p = append(p, "II*\x00\x08\x00\x00\x00"...)
			p = append(p, byte(n), 0)
			base := 8 + 2 + 12*n + 4
			step := rapid.SampledFrom([]int{8, 16, 64, 1000, 5000}).Draw(rt, "step")
			for i := 0; i < n; i++ {
				id := rapid.SampledFrom(ids).Draw(rt, "id")
				off := uint32(base + i*step)
				p = append(p, byte(id), byte(id>>8), 2, 0, 8, 0, 0, 0, byte(off), byte(off>>8), byte(off>>16), byte(off>>24))
			}
			p = append(p, 0, 0, 0, 0)
			tablesEnd = len(p)
			// the block (and so every enclosing box / segment / chunk length) covers all the values; the file is cut before them
			// (the ISOBMFF box reader charges a failed skip against the box's remaining length, so only a block declared
			// much longer than the stream keeps reaching the exhausted reader: the block is padded well past the values)
			want := base + n*step + 8
			if rapid.Bool().Draw(rt, "oversized") {
				want = n*(base+n*step) + 8
			}
			pad := make([]byte, 0, 4096)
			for len(pad) < 4096 {
				pad = append(pad, "abcdefg\x00"...)
			}
			for len(p) < want && len(p) < 800000 {
				p = append(p, pad...)
			}
		} else {
			f := gen.GenExif(rt, gen.Options{Unbuffered: true, BigPending: true, MaxForeign: 2})
			p = f.Enc.II
			if rapid.Bool().Draw(rt, "mm") {
				p = f.Enc.MM
			}
			for _, st := range f.Enc.Sites {
				if strings.HasSuffix(st.Name, ".next") && st.Off+4 > tablesEnd {
					tablesEnd = st.Off + 4
				}
			}
		}
		var data []byte
		kind := rapid.SampledFrom([]string{"tiff", "jpeg", "cr3", "heif", "png"}).Draw(rt, "container")
		switch kind {
		case "tiff":
			data = p
		case "jpeg":
			if len(p) > 65000 {
				p = p[:65000]
			}
			data = gen.JPEGWith(rt, p)
		case "cr3":
			data, _ = gen.CR3With(rt, [4][]byte{p, nil, nil, nil})
		case "heif":
			data = gen.HEIFWith(rt, p)
		default:
			data = gen.PNGWith(rt, p)
		}
		at := bytes.Index(data, p[:16])
		if at < 0 {
			at = 0
		}
		lo := at + tablesEnd
		if lo > len(data) {
			lo = len(data)
		}
		cut := rapid.IntRange(lo, min(len(data), lo+rapid.SampledFrom([]int{0, 8, 64, 4096}).Draw(rt, "slack"))).Draw(rt, "cut")
		return kind, data[:cut], "pending-then-eof"
	default: // deep chains of 128-entry directories
		var b []byte
		b = append(b, "II*\x00\x08\x00\x00\x00"...)
		for d := 0; d < 6; d++ {
			base := len(b)
			b = append(b, 128, 0)
			for i := 0; i < 128; i++ {
				e := make([]byte, 12)
				e[0], e[1] = 0x4a, 0x01 // SubIFDs
				e[2] = 4
				e[4] = 2
				off := uint32(base + 2 + 128*12 + 4)
				e[8], e[9], e[10], e[11] = byte(off), byte(off>>8), byte(off>>16), byte(off>>24)
				b = append(b, e...)
			}
			b = append(b, 0, 0, 0, 0)
		}
		return "tiff", append(b, make([]byte, 64)...), "ifd-chain-128"
	}
}

func genCase(rt *rapid.T) Case {
	var c Case
	if gen.Chance(rt, "loopy?", 0.35) {
		kind, data, origin := loopy(rt)
		if origin == "xmp-ampersands" {
			size := rapid.SampledFrom([]int{0, 4096, 65536, 1 << 18}).Draw(rt, "callerbuf")
			vlen := 1400
			if size > 4096 {
				vlen = size - 200
			}
			item := "<rdf:li>" + strings.Repeat("&", vlen) + "</rdf:li>"
			total := rapid.SampledFrom([]int{100000, 300000}).Draw(rt, "amptotal")
			data = []byte("<x:xmpmeta xmlns:x=\"adobe:ns:meta/\"><rdf:RDF xmlns:rdf=\"http://www.w3.org/1999/02/22-rdf-syntax-ns#\"><rdf:Description rdf:about=\"\" xmlns:dc=\"http://purl.org/dc/elements/1.1/\"><dc:subject><rdf:Bag>" +
				strings.Repeat(item, total/len(item)+1) + "</rdf:Bag></dc:subject></rdf:Description></rdf:RDF></x:xmpmeta>")
			c.Req.Reader.Bufio = size
			c.Req.Input, c.Origin, c.Loops, c.Req.Entry = data, origin, 1, "ParseXmp"
			return c
		}
		c.Req.Input, c.Origin, c.Loops = data, origin, 1
		if gen.Chance(rt, "entry.any", 0.15) {
			c.Req.Entry = rapid.SampledFrom(gen.AllEntries).Draw(rt, "entry")
		} else {
			c.Req.Entry = rapid.SampledFrom(gen.EntriesFor(kind)).Draw(rt, "entryk")
		}
		maybeFault(rt, &c)
		return c
	}
	in := gen.GenInput(rt, nil)
	c.Origin = in.Kind
	c.Loops = 1
	if in.Kind == "other" {
		c.Loops = 0
	}
	if gen.Chance(rt, "entry.any", 0.15) {
		c.Req.Entry = rapid.SampledFrom(gen.AllEntries).Draw(rt, "entry")
	} else {
		c.Req.Entry = rapid.SampledFrom(gen.EntriesFor(in.Kind)).Draw(rt, "entryk")
	}
	c.Req.Input = in.Data
	switch rapid.IntRange(0, 4).Draw(rt, "mode") {
	case 0:
		c.Origin += "+asis"
	case 1:
		c.Req.Input = in.Data[:rapid.IntRange(0, len(in.Data)).Draw(rt, "trunc")]
		c.Origin += "+truncated"
	default:
		c.Req.Input, c.Ops = gen.Mutate(rt, in.Data, in.Sites)
		c.Origin += "+mutated"
	}
	maybeFault(rt, &c)
	return c
}

// ownEntry: BMFFRaw's callbacks are the harness's own consumers, which ask their reader for 64 KiB at a time (C08 uses
// them): what they request is not the library's doing, so C02 measures the same walk through BMFF instead.
func ownEntry(e string) string {
	if e == "BMFFRaw" {
		return "BMFF"
	}
	return e
}

// maybeFault: one case in five reads its input through a reader that delivers a prefix and then fails on every call with an
// error that is not io.EOF (a failing disk or connection): the stream is finite all the same, and what is asked of the
// reader after the failure counts like everything else.
func maybeFault(rt *rapid.T, c *Case) {
	if !gen.Chance(rt, "fault?", 0.2) {
		return
	}
	n := len(c.Req.Input)
	at := rapid.IntRange(0, n).Draw(rt, "fault.at")
	switch rapid.IntRange(0, 3).Draw(rt, "fault.where") {
	case 0:
		at = n / 2
	case 1:
		if n > 4096 {
			at = 4096 // the end of the first buffer: everything the directories point to lies behind the failure
		}
	}
	c.Req.Reader = worker.ReaderSpec{Mode: "fault", FaultAt: at, FaultErr: rapid.SampledFrom([]string{"custom", "custom", "unexpected", "zero-then-eof"}).Draw(rt, "fault.err")}
	c.Origin += "+fault"
}

var chk = pbt.Check[Case]{Name: "decode-terminates", Gen: genCase, Eval: eval}

func init() { pbt.Register(chk) }

func TestProp(t *testing.T) {
	defer rec.MustWrite()
	rec.Rule("inputs: C01's corpus/encoder output with hostile edits and truncations, plus loop-targeting classes (EOI followed by markers, marker bytes at SOI depth 0, " +
		"JPEG markers of every kind with length fields 0..4 and 0xFFFC..0xFFFF, iinf/iloc boxes with zero/tiny sizes, TIFF scans over partial signatures, XMP with long white-space runs and unterminated tokens, XMP attribute/element values up to and beyond the look-ahead window (whole or cut mid-value), " +
		"60-84 pending out-of-line tags in every container with the stream ending right after the directory tables, IFD cycles, chains of 128-entry directories); " +
		"iloc boxes whose items declare 65535 extents, XMP list items made of '&' through a caller's bufio.Reader of 4 KiB .. 256 KiB; one case in five through a reader that fails for good with a non-EOF error after a prefix; " +
		"oracle: bytes requested <= 4*len+64KiB, Read calls <= len+1024, processor time of the worker process <= 0.3 s + 2 us/byte (smallest of three measurements), return within 10s+50us/byte (a single expiry is re-run alone with twice the budget; only a second expiry is a hang). " +
		"non-trivial = input carries a loop-bearing construct and is >= 32 bytes; distinct by (entry, input)")
	rec.Assume("wall-clock time is an oracle only for non-termination, with a watchdog >= 10^4 x the nominal decode time and a confirming re-run")
	pbt.RegressDir(t, rec)
	start := time.Now()
	pbt.Run(t, rec, chk, rec.Env.Pick(8000, 100000), 1)
	rec.Extra("worker_restarts", cl.Restarts)
	_ = start
	if inconclusive > 3 {
		fmt.Printf("INFRA C02: %d unconfirmed watchdog expiries in one run\n", inconclusive)
	}
}

func TestReplay(t *testing.T) { pbt.Replay(t, rec) }

// FuzzTerminate: native coverage-guided search (thorough tier). The engine's own hang detector
// reports an execution that does not return; the read-volume bounds are checked here.
func FuzzTerminate(f *testing.F) {
	for _, s := range gen.Corpus() {
		if len(s.Data) <= 4096 {
			f.Add(byte(0), s.Data)
		}
	}
	for _, m := range gen.Magics {
		f.Add(byte(1), append(append([]byte{}, m...), make([]byte, 80)...))
	}
	f.Fuzz(func(t *testing.T, sel byte, data []byte) {
		if len(data) > 1<<16 {
			return
		}
		entry := worker.Entries[int(sel)%len(worker.Entries)]
		r := worker.Exec(worker.Req{Entry: entry, Input: data})
		if r.Panic != "" {
			return // C01's subject
		}
		n := len(data)
		if r.Requested > int64(4*n+64<<10) {
			t.Fatalf("%s requested %d bytes for a %d-byte input (limit %d), %d Read calls", entry, r.Requested, n, 4*n+64<<10, r.ReadCalls)
		}
		if r.ReadCalls > int64(n+1024) {
			t.Fatalf("%s made %d Read calls for a %d-byte input", entry, r.ReadCalls, n)
		}
	})
}
