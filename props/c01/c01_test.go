// C01 — no input bytes or I/O failure point makes a decoder panic or crash.
// Every call runs in an isolated worker process; the oracle is "the call
// returns": a recovered panic or the death of the worker is a violation.
package c01

import (
	"bytes"
	"encoding/binary"
	"fmt"
	"os"
	"strings"
	"testing"

	"pgregory.net/rapid"

	"verif/internal/ev"
	"verif/internal/gen"
	"verif/internal/pbt"
	"verif/internal/worker"
)

var rec = ev.New("C01")
var cl = &worker.Client{VLimitKB: 16 << 20}

func TestMain(m *testing.M) {
	worker.MaybeServe()
	code := m.Run()
	cl.Close()
	os.Exit(code)
}

type Case struct {
	Req    worker.Req `json:"req"`
	Origin string     `json:"origin"`
	Ops    []string   `json:"ops,omitempty"`
	// XMPDepth > 0: the input is the XMP root tag followed by XMPDepth x "<a:b>" (megabytes: stored as a number)
	XMPDepth int `json:"xmp_nesting_depth,omitempty"`
}

var rejectErrs = []string{"error imagetype not found", "error metadata reading not supported", "error the data is not long enough", "verif: unknown entry"}

func nontrivial(c Case, r worker.Resp) bool {
	if len(c.Req.Input) < 64 {
		return false
	}
	for _, e := range rejectErrs {
		if strings.Contains(r.Err, e) {
			return false
		}
	}
	return true
}

func sampleKind(origin string) string {
	if i := strings.IndexAny(origin, ":"); i >= 0 {
		return origin[:i]
	}
	return origin
}

func panicClass(p string) string {
	switch {
	case strings.Contains(p, "index out of range"):
		return "index"
	case strings.Contains(p, "slice bounds out of range"):
		return "slice"
	case strings.Contains(p, "nil pointer"):
		return "nil"
	case strings.Contains(p, "divide by zero"):
		return "div0"
	case strings.Contains(p, "interface conversion"):
		return "conv"
	case strings.Contains(p, "makeslice"):
		return "makeslice"
	default:
		if len(p) > 24 {
			p = p[:24]
		}
		return strings.ReplaceAll(strings.ReplaceAll(p, " ", "_"), "=", "_")
	}
}

// originClass folds the per-case names of the enumerations (one per box type, length and gap) into one class per
// enumeration, header width and enclosing box, so that the evidence lists a few dozen classes instead of 25,000.
func originClass(o string) string {
	head, tail, ok := strings.Cut(o, ":")
	if !ok {
		return o
	}
	switch head {
	case "small-box-at-buffer-end", "small-box":
		cl := head
		if strings.HasPrefix(tail, "large-") {
			cl += ":64-bit-header"
		}
		if i := strings.Index(tail, "-in-"); i >= 0 {
			w := tail[i+4:]
			if j := strings.Index(w, "-len"); j >= 0 {
				w = w[:j]
			}
			cl += ":in-" + w
		}
		return cl
	case "heif-item-offset-sweep", "caller-bufio-offset", "xmp-nesting-depth":
		return head
	}
	return o
}

func eval(c Case) *pbt.Fail {
	if c.XMPDepth > 0 && c.Req.Input == nil {
		c.Req.Input = append([]byte("<x:xmpmeta xmlns:x=\"adobe:ns:meta/\">"), bytes.Repeat([]byte("<a:b>"), c.XMPDepth)...)
	}
	r := cl.Do(c.Req, worker.Watchdog(len(c.Req.Input)))
	cls := []string{"entry:" + c.Req.Entry, "origin:" + originClass(c.Origin)}
	if c.Req.Reader.Mode != "" {
		cls = append(cls, "reader:"+c.Req.Reader.Mode+":"+c.Req.Reader.FaultErr)
	}
	if r.Err != "<nil>" && r.Err != "" {
		cls = append(cls, "returned-error")
	} else if !r.Hung && !r.Died && r.Panic == "" {
		cls = append(cls, "returned-ok")
	}
	nt := nontrivial(c, r)
	rec.Case(nt, ev.Hash([]byte(c.Req.Entry), c.Req.Input, []byte(fmt.Sprint(c.Req.Reader))), cls...)
	if nt {
		rec.Sample(sampleKind(c.Origin), worker.Render(c.Req, c.Origin, c.Ops, r))
	}
	switch {
	case r.Panic != "":
		key := fmt.Sprintf("%s/%s/%s", c.Req.Entry, r.PanicFrame, panicClass(r.Panic))
		return pbt.Failf(key, "%s panicked in %s: %s (input %d bytes, origin %s)\n%s", c.Req.Entry, r.PanicFrame, r.Panic, len(c.Req.Input), c.Origin, r.PanicStack)
	case r.Died:
		return pbt.Failf(c.Req.Entry+"/died", "%s killed the process (fatal runtime error / signal); stderr tail:\n%s", c.Req.Entry, r.Stderr)
	case r.Hung:
		rec.Inconclusive(1)
		fmt.Printf("NOTE C01: %s did not return within the watchdog on a %d-byte input (termination is C02's subject)\n", c.Req.Entry, len(c.Req.Input))
	case r.Aborted != "":
		return pbt.Failf("", "worker protocol problem: %s", r.Aborted)
	}
	return nil
}

func pickEntry(rt *rapid.T, kind string) string {
	if gen.Chance(rt, "entry.any", 0.2) {
		return rapid.SampledFrom(gen.AllEntries).Draw(rt, "entry")
	}
	return rapid.SampledFrom(gen.EntriesFor(kind)).Draw(rt, "entryk")
}

func genCase(rt *rapid.T) Case {
	var c Case
	mode := rapid.IntRange(0, 9).Draw(rt, "mode")
	if mode == 9 { // arbitrary bytes behind a magic
		m := rapid.SampledFrom(gen.Magics).Draw(rt, "magic")
		body := rapid.SliceOfN(rapid.Byte(), 0, 600).Draw(rt, "body")
		c.Req.Input = append(append([]byte{}, m...), body...)
		c.Req.Entry = rapid.SampledFrom(gen.AllEntries).Draw(rt, "entry")
		c.Origin = "magic+random"
		return c
	}
	in := gen.GenInput(rt, nil)
	c.Origin = in.Kind
	c.Req.Entry = pickEntry(rt, in.Kind)
	c.Req.Input = in.Data
	switch {
	case mode <= 4: // structure-aware / byte-level malformation
		c.Req.Input, c.Ops = gen.Mutate(rt, in.Data, in.Sites)
		c.Origin += "+mutated"
	case mode == 5: // truncation (anywhere, or right at / inside a structural field)
		c.Req.Input = in.Data[:cutPoint(rt, in)]
		c.Origin += "+truncated"
	case mode <= 7: // reader fault at k
		c.Req.Reader = worker.ReaderSpec{Mode: "fault", FaultAt: cutPoint(rt, in),
			FaultErr: rapid.SampledFrom([]string{"eof", "unexpected", "custom", "zero-then-eof"}).Draw(rt, "faultErr")}
		if gen.Chance(rt, "mutToo", 0.3) {
			c.Req.Input, c.Ops = gen.Mutate(rt, in.Data, in.Sites)
		}
		c.Origin += "+fault"
	default: // as is, with hostile reader behaviour
		c.Req.Reader = worker.ReaderSpec{Mode: "chunk", Chunks: []int{1, 3, 7}, SeekFail: rapid.Bool().Draw(rt, "seekFail"), DataEOF: rapid.Bool().Draw(rt, "dataEOF")}
		c.Origin += "+asis"
	}
	for _, op := range c.Ops {
		rec.Class("op:"+op, 1)
	}
	if gen.Chance(rt, "log", 0.1) {
		c.Req.Log = rapid.SampledFrom([]string{"trace", "debug", "info", "warn", "error"}).Draw(rt, "loglevel")
	}
	return c
}

var chk = pbt.Check[Case]{Name: "decode-returns", Gen: genCase, Eval: eval}

func init() { pbt.Register(chk) }

func TestProp(t *testing.T) {
	defer rec.MustWrite()
	rec.Level = "fault_enumeration"
	rec.Rule("inputs: repository samples (first 256 KiB) and encoder output (TIFF/JPEG/PNG/CR3/HEIF from generated records) with 1-4 hostile edits " +
		"(structure-addressed field edits, interesting 16/32/64-bit constants in both byte orders, truncation, bit flips, splice/duplicate/delete/fill), every truncation of small files, " +
		"arbitrary bytes behind each format's magic, and reader faults (deliver b[:k] then EOF / ErrUnexpectedEOF / custom error / (0,nil) then EOF; failing Seek; 1-3-7 byte chunks); " +
		"every call runs in an isolated worker process. non-trivial = input >= 64 bytes and the call got past type identification (its error is not a type-rejection error); distinct by (entry, input, reader)")
	rec.Assume("ScanJPEG and ParseXmp convert internal panics into returned errors themselves; that conversion is their contract, the check is that the call returns")
	pbt.RegressDir(t, rec)

	// exhaustive truncation + fault points of small well-formed files
	complete := true
	small := smallFiles()
	for i, sf := range small {
		if i%rec.Env.Shards != rec.Env.Shard || os.Getenv("VERIF_SKIP_ENUM") != "" {
			continue
		}
		step := 1
		if len(sf.data) > 2048 && !rec.Env.Thorough() {
			step = len(sf.data)/1024 + 1
		}
		for _, entry := range gen.EntriesFor(sf.kind) {
			for k := 0; k <= len(sf.data); k += step {
				c := Case{Req: worker.Req{Entry: entry, Input: sf.data[:k]}, Origin: "trunc-all:" + sf.name}
				if f := eval(c); f != nil {
					if pbt.Report(t, rec, chk.Name, c, f) {
						complete = false
						goto done
					}
				}
				if k%3 == 0 {
					for _, fe := range []string{"custom", "zero-then-eof"} {
						c := Case{Req: worker.Req{Entry: entry, Input: sf.data, Reader: worker.ReaderSpec{Mode: "fault", FaultAt: k, FaultErr: fe}}, Origin: "fault-all:" + sf.name}
						if f := eval(c); f != nil {
							if pbt.Report(t, rec, chk.Name, c, f) {
								complete = false
								goto done
							}
						}
					}
				}
			}
		}
	}
	// truncation and reader faults right at the structural fields of every sample (up to 3 fields per kind)
	if complete && os.Getenv("VERIF_SKIP_ENUM") == "" {
		idx := 0
		for _, smp := range gen.Corpus() {
			sites := gen.DiscoverSites(smp.Data)
			perKind := map[string]int{}
			kind := kindOf(smp.Data)
			for _, st := range sites {
				k := kindName(st.Name)
				if perKind[k] >= rec.Env.Pick(3, 12) {
					continue
				}
				perKind[k]++
				for _, d := range []int{0, 1, st.Size, st.Size + 4, st.Size + 17} {
					idx++
					cut := st.Off + d
					if cut > len(smp.Data) || idx%rec.Env.Shards != rec.Env.Shard {
						continue
					}
					for _, entry := range gen.EntriesFor(kind) {
						cs := []Case{
							{Req: worker.Req{Entry: entry, Input: smp.Data[:cut]}, Origin: "site-cut:" + smp.Name},
							{Req: worker.Req{Entry: entry, Input: smp.Data[:min(len(smp.Data), cut+4096)], Reader: worker.ReaderSpec{Mode: "fault", FaultAt: cut, FaultErr: "custom"}}, Origin: "site-fault:" + smp.Name},
						}
						for _, c := range cs {
							if f := eval(c); f != nil {
								if pbt.Report(t, rec, chk.Name, c, f) {
									complete = false
									goto done
								}
							}
						}
					}
				}
			}
		}
	}
	// every known box type with a 0..40-byte payload between well-formed siblings
	if complete && os.Getenv("VERIF_SKIP_ENUM") == "" {
		idx := 0
		gen.SmallBoxFiles(rec.Env.Pick(40, 72), func(name, kind string, data []byte) {
			idx++
			if !complete || idx%rec.Env.Shards != rec.Env.Shard {
				return
			}
			for _, entry := range gen.EntriesFor(kind) {
				for _, lg := range []string{"", "info"} {
					c := Case{Req: worker.Req{Entry: entry, Input: data, Log: lg, K: 4}, Origin: "small-box:" + name}
					if f := eval(c); f != nil {
						if pbt.Report(t, rec, chk.Name, c, f) {
							complete = false
							return
						}
					}
				}
			}
		})
	}
	// every known box type with a short payload that ends 0..3 bytes before the end of the reader's first 4 KiB
	if complete && os.Getenv("VERIF_SKIP_ENUM") == "" {
		idx := 0
		lens, gaps := []int{0, 1, 2, 3, 4, 5, 6, 7, 8, 12, 16}, []int{0, 1, 2, 3}
		if rec.Env.Thorough() {
			lens, gaps = []int{0, 1, 2, 3, 4, 5, 6, 7, 8, 9, 10, 11, 12, 13, 14, 15, 16, 20, 24, 30}, []int{0, 1, 2, 3, 4, 5, 6, 7, 8, 12, 16, 20}
		}
		atEdge := func(visit func(name, kind string, data []byte)) {
			gen.SmallBoxFilesAtEdge(lens, gaps, visit)
			large := []int{0}
			if rec.Env.Thorough() {
				large = []int{0, 4, 8}
			}
			gen.LargeBoxFilesAtEdge(large, visit)
		}
		atEdge(func(name, kind string, data []byte) {
			idx++
			if !complete || idx%rec.Env.Shards != rec.Env.Shard {
				return
			}
			for _, entry := range []string{"Decode", "BMFF"} {
				c := Case{Req: worker.Req{Entry: entry, Input: data, K: 4}, Origin: "small-box-at-buffer-end:" + name}
				if f := eval(c); f != nil {
					if pbt.Report(t, rec, chk.Name, c, f) {
						complete = false
						return
					}
				}
			}
		})
	}
	// CR3 files with one to three preview boxes of different sizes (what one preview leaves behind meets the next): a fixed
	// set of 24 drawn files, whatever VERIF_SEED is
	if complete {
		for i := 0; i < 24 && complete; i++ {
			data := rapid.Custom(func(rt *rapid.T) []byte { b, _ := gen.MultiPreviewCR3(rt); return b }).Example(i + 1)
			for _, entry := range []string{"PreviewCR3", "BMFF", "Decode"} {
				c := Case{Req: worker.Req{Entry: entry, Input: data, K: 6}, Origin: "multi-preview-cr3"}
				if f := eval(c); f != nil {
					if pbt.Report(t, rec, chk.Name, c, f) {
						complete = false
						break
					}
				}
			}
		}
	}
	// the exported signature tests that take bytes directly: every prefix of the TIFF signatures and a few other starts
	if complete {
		for _, base := range []string{"II*\x00\x08\x00\x00\x00", "MM\x00*\x00\x00\x00\x08", "IIU\x00\x18\x00\x00\x00", "\xff\xd8\xff\xe1", "\x00\x00\x00\x18ftyp"} {
			for n := 0; n <= len(base) && complete; n++ {
				c := Case{Req: worker.Req{Entry: "ItHelpers", Input: []byte(base[:n])}, Origin: "signature-helpers-on-short-input"}
				if f := eval(c); f != nil {
					if pbt.Report(t, rec, chk.Name, c, f) {
						complete = false
					}
				}
			}
		}
	}
	// a caller's bufio.Reader that has been read before: the file starts 4040..4096 bytes into the 4 KiB buffer (readers that
	// take an io.Reader adopt such a reader); ftyp boxes of 8..28 bytes, and every small well-formed file
	if complete && os.Getenv("VERIF_SKIP_ENUM") == "" {
		idx := 0
		try := func(entry string, data []byte, pre int, origin string) bool {
			idx++
			if idx%rec.Env.Shards != rec.Env.Shard {
				return true
			}
			in := append(bytes.Repeat([]byte{' '}, pre), data...)
			c := Case{Req: worker.Req{Entry: entry, Input: in, K: 3, Reader: worker.ReaderSpec{Pre: pre}}, Origin: origin}
			if f := eval(c); f != nil {
				if pbt.Report(t, rec, chk.Name, c, f) {
					complete = false
					return false
				}
			}
			return true
		}
		for p := 0; p <= 20 && complete; p++ {
			ft := make([]byte, 8+p)
			binary.BigEndian.PutUint32(ft, uint32(8+p))
			copy(ft[4:], "ftyp")
			copy(ft[8:], "crx \x00\x00\x00\x01crx isomavif")
			rest := append(ft, []byte("\x00\x00\x00\x10free\x01\x02\x03\x04\x05\x06\x07\x08\x00\x00\x00\x48mdat")...)
			rest = append(rest, make([]byte, 64)...)
			for g := 0; g <= 4; g++ {
				if !try("BMFF", rest, 4096-8-p-g, fmt.Sprintf("caller-bufio-offset:ftyp-payload-%d-gap-%d", p, g)) {
					break
				}
			}
		}
		step := rec.Env.Pick(4, 1)
		for _, sf := range small {
			if !complete || len(sf.data) > 3000 {
				continue
			}
			for _, entry := range []string{"BMFF", "ScanJPEG", "ScanTiffHeader", "ParseXmp", "ItScan"} {
				for pre := 4040; pre <= 4096 && complete; pre += step {
					try(entry, sf.data, pre, "caller-bufio-offset:"+sf.name)
				}
			}
		}
	}
	// XMP: start tags nested 1000 .. 4,000,000 deep (the reader descends one call frame per level)
	if complete && os.Getenv("VERIF_SKIP_ENUM") == "" && rec.Env.Shard == 0 {
		for _, depth := range []int{1000, 100000, 4000000} {
			c := Case{Req: worker.Req{Entry: "ParseXmp"}, XMPDepth: depth, Origin: fmt.Sprintf("xmp-nesting-depth:%d", depth)}
			if f := eval(c); f != nil {
				if pbt.Report(t, rec, chk.Name, c, f) {
					complete = false
					goto done
				}
			}
		}
	}
	// HEIF: the Exif item's offset swept across two 4 KiB reader-buffer boundaries, with and without the item's marker
	if complete && os.Getenv("VERIF_SKIP_ENUM") == "" {
		idx := 0
		for _, marker := range []bool{true, false} {
			for off := 4040; off <= 8260; off++ {
				if off == 4160 {
					off = 8130
				}
				idx++
				if idx%rec.Env.Shards != rec.Env.Shard {
					continue
				}
				c := Case{Req: worker.Req{Entry: "BMFF", Input: heifItemAt(off, marker), K: 3}, Origin: fmt.Sprintf("heif-item-offset-sweep:%d/marker=%v", off, marker)}
				if f := eval(c); f != nil {
					if pbt.Report(t, rec, chk.Name, c, f) {
						complete = false
						goto done
					}
				}
			}
		}
	}
done:
	rec.Exhaustive(complete)
	rec.Extra("worker_restarts", cl.Restarts)
	if t.Failed() {
		return
	}
	pbt.Run(t, rec, chk, rec.Env.Pick(envInt("VERIF_C01_N", 12000), 150000), 1)
	rec.Extra("worker_restarts", cl.Restarts)
}

// heifItemAt: a minimal HEIF file whose iloc places the Exif item at file offset off inside a 12 KB mdat.
func heifItemAt(off int, marker bool) []byte {
	box := func(t string, d []byte) []byte {
		b := make([]byte, 8, 8+len(d))
		binary.BigEndian.PutUint32(b, uint32(8+len(d)))
		copy(b[4:], t)
		return append(b, d...)
	}
	full := func(t string, ver byte, d []byte) []byte { return box(t, append([]byte{ver, 0, 0, 0}, d...)) }
	infe := func(id byte, typ string) []byte {
		return full("infe", 2, append(append([]byte{0, id, 0, 0}, typ...), 0))
	}
	iloc := make([]byte, 18)
	iloc[0] = 0x44
	binary.BigEndian.PutUint16(iloc[2:], 1)
	binary.BigEndian.PutUint16(iloc[4:], 2)
	binary.BigEndian.PutUint16(iloc[8:], 1)
	binary.BigEndian.PutUint32(iloc[10:], uint32(off))
	binary.BigEndian.PutUint32(iloc[14:], 200)
	hdlr := full("hdlr", 0, append(append(make([]byte, 4), "pict"...), make([]byte, 13)...))
	meta := append(append(append(hdlr, full("pitm", 0, []byte{0, 1})...), full("iinf", 0, append([]byte{0, 2}, append(infe(1, "hvc1"), infe(2, "Exif")...)...))...), full("iloc", 0, iloc)...)
	out := append(box("ftyp", []byte("heic\x00\x00\x00\x00mif1heic")), full("meta", 0, meta)...)
	body := bytes.Repeat([]byte{0x11}, 12000)
	out = append(out, box("mdat", body)...)
	if marker && off+64 < len(out) {
		copy(out[off:], "\x00\x00\x00\x06Exif\x00\x00II*\x00\x08\x00\x00\x00\x01\x00\x0f\x01\x02\x00\x04\x00\x00\x00abc\x00\x00\x00\x00\x00")
	}
	return out
}

type smallFile struct {
	name, kind string
	data       []byte
}

// smallFiles are well-formed files of every container built with a fixed seed
// (they do not depend on VERIF_SEED so that the enumerated part is stable).
func smallFiles() []smallFile {
	var out []smallFile
	for _, s := range gen.Corpus() {
		if len(s.Data) <= 6000 {
			k := "other"
			for _, kk := range []string{"jpeg", "tiff", "cr3", "heif", "avif", "png", "xmp"} {
				_ = kk
			}
			in := gen.Input{}
			_ = in
			k = kindOf(s.Data)
			out = append(out, smallFile{s.Name, k, s.Data})
		}
	}
	out = append(out, fixedGenerated()...)
	return out
}

func kindOf(b []byte) string {
	switch {
	case len(b) > 2 && b[0] == 0xff && b[1] == 0xd8:
		return "jpeg"
	case len(b) > 4 && (string(b[:4]) == "II*\x00" || string(b[:4]) == "MM\x00*"):
		return "tiff"
	case len(b) > 12 && string(b[4:8]) == "ftyp" && string(b[8:12]) == "crx ":
		return "cr3"
	case len(b) > 12 && string(b[4:8]) == "ftyp" && string(b[8:12]) == "avif":
		return "avif"
	case len(b) > 12 && string(b[4:8]) == "ftyp":
		return "heif"
	case len(b) > 4 && string(b[1:4]) == "PNG":
		return "png"
	case len(b) > 10 && (string(b[:10]) == "<x:xmpmeta" || string(b[:5]) == "<?xpa"):
		return "xmp"
	}
	return "other"
}

func fixedGenerated() []smallFile {
	var out []smallFile
	for seed := 0; seed < 6; seed++ {
		var in gen.Input
		// rapid.MakeCustom is not available outside a check: draw with a fixed example stream
		g := rapid.Custom(func(rt *rapid.T) gen.Input {
			for {
				in := gen.GenInput(rt, nil)
				if in.Exif != nil {
					return in
				}
			}
		})
		in = g.Example(seed)
		if len(in.Data) <= 6000 {
			out = append(out, smallFile{fmt.Sprintf("generated-%s-%d", in.Kind, seed), in.Kind, in.Data})
		}
	}
	// XMP packets (the corpus sample is too long to be swept): one bare, one behind bytes that precede the root element
	packet := `<x:xmpmeta xmlns:x="adobe:ns:meta/"><rdf:RDF xmlns:rdf="http://www.w3.org/1999/02/22-rdf-syntax-ns#"><rdf:Description rdf:about="" xmlns:tiff="http://ns.adobe.com/tiff/1.0/" tiff:Make="Canon" tiff:Orientation="6">` +
		`<tiff:Model>EOS R5</tiff:Model><dc:subject xmlns:dc="http://purl.org/dc/elements/1.1/"><rdf:Bag><rdf:li>a</rdf:li><rdf:li>b &amp; c</rdf:li></rdf:Bag></dc:subject></rdf:Description></rdf:RDF></x:xmpmeta>`
	out = append(out, smallFile{"fixed-xmp-packet", "xmp", []byte(packet)})
	out = append(out, smallFile{"fixed-xmp-packet-behind-junk", "xmp", []byte("<?xpacket begin=\"\xef\xbb\xbf\" id=\"W5M0MpCehiHzreSzNTczkc9d\"?>\n" + strings.Repeat(" ", 300) + packet + "<?xpacket end=\"w\"?>")})
	return out
}

func TestReplay(t *testing.T) { pbt.Replay(t, rec) }

func envInt(k string, d int) int {
	var v int
	if _, err := fmt.Sscanf(os.Getenv(k), "%d", &v); err == nil && v > 0 {
		return v
	}
	return d
}

// cutPoint draws a truncation / fault position: uniformly, or next to one of the file's structural fields.
func cutPoint(rt *rapid.T, in gen.Input) int {
	if len(in.Sites) > 0 && rapid.Bool().Draw(rt, "cut.atSite") {
		st := in.Sites[rapid.IntRange(0, len(in.Sites)-1).Draw(rt, "cut.site")]
		k := st.Off + rapid.IntRange(-2, 24).Draw(rt, "cut.delta")
		if k < 0 {
			k = 0
		}
		if k > len(in.Data) {
			k = len(in.Data)
		}
		return k
	}
	return rapid.IntRange(0, len(in.Data)).Draw(rt, "cut")
}

func kindName(n string) string {
	for i := len(n) - 1; i >= 0; i-- {
		if n[i] == '.' {
			return n[i+1:]
		}
	}
	return n
}

// FuzzDecode: native coverage-guided search (thorough tier). The first byte selects the entry point.
// A recovered panic whose signature is not a listed finding fails the target; a fatal error kills the
// fuzz worker, which the engine records as a crasher as well.
func FuzzDecode(f *testing.F) {
	for _, sf := range smallFiles() {
		for i, e := range gen.EntriesFor(sf.kind) {
			if i < 3 {
				f.Add(byte(indexOfEntry(e)), sf.data)
			}
		}
	}
	for _, m := range gen.Magics {
		f.Add(byte(0), append(append([]byte{}, m...), make([]byte, 40)...))
	}
	f.Fuzz(func(t *testing.T, sel byte, data []byte) {
		if len(data) > 1<<16 {
			return
		}
		entry := worker.Entries[int(sel)%len(worker.Entries)]
		r := worker.Exec(worker.Req{Entry: entry, Input: data})
		if r.Panic != "" {
			key := fmt.Sprintf("%s/%s/%s", entry, r.PanicFrame, panicClass(r.Panic))
			if pbt.Filter(rec, pbt.Failf(key, "x")) != nil {
				t.Fatalf("%s panicked in %s: %s\n%s", entry, r.PanicFrame, r.Panic, r.PanicStack)
			}
		}
	})
}

func indexOfEntry(e string) int {
	for i, x := range worker.Entries {
		if x == e {
			return i
		}
	}
	return 0
}
