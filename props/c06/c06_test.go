// C06 — the container does not change the metadata: the same Exif payload
// embedded in TIFF, JPEG, PNG, CR3 (CMT1 and split CMT1/2/4) and HEIF decodes
// to identical fields (only the image type differs) and equals the record.
package c06

import (
	"fmt"
	"strings"
	"testing"

	"pgregory.net/rapid"

	"verif/internal/ev"
	"verif/internal/exifcheck"
	"verif/internal/gen"
	"verif/internal/pbt"
)

var rec = ev.New("C06")

type Case struct {
	Rec    *gen.Record     `json:"rec"`
	Ctx    exifcheck.Ctx   `json:"ctx"`
	Embeds []gen.Embedding `json:"embeddings"`
	First  int             `json:"first_ifd"`
	Order  string          `json:"block_order"`
}

func eval(c Case) *pbt.Fail {
	ref := ""
	refName := ""
	okContainers := 0
	for _, em := range c.Embeds {
		for _, enc := range []struct {
			n string
			b []byte
		}{{"II", em.II}, {"MM", em.MM}} {
			for _, entry := range em.Entries {
				where := fmt.Sprintf("%s/%s via %s", em.Name, enc.n, entry)
				key := "container:" + em.Name
				e, err, pan := exifcheck.Decode(entry, enc.b)
				if pan != "" {
					return pbt.Failf(key, "%s panicked: %s", where, pan)
				}
				if err != nil {
					return pbt.Failf(key, "%s returned error %v on a well-formed file", where, err)
				}
				if want := exifcheck.WantType(em.Type, c.Rec.DNGVersion); e.ImageType != want {
					return pbt.Failf(key, "%s reports image type %v, want %v", where, e.ImageType, want)
				}
				// the split CR3 variant stores the same record as three blocks: compare with the record and the others
				d := exifcheck.MaskedDigest(e)
				if ref == "" {
					ref, refName = d, where
				} else if d != ref {
					return pbt.Failf(key, "%s differs from %s: %s", where, refName, exifcheck.FirstDiff(d, ref))
				}
				if diffs := exifcheck.Compare(e, c.Rec, c.Ctx); len(diffs) > 0 {
					return pbt.Failf(key, "%s: %s", where, strings.Join(diffs, "; "))
				}
			}
		}
		okContainers++
	}
	return nil
}

func genCase(rt *rapid.T) Case {
	f := gen.GenExif(rt, gen.Options{Unbuffered: true, Split: true, MaxForeign: 4, Arrays: true})
	c := Case{Rec: f.Rec, Ctx: exifcheck.CtxOf(f), Embeds: gen.Embed(rt, f), First: f.FirstIFD, Order: f.Enc.BlockOrder}
	cls := append([]string{}, f.Classes...)
	rec.Case(f.NonTrivial(), ev.Hash(f.Enc.II, c.Embeds[1].II), cls...)
	if f.NonTrivial() {
		lens := map[string]int{}
		for _, e := range c.Embeds {
			lens[e.Name] = len(e.II)
		}
		rec.Sample("payload", map[string]any{"rec": f.Rec, "first_ifd": f.FirstIFD, "container_lengths": lens})
	}
	return c
}

var chk = pbt.Check[Case]{Name: "container-independence", Gen: genCase, Eval: eval}

// Sweep: the same block behind pad bytes of format-valid filler (JPEG COM segments, a PNG tEXt chunk, an ISOBMFF free
// box, spaces inside mdat) must decode to the same metadata as without filler: every structure of the block crosses
// every reader-buffer boundary at some pad.
type Sweep struct {
	Rec       *gen.Record   `json:"rec"`
	Ctx       exifcheck.Ctx `json:"ctx"`
	Payload   []byte        `json:"payload"`
	Container string        `json:"container"`
	At        int           `json:"at"`
	Pad       int           `json:"pad"`
}

var sweepEntries = map[string][]string{"jpeg": {"Decode", "DecodeJPEG"}, "png": {"DecodePng"}, "cr3": {"Decode", "DecodeCR3", "BMFFExif"}, "heif": {"Decode", "DecodeHeif"}} // (the box reader's HEIF item path is not a decode entry point of this property; C11 walks it)

func (s Sweep) build(pad int) []byte {
	switch s.Container {
	case "jpeg":
		return gen.PadJPEG(s.Payload, pad)
	case "png":
		return gen.PadPNG(s.Payload, pad)
	case "cr3":
		return gen.PadCR3(s.Payload, pad, s.At)
	default:
		return gen.PadHEIF(s.Payload, pad, s.At)
	}
}

var sweepRef = map[string]string{}

func evalSweep(s Sweep) *pbt.Fail {
	key := "sweep:" + s.Container
	for _, entry := range sweepEntries[s.Container] {
		rk := fmt.Sprint(s.Container, s.At, entry, ev.Hash(s.Payload))
		ref, ok := sweepRef[rk]
		if !ok {
			e, err, pan := exifcheck.Decode(entry, s.build(0))
			if pan != "" || err != nil {
				return pbt.Failf(key, "%s via %s without filler: error %v panic %q on a well-formed file", s.Container, entry, err, pan)
			}
			if diffs := exifcheck.Compare(e, s.Rec, s.Ctx); len(diffs) > 0 && s.Rec != nil {
				return pbt.Failf(key, "%s via %s without filler: %s", s.Container, entry, strings.Join(diffs, "; "))
			}
			ref = exifcheck.MaskedDigest(e)
			sweepRef[rk] = ref
		}
		e, err, pan := exifcheck.Decode(entry, s.build(s.Pad))
		if pan != "" {
			return pbt.Failf(key, "%s via %s with %d bytes of filler (placement %d) panicked: %s", s.Container, entry, s.Pad, s.At, pan)
		}
		if err != nil {
			return pbt.Failf(key, "%s via %s with %d bytes of filler (placement %d) returned error %v; without filler it decodes", s.Container, entry, s.Pad, s.At, err)
		}
		if d := exifcheck.MaskedDigest(e); d != ref {
			return pbt.Failf(key, "%s via %s with %d bytes of filler (placement %d) differs from the same file without filler: %s", s.Container, entry, s.Pad, s.At, exifcheck.FirstDiff(d, ref))
		}
	}
	return nil
}

var chkSweep = pbt.Check[Sweep]{Name: "filler-independence", Eval: evalSweep, Gen: func(rt *rapid.T) Sweep {
	f := gen.GenExif(rt, gen.Options{Unbuffered: true, MaxForeign: 4, HeavyWriter: rapid.IntRange(0, 4).Draw(rt, "heavy") == 0})
	s := Sweep{Rec: f.Rec, Ctx: exifcheck.CtxOf(f), Payload: f.Enc.II, Container: rapid.SampledFrom([]string{"jpeg", "png", "cr3", "heif"}).Draw(rt, "container"), At: rapid.IntRange(0, 3).Draw(rt, "at")}
	if rapid.Bool().Draw(rt, "mm") {
		s.Payload = f.Enc.MM
	}
	if s.Container == "jpeg" && len(s.Payload) > 65000 {
		s.Container = "png"
	}
	unit := rapid.SampledFrom([]int{4096, 4096, 1024, 2048, 8192, 65536}).Draw(rt, "unit")
	s.Pad = rapid.IntRange(1, 3).Draw(rt, "k")*unit - rapid.IntRange(0, len(s.Payload)+200).Draw(rt, "back")
	if s.Pad < 20 {
		s.Pad = 20
	}
	rec.Case(f.NonTrivial(), ev.Hash(s.Payload, []byte(fmt.Sprint(s.Container, s.At, s.Pad))), "sweep:"+s.Container)
	return s
}}

func init() { pbt.Register(chk); pbt.Register(chkSweep) }

func TestProp(t *testing.T) {
	defer rec.MustWrite()
	rec.Rule("payload = C03's generated record x forward layout (both byte orders, first-IFD offset 8 or padded) embedded in TIFF, JPEG (APP1 among random APPn/COM/near-miss segments), " +
		"PNG (eXIf before or after IDAT among random chunks with valid CRC), CR3 (whole block in CMT1; and the record split over CMT1/CMT2/CMT4) among random boxes, HEIF (ftyp heic/heix/mif1, meta+iloc, mdat item), " +
		"decoded through Decode and the format-specific entry point; oracle: masked digests identical across all containers/byte orders AND equal to the record (C03's comparison); image type = the container's. " +
		"non-trivial = record non-trivial as in C03; distinct by (payload, JPEG embedding)")
	rec.Assume("bytes placed before the payload in HEIF files contain no 'I'/'M' (the HEIF path locates Exif by signature scan); JPEG payloads <= 65000 bytes; PNG CRCs valid")
	rec.Assume("Decode is not a corresponding entry point for PNG (it reports 'metadata not supported' for image/png by design); DecodePng is")
	rec.Rule("filler independence: a generated block behind pad bytes of format-valid filler (JPEG COM segments, PNG tEXt chunk, ISOBMFF free box inside moov / the Canon box / meta / between meta and mdat, spaces inside mdat) " +
		"must decode (Decode, the format entry point, and the box reader with the Exif reader as callback) to the same masked digest as without filler: exhaustive over every pad from the minimum to one (quick) or three (thorough) 4 KiB buffers plus 300 for fixed-seed records, random (record, container, placement, pad near a multiple of 1/2/4/8/64 KiB) otherwise")
	pbt.RegressDir(t, rec)
	// exhaustive pad sweep for a few records drawn from VERIF_SEED
	nrec, maxPad := rec.Env.Pick(1, 4), rec.Env.Pick(4096+300, 3*4096+300)
	idx := 0
	for ri := 0; ri < nrec; ri++ {
		f := rapid.Custom(func(rt *rapid.T) *gen.ExifFile {
			return gen.GenExif(rt, gen.Options{Unbuffered: true, MaxForeign: 3, HeavyWriter: ri == 1})
		}).Example(int(rec.Env.Seed%100000)*8 + ri + 1)
		for _, ct := range []struct {
			c  string
			at int
		}{{"jpeg", 0}, {"png", 0}, {"cr3", 0}, {"cr3", 1}, {"heif", 0}, {"heif", 1}, {"heif", 2}, {"heif", 3}} {
			if ct.c == "jpeg" && len(f.Enc.II) > 65000 {
				continue
			}
			for pad := 20; pad <= maxPad; pad++ {
				idx++
				if idx%rec.Env.Shards != rec.Env.Shard {
					continue
				}
				s := Sweep{Rec: f.Rec, Ctx: exifcheck.CtxOf(f), Payload: f.Enc.II, Container: ct.c, At: ct.at, Pad: pad}
				if pad%2 == 1 {
					s.Payload = f.Enc.MM
				}
				rec.Case(true, ev.Hash(s.Payload, []byte(fmt.Sprint(ct.c, ct.at, pad))), "sweep-exhaustive:"+ct.c)
				if fl := evalSweep(s); fl != nil {
					if pbt.Report(t, rec, chkSweep.Name, s, fl) {
						return
					}
				}
			}
		}
	}
	pbt.Run(t, rec, chk, rec.Env.Pick(1200, 40000), 1)
	pbt.Run(t, rec, chkSweep, rec.Env.Pick(1500, 60000), 2)
}

func TestReplay(t *testing.T) { pbt.Replay(t, rec) }
