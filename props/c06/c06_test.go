// C06 — the container does not change the metadata: the same Exif payload
// embedded in TIFF, JPEG, PNG, CR3 (CMT1 and split CMT1/2/4) and HEIF decodes
// to identical fields (only the image type differs) and equals the record.
package c06

import (
	"fmt"
	"strings"
	"testing"

	"pgregory.net/rapid"

	"verif/internal/ev"
	"verif/internal/exifcheck"
	"verif/internal/gen"
	"verif/internal/pbt"
)

var rec = ev.New("C06")

type Case struct {
	Rec    *gen.Record     `json:"rec"`
	Ctx    exifcheck.Ctx   `json:"ctx"`
	Embeds []gen.Embedding `json:"embeddings"`
	First  int             `json:"first_ifd"`
	Order  string          `json:"block_order"`
}

func eval(c Case) *pbt.Fail {
	ref := ""
	refName := ""
	okContainers := 0
	for _, em := range c.Embeds {
		for _, enc := range []struct {
			n string
			b []byte
		}{{"II", em.II}, {"MM", em.MM}} {
			for _, entry := range em.Entries {
				where := fmt.Sprintf("%s/%s via %s", em.Name, enc.n, entry)
				key := "container:" + em.Name
				e, err, pan := exifcheck.Decode(entry, enc.b)
				if pan != "" {
					return pbt.Failf(key, "%s panicked: %s", where, pan)
				}
				if err != nil {
					return pbt.Failf(key, "%s returned error %v on a well-formed file", where, err)
				}
				if want := exifcheck.WantType(em.Type, c.Rec.DNGVersion); e.ImageType != want {
					return pbt.Failf(key, "%s reports image type %v, want %v", where, e.ImageType, want)
				}
				// the split CR3 variant stores the same record as three blocks: compare with the record and the others
				d := exifcheck.MaskedDigest(e)
				if ref == "" {
					ref, refName = d, where
				} else if d != ref {
					return pbt.Failf(key, "%s differs from %s: %s", where, refName, exifcheck.FirstDiff(d, ref))
				}
				if diffs := exifcheck.Compare(e, c.Rec, c.Ctx); len(diffs) > 0 {
					return pbt.Failf(key, "%s: %s", where, strings.Join(diffs, "; "))
				}
			}
		}
		okContainers++
	}
	return nil
}

func genCase(rt *rapid.T) Case {
	f := gen.GenExif(rt, gen.Options{Unbuffered: true, Split: true, MaxForeign: 4})
	c := Case{Rec: f.Rec, Ctx: exifcheck.CtxOf(f), Embeds: gen.Embed(rt, f), First: f.FirstIFD, Order: f.Enc.BlockOrder}
	cls := append([]string{}, f.Classes...)
	rec.Case(f.NonTrivial(), ev.Hash(f.Enc.II, c.Embeds[1].II), cls...)
	if f.NonTrivial() {
		lens := map[string]int{}
		for _, e := range c.Embeds {
			lens[e.Name] = len(e.II)
		}
		rec.Sample("payload", map[string]any{"rec": f.Rec, "first_ifd": f.FirstIFD, "container_lengths": lens})
	}
	return c
}

var chk = pbt.Check[Case]{Name: "container-independence", Gen: genCase, Eval: eval}

func init() { pbt.Register(chk) }

func TestProp(t *testing.T) {
	defer rec.MustWrite()
	rec.Rule("payload = C03's generated record x forward layout (both byte orders, first-IFD offset 8 or padded) embedded in TIFF, JPEG (APP1 among random APPn/COM/near-miss segments), " +
		"PNG (eXIf before or after IDAT among random chunks with valid CRC), CR3 (whole block in CMT1; and the record split over CMT1/CMT2/CMT4) among random boxes, HEIF (ftyp heic/heix/mif1, meta+iloc, mdat item), " +
		"decoded through Decode and the format-specific entry point; oracle: masked digests identical across all containers/byte orders AND equal to the record (C03's comparison); image type = the container's. " +
		"non-trivial = record non-trivial as in C03; distinct by (payload, JPEG embedding)")
	rec.Assume("bytes placed before the payload in HEIF files contain no 'I'/'M' (the HEIF path locates Exif by signature scan); JPEG payloads <= 65000 bytes; PNG CRCs valid")
	rec.Assume("Decode is not a corresponding entry point for PNG (it reports 'metadata not supported' for image/png by design); DecodePng is")
	pbt.RegressDir(t, rec)
	pbt.Run(t, rec, chk, rec.Env.Pick(1200, 40000), 1)
}

func TestReplay(t *testing.T) { pbt.Replay(t, rec) }
