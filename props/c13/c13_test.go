// C13 — XMP properties are extracted exactly, in attribute or element form alike.
//
// A logical record (random subset of the supported properties with typed
// values) is serialised with generated layout choices and parsed; the result
// must equal the record, and the attribute-only and element-only
// serialisations of the same record must parse identically.
package c13

import (
	"bufio"
	"bytes"
	"fmt"
	"math"
	"regexp"
	"strconv"
	"strings"
	"testing"
	"time"

	"pgregory.net/rapid"

	"github.com/evanoberholster/imagemeta/imagetype"
	"github.com/evanoberholster/imagemeta/meta"
	"github.com/evanoberholster/imagemeta/xmp"

	"verif/internal/digest"
	"verif/internal/ev"
	"verif/internal/pbt"
	"verif/internal/xmpgen"
)

var rec = ev.New("C13")

type Case struct {
	Rec  xmpgen.Record `json:"record"`
	Ext  string        `json:"ext,omitempty"`  // extended switch in use ("" = main domain)
	Over string        `json:"over,omitempty"` // name of the property whose token exceeds the reader's window (must yield an error)
}

// ------------------------------------------------------------ property table --

type kind int

const (
	kString kind = iota
	kU16
	kU32
	kEnum // small unsigned
	kRational
	kBias
	kDate
	kUUID
	kFloat
	kMime
	kRating
)

type spec struct {
	ns, name string
	k        kind
	max      int
	set      func(x *xmp.XMP, v any)
}

var specs = []spec{
	{"tiff", "Make", kString, 0, func(x *xmp.XMP, v any) { x.Tiff.Make = v.(string) }},
	{"tiff", "Model", kString, 0, func(x *xmp.XMP, v any) { x.Tiff.Model = v.(string) }},
	{"tiff", "ImageWidth", kU16, 65535, func(x *xmp.XMP, v any) { x.Tiff.ImageWidth = uint16(v.(uint64)) }},
	{"tiff", "ImageLength", kU16, 65535, func(x *xmp.XMP, v any) { x.Tiff.ImageLength = uint16(v.(uint64)) }},
	{"tiff", "Orientation", kEnum, 8, func(x *xmp.XMP, v any) { x.Tiff.Orientation = meta.Orientation(v.(uint64)) }},
	{"exif", "PixelXDimension", kU32, 0, func(x *xmp.XMP, v any) { x.Exif.PixelXDimension = uint32(v.(uint64)) }},
	{"exif", "PixelYDimension", kU32, 0, func(x *xmp.XMP, v any) { x.Exif.PixelYDimension = uint32(v.(uint64)) }},
	{"exif", "DateTimeOriginal", kDate, 0, func(x *xmp.XMP, v any) { x.Exif.DateTimeOriginal = v.(time.Time) }},
	{"exif", "ExposureTime", kRational, 0, func(x *xmp.XMP, v any) { x.Exif.ExposureTime = meta.ExposureTime(v.(float32)) }},
	{"exif", "ExposureProgram", kEnum, 9, func(x *xmp.XMP, v any) { x.Exif.ExposureProgram = meta.ExposureProgram(v.(uint64)) }},
	{"exif", "ExposureMode", kEnum, 2, func(x *xmp.XMP, v any) { x.Exif.ExposureMode = meta.ExposureMode(v.(uint64)) }},
	{"exif", "ExposureBiasValue", kBias, 0, func(x *xmp.XMP, v any) { x.Exif.ExposureBias = v.(meta.ExposureBias) }},
	{"exif", "FocalLength", kRational, 0, func(x *xmp.XMP, v any) { x.Exif.FocalLength = meta.FocalLength(v.(float32)) }},
	{"exif", "SubjectDistance", kRational, 0, func(x *xmp.XMP, v any) { x.Exif.SubjectDistance = v.(float32) }},
	{"exif", "MeteringMode", kEnum, 6, func(x *xmp.XMP, v any) { x.Exif.MeteringMode = meta.MeteringMode(v.(uint64)) }},
	{"exif", "FNumber", kRational, 0, func(x *xmp.XMP, v any) { x.Exif.Aperture = meta.Aperture(v.(float32)) }},
	{"exif", "GPSLatitude", kFloat, 90, func(x *xmp.XMP, v any) { x.Exif.GPSLatitude = v.(float64) }},
	{"exif", "GPSLongitude", kFloat, 180, func(x *xmp.XMP, v any) { x.Exif.GPSLongitude = v.(float64) }},
	{"exif", "GPSAltitude", kFloat, 9000, func(x *xmp.XMP, v any) { x.Exif.GPSAltitude = float32(v.(float64)) }},
	{"aux", "SerialNumber", kString, 0, func(x *xmp.XMP, v any) { x.Aux.SerialNumber = v.(string) }},
	{"aux", "Lens", kString, 0, func(x *xmp.XMP, v any) { x.Aux.Lens = v.(string) }},
	{"aux", "LensInfo", kString, 0, func(x *xmp.XMP, v any) { x.Aux.LensInfo = v.(string) }},
	{"aux", "LensID", kU32, 0, func(x *xmp.XMP, v any) { x.Aux.LensID = uint32(v.(uint64)) }},
	{"aux", "LensSerialNumber", kString, 0, func(x *xmp.XMP, v any) { x.Aux.LensSerialNumber = v.(string) }},
	{"aux", "ImageNumber", kU16, 65535, func(x *xmp.XMP, v any) { x.Aux.ImageNumber = uint16(v.(uint64)) }},
	{"aux", "FlashCompensation", kBias, 0, func(x *xmp.XMP, v any) { x.Aux.FlashCompensation = v.(meta.ExposureBias) }},
	{"xmp", "CreateDate", kDate, 0, func(x *xmp.XMP, v any) { x.Basic.CreateDate = v.(time.Time) }},
	{"xmp", "ModifyDate", kDate, 0, func(x *xmp.XMP, v any) { x.Basic.ModifyDate = v.(time.Time) }},
	{"xmp", "MetadataDate", kDate, 0, func(x *xmp.XMP, v any) { x.Basic.MetadataDate = v.(time.Time) }},
	{"xmp", "CreatorTool", kString, 0, func(x *xmp.XMP, v any) { x.Basic.CreatorTool = v.(string) }},
	{"xmp", "Label", kString, 0, func(x *xmp.XMP, v any) { x.Basic.Label = v.(string) }},
	{"xmp", "Rating", kRating, 5, func(x *xmp.XMP, v any) { x.Basic.Rating = int8(v.(int64)) }},
	{"xmpMM", "DocumentID", kUUID, 0, func(x *xmp.XMP, v any) { x.MM.DocumentID = v.(meta.UUID) }},
	{"xmpMM", "OriginalDocumentID", kUUID, 0, func(x *xmp.XMP, v any) { x.MM.OriginalDocumentID = v.(meta.UUID) }},
	{"xmpMM", "InstanceID", kUUID, 0, func(x *xmp.XMP, v any) { x.MM.InstanceID = v.(meta.UUID) }},
	{"xmpMM", "PreservedFileName", kString, 0, func(x *xmp.XMP, v any) { x.MM.PreservedFileName = v.(string) }},
	{"crs", "RawFileName", kString, 0, func(x *xmp.XMP, v any) { x.CRS.RawFileName = v.(string) }},
	{"dc", "format", kMime, 0, func(x *xmp.XMP, v any) { x.DC.Format = v.(imagetype.ImageType) }},
}

var specIndex = map[string]*spec{}

func init() {
	for i := range specs {
		specIndex[specs[i].ns+":"+specs[i].name] = &specs[i]
	}
	// the old "xap"/"xapMM" prefixes name the same namespaces
	for _, s := range specs {
		s := s
		if s.ns == "xmp" {
			specIndex["xap:"+s.name] = &s
		}
		if s.ns == "xmpMM" {
			specIndex["xapMM:"+s.name] = &s
		}
	}
}

var charRef = regexp.MustCompile(`&(lt|gt|quot|apos|amp|#[0-9]{1,7}|#x[0-9a-fA-F]{1,6});`)

var mimes = map[string]imagetype.ImageType{"image/jpeg": imagetype.ImageJPEG, "image/png": imagetype.ImagePNG, "image/tiff": imagetype.ImageTiff, "image/x-canon-cr3": imagetype.ImageCR3,
	"image/x-adobe-dng": imagetype.ImageDNG, "image/heif": imagetype.ImageHEIF, "image/x-nikon-nef": imagetype.ImageNEF}

// interpret turns the text of a property into its typed value by the XMP text-to-value rules (DESIGN Appendix B).
func interpret(s *spec, text string) (any, error) {
	switch s.k {
	case kString:
		// the five predefined entities stand for their characters (XML 1.0 section 4.6), character references &#N; / &#xH;
		// for the character with that code (section 4.1); one left-to-right pass, nothing is expanded twice
		return charRef.ReplaceAllStringFunc(text, func(m string) string {
			switch m {
			case "&lt;":
				return "<"
			case "&gt;":
				return ">"
			case "&quot;":
				return "\""
			case "&apos;":
				return "'"
			case "&amp;":
				return "&"
			}
			var n uint64
			var err error
			if m[2] == 'x' {
				n, err = strconv.ParseUint(m[3:len(m)-1], 16, 32)
			} else {
				n, err = strconv.ParseUint(m[2:len(m)-1], 10, 32)
			}
			if err != nil || n == 0 || n > 0x10ffff {
				return m
			}
			return string(rune(n))
		}), nil
	case kU16, kU32, kEnum:
		v, err := strconv.ParseUint(strings.Trim(text, " \t\r\n"), 10, 64)
		return v, err
	case kRating:
		v, err := strconv.ParseInt(strings.Trim(text, " \t\r\n"), 10, 8)
		return v, err
	case kRational:
		i := strings.IndexByte(text, '/')
		if i < 0 {
			return nil, fmt.Errorf("not a rational")
		}
		n, e1 := strconv.ParseUint(text[:i], 10, 32)
		d, e2 := strconv.ParseUint(text[i+1:], 10, 32)
		if e1 != nil || e2 != nil || d == 0 {
			return nil, fmt.Errorf("bad rational")
		}
		return float32(float64(n) / float64(d)), nil
	case kBias:
		i := strings.IndexByte(text, '/')
		n, e1 := strconv.ParseInt(strings.TrimPrefix(text[:i], "+"), 10, 16)
		d, e2 := strconv.ParseInt(text[i+1:], 10, 16)
		if e1 != nil || e2 != nil {
			return nil, fmt.Errorf("bad bias")
		}
		if n == 0 {
			return meta.ExposureBias(0), nil
		}
		// the value is the fraction, whatever common factor the writer left in it ("200/100" is +2): the type packs a signed
		// 8-bit numerator above an 8-bit denominator (its doc comment), so the fraction in lowest terms is what it can hold
		a, b := n, d
		if a < 0 {
			a = -a
		}
		for b != 0 {
			a, b = b, a%b
		}
		n, d = n/a, d/a
		if n < -128 || n > 127 || d > 255 {
			return nil, fmt.Errorf("bias %s does not fit the type in lowest terms (generator error)", text)
		}
		return meta.ExposureBias(int16(n)<<8 | int16(d)), nil
	case kDate:
		// XMP Date: YYYY, YYYY-MM, YYYY-MM-DD, YYYY-MM-DDThh:mmTZD, ...:ssTZD, ...:ss.sTZD (TZD optional)
		for _, layout := range []string{"2006-01-02T15:04:05.999999999Z07:00", "2006-01-02T15:04:05.999999999", "2006-01-02T15:04Z07:00", "2006-01-02T15:04", "2006-01-02", "2006-01", "2006"} {
			if t, err := time.Parse(layout, text); err == nil {
				return t, nil
			}
		}
		return nil, fmt.Errorf("bad date")
	case kUUID:
		h := text
		if i := strings.LastIndexByte(h, ':'); i >= 0 {
			h = h[i+1:]
		}
		h = strings.NewReplacer("-", "", "{", "", "}", "").Replace(h)
		var u meta.UUID
		if len(h) != 32 {
			return nil, fmt.Errorf("bad uuid")
		}
		for i := 0; i < 16; i++ {
			b, err := strconv.ParseUint(h[2*i:2*i+2], 16, 8)
			if err != nil {
				return nil, err
			}
			u[i] = byte(b)
		}
		return u, nil
	case kFloat:
		// XMP specification part 2: GPSCoordinate "DDD,MM,SSk" or "DDD,MM.mmk" (k in N S E W); Rational "n/d"; else a decimal
		if n := len(text); n > 1 && strings.ContainsRune("NSEW", rune(text[n-1])) {
			parts := strings.Split(text[:n-1], ",")
			if len(parts) != 2 && len(parts) != 3 {
				return nil, fmt.Errorf("bad GPS coordinate")
			}
			var v, scale float64 = 0, 1
			for _, p := range parts {
				f, err := strconv.ParseFloat(p, 64)
				if err != nil {
					return nil, err
				}
				v += f / scale
				scale *= 60
			}
			if text[n-1] == 'S' || text[n-1] == 'W' {
				v = -v
			}
			return v, nil
		}
		if i := strings.IndexByte(text, '/'); i > 0 {
			a, err1 := strconv.ParseFloat(text[:i], 64)
			b, err2 := strconv.ParseFloat(text[i+1:], 64)
			if err1 != nil || err2 != nil || b == 0 {
				return nil, fmt.Errorf("bad rational")
			}
			return a / b, nil
		}
		return strconv.ParseFloat(text, 64)
	case kMime:
		return mimes[text], nil
	}
	return nil, fmt.Errorf("unknown kind")
}

func expected(r xmpgen.Record) (xmp.XMP, error) {
	var x xmp.XMP
	for _, p := range r.Props {
		s := specIndex[p.NS+":"+p.Name]
		if s == nil {
			return x, fmt.Errorf("no spec for %s:%s", p.NS, p.Name)
		}
		v, err := interpret(s, p.Value)
		if err != nil {
			return x, fmt.Errorf("%s:%s %q: %v", p.NS, p.Name, p.Value, err)
		}
		s.set(&x, v)
	}
	for _, a := range r.Arrays {
		items := append([]string(nil), a.Items...)
		switch a.NS + ":" + a.Name {
		case "dc:creator":
			x.DC.Creator = items
		case "dc:subject":
			x.DC.Subject = items
		case "dc:title":
			x.DC.Title = items
			x.DC.TitleLang = append([]string(nil), a.Langs...)
		case "dc:description":
			x.DC.Description = items
		case "dc:rights":
			x.DC.Rights = items
		case "exif:ISOSpeedRatings":
			if len(items) > 0 {
				v, _ := strconv.ParseUint(items[len(items)-1], 10, 32)
				x.Exif.ISOSpeedRatings = uint32(v)
			}
		}
	}
	return x, nil
}

// floats are compared within 2 ulp of float32 (the library divides in float32), everything else exactly
func compare(got, want xmp.XMP) string {
	near := func(a, b float32) bool {
		return a == b || math.Abs(float64(a)-float64(b)) <= math.Abs(float64(b))/(1<<22)
	}
	g := got
	if near(float32(g.Exif.ExposureTime), float32(want.Exif.ExposureTime)) {
		g.Exif.ExposureTime = want.Exif.ExposureTime
	}
	if near(float32(g.Exif.FocalLength), float32(want.Exif.FocalLength)) {
		g.Exif.FocalLength = want.Exif.FocalLength
	}
	if near(g.Exif.SubjectDistance, want.Exif.SubjectDistance) {
		g.Exif.SubjectDistance = want.Exif.SubjectDistance
	}
	if near(float32(g.Exif.Aperture), float32(want.Exif.Aperture)) {
		g.Exif.Aperture = want.Exif.Aperture
	}
	// a bias is the fraction it stands for: "50/45" may be reported as 50/45 or as 10/9
	w := want
	g.Exif.ExposureBias, w.Exif.ExposureBias = lowest(g.Exif.ExposureBias), lowest(w.Exif.ExposureBias)
	g.Aux.FlashCompensation, w.Aux.FlashCompensation = lowest(g.Aux.FlashCompensation), lowest(w.Aux.FlashCompensation)
	a, b := digest.Of(g), digest.Of(w)
	if a == b {
		return ""
	}
	la, lb := strings.Split(a, "\n"), strings.Split(b, "\n")
	var diffs []string
	for i := 0; i < len(la) && i < len(lb); i++ {
		if la[i] != lb[i] {
			diffs = append(diffs, fmt.Sprintf("got %s, packet says %s", la[i], lb[i]))
			if len(diffs) == 3 {
				break
			}
		}
	}
	if len(diffs) == 0 {
		return fmt.Sprintf("results differ in length (%d vs %d lines)", len(la), len(lb))
	}
	return strings.Join(diffs, "; ")
}

// lowest returns the bias (signed 8-bit numerator above an 8-bit denominator) in lowest terms.
func lowest(eb meta.ExposureBias) meta.ExposureBias {
	n, d := int(int8(eb>>8)), int(uint8(eb))
	a, b := n, d
	if a < 0 {
		a = -a
	}
	for b != 0 {
		a, b = b, a%b
	}
	if a > 1 {
		n, d = n/a, d/a
	}
	return meta.ExposureBias(int16(n)<<8 | int16(d))
}

func parse(b []byte) (x xmp.XMP, err error, pan string) {
	defer func() {
		if r := recover(); r != nil {
			pan = fmt.Sprint(r)
		}
	}()
	x, err = xmp.ParseXmp(bytes.NewReader(b))
	return
}

// parseVia hands ParseXmp a caller's bufio.Reader of the given size (the reader adopts it if it is large enough).
func parseVia(b []byte, size int) (x xmp.XMP, err error, pan string) {
	defer func() {
		if r := recover(); r != nil {
			pan = fmt.Sprint(r)
		}
	}()
	x, err = xmp.ParseXmp(bufio.NewReaderSize(bytes.NewReader(b), size))
	return
}

var bufioSizes = []int{16, 512, 600, 1024, 1537, 1538, 1539, 4096, 65536}

func eval(c Case) *pbt.Fail {
	key := c.Ext
	pkt := xmpgen.Serialise(c.Rec)
	got, err, pan := parse(pkt)
	if pan != "" {
		return pbt.Failf("escaped-panic", "ParseXmp let a non-error panic value escape: %s", pan)
	}
	if c.Over != "" {
		if err == nil {
			return pbt.Failf("overlong-accepted", "a token of property %s exceeds the reader's 1538-byte window, yet ParseXmp returned no error (a truncated or wrong value would go unnoticed)", c.Over)
		}
		return nil
	}
	want, werr := expected(c.Rec)
	if werr != nil {
		return pbt.Failf("", "harness: %v", werr)
	}
	if err != nil {
		return pbt.Failf(keyOr(key, "error"), "ParseXmp failed on a well-formed %d-byte packet: %v%s", len(pkt), err, hint(c.Rec, pkt))
	}
	if d := compare(got, want); d != "" {
		return pbt.Failf(keyOr(key, "value"), "parse(serialise(record)) != record: %s%s", d, hint(c.Rec, pkt))
	}
	// the same packet through a caller-supplied bufio.Reader of a size chosen by the packet's length (every size is met)
	size := bufioSizes[len(pkt)%len(bufioSizes)]
	if gb, eb, pb := parseVia(pkt, size); pb != "" || eb != nil || digest.Of(gb) != digest.Of(got) {
		return pbt.Failf(keyOr(key, "bufio-reader"), "ParseXmp through a caller's bufio.Reader of %d bytes: err %v, panic %q, same result %v; through a plain reader it parses exactly%s", size, eb, pb, eb == nil && pb == "" && digest.Of(gb) == digest.Of(got), hint(c.Rec, pkt))
	}
	// the same record with every simple property as attribute / as element parses identically
	ra, re := c.Rec, c.Rec
	ra.Props, re.Props = append([]xmpgen.Prop(nil), c.Rec.Props...), append([]xmpgen.Prop(nil), c.Rec.Props...)
	for i := range ra.Props {
		ra.Props[i].Elem = false
		re.Props[i].Elem = true
	}
	xa, ea, _ := parse(xmpgen.Serialise(ra))
	xe, ee, _ := parse(xmpgen.Serialise(re))
	if ea != nil || ee != nil {
		return pbt.Failf(keyOr(key, "form-error"), "the all-attribute form parses with error %v, the all-element form with error %v", ea, ee)
	}
	if da, de := digest.Of(xa), digest.Of(xe); da != de {
		return pbt.Failf(keyOr(key, "form-differs"), "attribute form and element form of the same record parse differently: %s", firstDiff(da, de))
	}
	return nil
}

func keyOr(k, d string) string {
	if k != "" {
		return "ext:" + k
	}
	return d
}

func firstDiff(a, b string) string {
	la, lb := strings.Split(a, "\n"), strings.Split(b, "\n")
	for i := 0; i < len(la) && i < len(lb); i++ {
		if la[i] != lb[i] {
			return fmt.Sprintf("%q vs %q", la[i], lb[i])
		}
	}
	return "different lengths"
}

// hint lists the long values (those are what the look-ahead steps act on)
func hint(r xmpgen.Record, pkt []byte) string {
	var s []string
	for _, p := range r.Props {
		if len(p.Value) > 100 {
			form := "attr"
			if p.Elem {
				form = "elem"
			}
			s = append(s, fmt.Sprintf("%s:%s(%s,%d bytes)", p.NS, p.Name, form, len(p.Value)))
		}
	}
	if len(s) == 0 {
		return ""
	}
	return " [long values: " + strings.Join(s, " ") + "]"
}

// ------------------------------------------------------------- generator ----

func genValue(rt *rapid.T, s *spec, long bool) string {
	switch s.k {
	case kString:
		return xmpgen.Text(rt, "text", long)
	case kU16:
		return strconv.Itoa(rapid.SampledFrom([]int{0, 1, 9, 10, 255, 256, 4000, 6000, 65534, 65535}).Draw(rt, "u16") % 65536)
	case kU32:
		return strconv.FormatUint(uint64(rapid.SampledFrom([]uint32{0, 1, 100, 6000, 65536, 1 << 31, math.MaxUint32 - 1, math.MaxUint32}).Draw(rt, "u32")), 10)
	case kEnum:
		lo := 0
		if s.name == "Orientation" {
			lo = 1
		}
		if s.name == "MeteringMode" && rapid.IntRange(0, 5).Draw(rt, "other") == 0 {
			return "255" // "other" (Exif 2.32)
		}
		return strconv.Itoa(rapid.IntRange(lo, s.max).Draw(rt, "enum"))
	case kRating:
		return strconv.Itoa(rapid.IntRange(0, 5).Draw(rt, "rating"))
	case kRational:
		n := rapid.SampledFrom([]uint32{0, 1, 10, 28, 35, 100, 1000, 4000, 65535, 1 << 24, math.MaxUint32}).Draw(rt, "n")
		d := rapid.SampledFrom([]uint32{1, 2, 3, 10, 100, 1000, 8000, 1 << 20, math.MaxUint32}).Draw(rt, "d")
		return fmt.Sprintf("%d/%d", n, d)
	case kBias:
		n := rapid.IntRange(-127, 127).Draw(rt, "bn")
		d := rapid.IntRange(1, 127).Draw(rt, "bd")
		if n == 0 {
			return rapid.SampledFrom([]string{"0/1", "0/3", "0/0"}).Draw(rt, "bz")
		}
		if n > 0 && rapid.Bool().Draw(rt, "plus") {
			return fmt.Sprintf("+%d/%d", n, d)
		}
		return fmt.Sprintf("%d/%d", n, d)
	case kDate:
		d := xmpgen.GenDate(rt, "date").String()
		if long { // (flag reused by the standard-forms switch: truncated date forms)
			switch rapid.IntRange(0, 3).Draw(rt, "datecut") {
			case 0:
				return d[:10] // YYYY-MM-DD
			case 1:
				return d[:7]
			case 2:
				zone := ""
				if i := strings.IndexAny(d[19:], "Z+-"); i >= 0 {
					zone = d[19+i:]
				}
				return d[:16] + zone // no seconds
			}
		}
		return d
	case kUUID:
		var u [16]byte
		for i := range u {
			u[i] = rapid.Byte().Draw(rt, "uuid")
		}
		canon := fmt.Sprintf("%x-%x-%x-%x-%x", u[0:4], u[4:6], u[6:8], u[8:10], u[10:16])
		form := rapid.SampledFrom([]string{"canon", "canon", "hash", "braced", "upper"}).Draw(rt, "uform")
		switch form {
		case "hash":
			canon = strings.ReplaceAll(canon, "-", "")
		case "braced":
			canon = "{" + canon + "}"
		case "upper":
			canon = strings.ToUpper(canon)
		}
		return rapid.SampledFrom([]string{"", "xmp.did:", "xmp.iid:", "uuid:"}).Draw(rt, "uprefix") + canon
	case kFloat:
		if long && s.name != "GPSAltitude" { // standard-forms switch: GPSCoordinate
			deg := rapid.IntRange(0, s.max-1).Draw(rt, "deg")
			k := map[string]string{"GPSLatitude": "NS", "GPSLongitude": "EW"}[s.name]
			ref := string(k[rapid.IntRange(0, 1).Draw(rt, "ref")])
			if rapid.Bool().Draw(rt, "dms") {
				return fmt.Sprintf("%d,%d,%d%s", deg, rapid.IntRange(0, 59).Draw(rt, "min"), rapid.IntRange(0, 59).Draw(rt, "sec"), ref)
			}
			return fmt.Sprintf("%d,%d.%04d%s", deg, rapid.IntRange(0, 59).Draw(rt, "min"), rapid.IntRange(0, 9999).Draw(rt, "minfrac"), ref)
		}
		if long { // GPSAltitude as Rational
			return fmt.Sprintf("%d/%d", rapid.IntRange(0, 900000).Draw(rt, "altn"), rapid.SampledFrom([]int{1, 10, 100, 1000}).Draw(rt, "altd"))
		}
		v := rapid.Float64Range(-float64(s.max), float64(s.max)).Draw(rt, "f")
		return strconv.FormatFloat(v, 'f', rapid.IntRange(0, 8).Draw(rt, "prec"), 64)
	case kMime:
		var ks []string
		for k := range mimes {
			ks = append(ks, k)
		}
		sortStrings(ks)
		return rapid.SampledFrom(ks).Draw(rt, "mime")
	}
	return "x"
}

func sortStrings(s []string) {
	for i := 1; i < len(s); i++ {
		for j := i; j > 0 && s[j] < s[j-1]; j-- {
			s[j], s[j-1] = s[j-1], s[j]
		}
	}
}

type opts struct {
	ext  string
	over bool
}

func genCase(o opts) func(rt *rapid.T) Case {
	return func(rt *rapid.T) Case {
		var r xmpgen.Record
		r.Blocks = rapid.SampledFrom([]int{1, 1, 1, 2, 3}).Draw(rt, "blocks")
		r.XPacket = rapid.Bool().Draw(rt, "xpacket")
		r.RootAttr = rapid.Bool().Draw(rt, "rootattr")
		r.Indent = rapid.SampledFrom([]string{" ", "\n", "\n ", "\n   ", "  ", "\n\n  "}).Draw(rt, "indent")
		switch o.ext {
		case "ws-tab":
			r.Indent = rapid.SampledFrom([]string{"\t", "\n\t", " \t "}).Draw(rt, "indent.tab")
		case "ws-cr":
			r.Indent = rapid.SampledFrom([]string{"\r\n", "\r\n  "}).Draw(rt, "indent.cr")
		case "ws-long":
			r.Indent = "\n" + strings.Repeat(" ", rapid.SampledFrom([]int{100, 127, 128, 129, 300, 600}).Draw(rt, "indent.long"))
		}
		if o.ext == "ws-in-tags" {
			// white space where XML allows it inside tags (XML 1.0: STag ::= '<' Name (S Attribute)* S? '>', Eq ::= S? '=' S?)
			sp := func(l string) string { return rapid.SampledFrom([]string{"", " ", "\n", "  ", "\n  "}).Draw(rt, l) }
			switch rapid.IntRange(0, 3).Draw(rt, "wsin") {
			case 0:
				r.WSClose = rapid.SampledFrom([]string{" ", "\n", "   "}).Draw(rt, "wsclose")
			case 1:
				r.WSEq = [2]string{sp("eq0"), sp("eq1")}
			case 2:
				r.WSName = rapid.SampledFrom([]string{" ", "\n"}).Draw(rt, "wsname")
			default:
				r.WSClose, r.WSEq, r.WSName = sp("c"), [2]string{sp("e0"), sp("e1")}, sp("n")
			}
		}
		if rapid.Bool().Draw(rt, "junk") {
			r.Junk = rapid.SampledFrom([]string{"\xef\xbb\xbf", "garbage before the packet \x00\x01\x02 ", strings.Repeat("J", 2000), "<?xml version=\"1.0\"?>\n", "<<<>x:xmp "}).Draw(rt, "junkv")
		}
		n := rapid.IntRange(1, 14).Draw(rt, "nprops")
		perm := rapid.Permutation(seq(len(specs))).Draw(rt, "which")
		longBudget := rapid.IntRange(0, 3).Draw(rt, "nlong")
		both := [2]int{}
		crossing := false
		for i := 0; i < n && i < len(perm); i++ {
			s := &specs[perm[i]]
			long := s.k == kString && longBudget > 0
			if long {
				longBudget--
			}
			if o.ext == "standard-forms" && (s.k == kFloat || s.k == kDate) {
				long = true
			}
			p := xmpgen.Prop{NS: s.ns, Name: s.name, Value: genValue(rt, s, long), Elem: rapid.Bool().Draw(rt, "elem"), Quote: rapid.SampledFrom([]byte{'"', '"', '\''}).Draw(rt, "quote"), Block: rapid.IntRange(0, 2).Draw(rt, "block")}
			if s.ns == "xmp" && rapid.IntRange(0, 5).Draw(rt, "oldprefix") == 0 {
				p.NS = "xap"
			}
			if s.ns == "xmpMM" && rapid.IntRange(0, 5).Draw(rt, "oldprefixmm") == 0 {
				p.NS = "xapMM"
			}
			if o.ext == "more-forms" {
				switch s.k {
				case kString:
					// a literal '>' is ordinary character data (XML 1.0 section 2.4), also as the first character of a value
					g := rapid.SampledFrom([]string{">", "/>", ">>", "> "}).Draw(rt, "gt")
					switch rapid.IntRange(0, 2).Draw(rt, "gtpos") {
					case 0:
						p.Value = g + p.Value
					case 1:
						p.Value = p.Value + ">"
					default:
						p.Value = g + p.Value + ">"
					}
					// the quote character that does not delimit the value is ordinary text as well, as are '=' and "/>"
					other := "'"
					if p.Quote == '\'' {
						other = "\""
					}
					if rapid.Bool().Draw(rt, "otherquote") {
						h := len(p.Value) / 2
						for h > 0 && h < len(p.Value) && p.Value[h]&0xC0 == 0x80 {
							h--
						}
						p.Value = p.Value[:h] + rapid.SampledFrom([]string{other, "a=" + other + "b" + other, "/>", "="}).Draw(rt, "oq") // (no white space: the insertion may land at either end of a short value) + p.Value[h:]
					}
				case kUUID:
					// identifiers as applications write them: the UUID follows the last ':'
					u := p.Value[strings.LastIndexByte(p.Value, ':')+1:]
					p.Value = rapid.SampledFrom([]string{"adobe:docid:photoshop:", "urn:uuid:", "adobe:docid:indd:", "xmp.did:", "uuid:"}).Draw(rt, "uprefix2") + u
				case kBias:
					// tenths and hundredths, as many cameras write them: m/dd in lowest terms fits the type, k is the common factor
					for {
						m, dd := rapid.IntRange(-127, 127).Draw(rt, "bm"), rapid.SampledFrom([]int{1, 2, 3, 4, 6, 10}).Draw(rt, "bdd")
						k := rapid.SampledFrom([]int{1, 10, 20, 25, 50, 100}).Draw(rt, "bk")
						if m != 0 && m*k <= 32767 && m*k >= -32767 && dd*k <= 32767 {
							p.Value = fmt.Sprintf("%d/%d", m*k, dd*k)
							if m > 0 && rapid.Bool().Draw(rt, "bplus") {
								p.Value = "+" + p.Value
							}
							break
						}
					}
				case kU16, kU32, kEnum, kRating:
					if p.Elem {
						// an indented element: the digits are followed by the white space in front of the end tag
						p.Value += rapid.SampledFrom([]string{"\n", " ", "\n   ", "\t"}).Draw(rt, "numws")
					}
				}
			}
			if o.ext == "rating-negative" && s.k == kRating {
				p.Value = "-1"
			}
			if o.ext == "entities" && s.k == kString {
				// predefined entities at the start, in the middle and at the end of the value
				ent := func(l string) string {
					// (the last five are escaped text that itself looks like an entity: they stand for "&lt;", "&amp;" ... literally)
					return rapid.SampledFrom([]string{"&amp;", "&lt;", "&gt;", "&quot;", "&apos;", "&amp;lt;", "&amp;amp;", "&amp;gt;", "&amp;quot;", "&amp;apos;",
						"&#10;", "&#xA;", "&#x41;", "&#233;", "&#x65E5;", "&#38;", "&#x26;lt;", "&amp;#10;"}).Draw(rt, l)
				}
				switch rapid.IntRange(0, 3).Draw(rt, "entpos") {
				case 0:
					p.Value = ent("e0") + p.Value
				case 1:
					p.Value = p.Value + ent("e1")
				case 2:
					h := len(p.Value) / 2
					for h > 0 && h < len(p.Value) && p.Value[h]&0xC0 == 0x80 {
						h--
					}
					p.Value = p.Value[:h] + ent("e2") + p.Value[h:]
				default:
					p.Value = ent("e3") + p.Value + ent("e4") + ent("e5")
				}
			}
			if p.Elem {
				both[1]++
			} else {
				both[0]++
			}
			if len(p.Value) >= 120 {
				crossing = true
			}
			r.Props = append(r.Props, p)
		}
		r.Order = rapid.Permutation(seq(len(r.Props))).Draw(rt, "order")
		// arrays
		for _, a := range []struct{ ns, name, kind string }{{"dc", "creator", "Seq"}, {"dc", "subject", "Bag"}, {"dc", "title", "Alt"}, {"dc", "description", "Alt"}, {"dc", "rights", "Alt"}, {"exif", "ISOSpeedRatings", "Seq"}} {
			if !rapid.Bool().Draw(rt, "arr?") {
				continue
			}
			arr := xmpgen.Array{NS: a.ns, Name: a.name, Kind: a.kind, Block: rapid.IntRange(0, 2).Draw(rt, "ablock")}
			k := rapid.IntRange(1, 4).Draw(rt, "nitems")
			if a.name == "ISOSpeedRatings" {
				k = 1
			}
			for i := 0; i < k; i++ {
				if a.name == "ISOSpeedRatings" {
					arr.Items = append(arr.Items, strconv.Itoa(rapid.SampledFrom([]int{50, 100, 6400, 102400, 3276800}).Draw(rt, "iso")))
				} else {
					arr.Items = append(arr.Items, xmpgen.Text(rt, "item", rapid.IntRange(0, 9).Draw(rt, "itemlong") == 0))
				}
				if a.kind == "Alt" {
					arr.Langs = append(arr.Langs, rapid.SampledFrom([]string{"x-default", "en-US", "de", "ja-JP"}).Draw(rt, "lang"))
				} else if a.name != "ISOSpeedRatings" {
					// a language qualifier is allowed on the items of any array; it is not an item
					arr.Langs = append(arr.Langs, rapid.SampledFrom([]string{"", "", "", "x-default", "en-US"}).Draw(rt, "qlang"))
				}
			}
			r.Arrays = append(r.Arrays, arr)
		}
		// unknown properties and namespaces in between
		for i, k := 0, rapid.IntRange(0, 4).Draw(rt, "nunknown"); i < k; i++ {
			r.Unknown = append(r.Unknown, xmpgen.Prop{NS: rapid.SampledFrom([]string{"photoshop", "lr", "zz", "Iptc4xmpCore", "exif", "tiff", "xmp", "aux", "crs"}).Draw(rt, "uns"),
				Name:  rapid.SampledFrom([]string{"Unknown", "ColorMode", "hierarchicalSubject", "Zz9", "XResolution", "ExifVersion", "Firmware", "Nickname", "Location"}).Draw(rt, "uname"),
				Value: xmpgen.Text(rt, "uval", rapid.IntRange(0, 5).Draw(rt, "ulong") == 0), Elem: rapid.Bool().Draw(rt, "uelem"), Quote: '"', Block: rapid.IntRange(0, 2).Draw(rt, "ublock")})
			if u := &r.Unknown[len(r.Unknown)-1]; u.Elem && rapid.IntRange(0, 3).Draw(rt, "uempty") == 0 {
				u.Empty = true // an empty-element tag <ns:name/> between the known properties
			}
		}
		c := Case{Rec: r, Ext: o.ext}
		if o.over {
			// one string property (attribute or element) carries a value longer than the 1538-byte window
			p := &c.Rec.Props[0]
			for i := range c.Rec.Props {
				if specIndex[c.Rec.Props[i].NS+":"+c.Rec.Props[i].Name].k == kString {
					p = &c.Rec.Props[i]
				}
			}
			if specIndex[p.NS+":"+p.Name].k != kString {
				p.NS, p.Name = "tiff", "Make"
			}
			p.Value = strings.Repeat("v", rapid.SampledFrom([]int{1539, 1540, 1600, 2047, 2048, 3000, 5000}).Draw(rt, "overlen"))
			c.Over = p.NS + ":" + p.Name
		}
		nt := len(r.Props) >= 4 && both[0] > 0 && both[1] > 0 && crossing || o.over
		cls := []string{"props>=4:" + strconv.FormatBool(len(r.Props) >= 4), "both-forms:" + strconv.FormatBool(both[0] > 0 && both[1] > 0), "crossing-value:" + strconv.FormatBool(crossing), fmt.Sprintf("blocks:%d", r.Blocks)}
		if o.ext != "" {
			cls = append(cls, "ext:"+o.ext)
		}
		if o.over {
			cls = append(cls, "over-long-token")
		}
		pkt := xmpgen.Serialise(c.Rec)
		rec.Case(nt, ev.Hash(pkt), cls...)
		if nt && len(pkt) < 2500 {
			rec.Sample("packet"+o.ext, map[string]any{"packet": string(pkt)})
		}
		return c
	}
}

func seq(n int) []int {
	s := make([]int, n)
	for i := range s {
		s[i] = i
	}
	return s
}

var chk = pbt.Check[Case]{Name: "xmp-roundtrip", Gen: genCase(opts{}), Eval: eval}
var chkOver = pbt.Check[Case]{Name: "xmp-overlong-token", Gen: genCase(opts{over: true}), Eval: eval}
var exts = []string{"ws-tab", "ws-cr", "ws-long", "rating-negative", "entities", "ws-in-tags", "standard-forms", "more-forms"}
var chkExt = map[string]pbt.Check[Case]{}

func init() {
	pbt.Register(chk)
	pbt.Register(chkOver)
	for _, e := range exts {
		chkExt[e] = pbt.Check[Case]{Name: "xmp-roundtrip-ext-" + e, Gen: genCase(opts{ext: e}), Eval: eval}
		pbt.Register(chkExt[e])
	}
}

func TestProp(t *testing.T) {
	defer rec.MustWrite()
	rec.Rule("logical record: 1-14 of the 38 supported simple properties (tiff, exif, aux, xmp/xap, xmpMM/xapMM, crs, dc:format) with typed values (strings of 1..1024 bytes whose lengths land on and around the reader's 128/256/512-byte look-ahead steps, integers at range ends, rationals over uint32, signed bias fractions, dates with / without zone and fraction, every UUID text form and prefix, decimal GPS numbers) " +
		"plus dc:creator (Seq), dc:subject (Bag), dc:title / description / rights (Alt with xml:lang) and exif:ISOSpeedRatings (Seq); layout: attribute or element per property, either quote, random order, 1-3 rdf:Description blocks, six white-space styles, unknown properties and namespaces interleaved, leading junk, <?xpacket?> wrapper, root attributes. " +
		"oracle: parse(serialise(record)) == record field by field by independently written text-to-value rules (floats within 2 ulp of float32, dates as instants with zone offset, arrays in document order, nothing extra); all-attribute form == all-element form; a token longer than the 1538-byte window => error. " +
		"non-trivial = >= 4 properties, both forms present and >= 1 value of >= 120 bytes; distinct by packet bytes")
	rec.Assume("values use what a writer can emit without escaping: no < > & quotes, no leading / trailing white space; predefined entities, TAB / CR white space, > 100 bytes between tokens and Rating -1 are extended switches checked separately (key ext:<switch>)")
	rec.Assume("rdf:parseType structures, comments, CDATA sections and unqualified attributes are outside what the reader models and are not generated; string values carry no leading / trailing white space (the reader trims in front of element text only); switch more-forms adds literal '>' characters in values (also leading), identifiers with several ':' (adobe:docid:photoshop:, urn:uuid:), exposure bias written in tenths / hundredths (any fraction that fits the 8-bit/8-bit type in lowest terms) and white space after the digits of numeric element values")
	rec.Rule("exhaustive shift: records drawn from VERIF_SEED, each behind 0..N bytes that precede the packet (N = 1600 quick, 3300 thorough; the reader's window is 1538 bytes): every token of the packet meets every window phase")
	pbt.RegressDir(t, rec)
	{
		idx := 0
		for ri := 0; ri < rec.Env.Pick(2, 8); ri++ {
			base := rapid.Custom(genCase(opts{})).Example(int(rec.Env.Seed%100000)*16 + ri + 1)
			for n := 0; n <= rec.Env.Pick(1600, 3300); n++ {
				idx++
				if idx%rec.Env.Shards != rec.Env.Shard {
					continue
				}
				c := base
				c.Rec.Junk = strings.Repeat(" ", n)
				if n%3 == 1 {
					c.Rec.Junk = strings.Repeat("\n", n)
				}
				rec.Case(true, ev.HashS("shift", fmt.Sprint(ri, n)), "window-phase-sweep")
				if f := eval(c); f != nil {
					if pbt.Report(t, rec, chk.Name, c, f) {
						return
					}
				}
			}
		}
	}
	if !pbt.Run(t, rec, chk, rec.Env.Pick(3000, 150000), 1) {
		return
	}
	if !pbt.Run(t, rec, chkOver, rec.Env.Pick(300, 5000), 2) {
		return
	}
	for i, e := range exts {
		if !pbt.Run(t, rec, chkExt[e], rec.Env.Pick(150, 3000), uint64(10+i)) {
			return
		}
	}
}

func TestReplay(t *testing.T) { pbt.Replay(t, rec) }

// FuzzXMP: native coverage-guided search over the generator's choice bytes (thorough tier).
func FuzzXMP(f *testing.F) {
	f.Fuzz(rapid.MakeFuzz(func(rt *rapid.T) {
		c := genCase(opts{})(rt)
		if fl := pbt.Filter(rec, eval(c)); fl != nil {
			rt.Fatalf("%s", fl.Msg)
		}
	}))
}
