// C08 — results do not depend on how the reader chunks its data: for any legal
// chunking of the same byte stream every entry point returns the same value
// and error as for an in-memory reader.
package c08

import (
	"fmt"
	"os"
	"strings"
	"testing"

	"pgregory.net/rapid"

	"verif/internal/ev"
	"verif/internal/gen"
	"verif/internal/pbt"
	"verif/internal/worker"
)

var rec = ev.New("C08")

type Case struct {
	Entry   string   `json:"entry"`
	Input   []byte   `json:"input"`
	Chunks  []int    `json:"chunks"`
	DataEOF bool     `json:"data_eof"`
	Origin  string   `json:"origin"`
	Ops     []string `json:"ops,omitempty"`
}

var rejectErrs = []string{"error imagetype not found", "error metadata reading not supported", "error the data is not long enough", "verif: unknown entry"}

func eval(c Case) *pbt.Fail {
	ref := worker.Exec(worker.Req{Entry: c.Entry, Input: c.Input})
	got := worker.Exec(worker.Req{Entry: c.Entry, Input: c.Input, Reader: worker.ReaderSpec{Mode: "chunk", Chunks: c.Chunks, DataEOF: c.DataEOF}})
	past := len(c.Input) >= 64
	for _, e := range rejectErrs {
		if strings.Contains(ref.Err, e) {
			past = false
		}
	}
	sched := "mixed"
	switch {
	case len(c.Chunks) == 1 && c.Chunks[0] == 1:
		sched = "one-byte"
	case len(c.Chunks) == 1:
		sched = "fixed"
	}
	cls := []string{"entry:" + c.Entry, "origin:" + c.Origin, "schedule:" + sched, fmt.Sprintf("data+EOF:%v", c.DataEOF)}
	if ref.Err != "<nil>" {
		cls = append(cls, "reference-returns-error")
	}
	nt := got.ShortReads > 0 && past
	rec.Case(nt, ev.Hash([]byte(c.Entry), c.Input, []byte(fmt.Sprint(c.Chunks, c.DataEOF))), cls...)
	if nt {
		rec.Sample(sched, map[string]any{"entry": c.Entry, "origin": c.Origin, "input_len": len(c.Input), "chunks": c.Chunks, "data_eof": c.DataEOF, "short_reads": got.ShortReads, "reference_err": ref.Err})
	}
	if ref.Panic != "" || got.Panic != "" {
		rec.Class("panicked(C01)", 1)
		if (ref.Panic == "") != (got.Panic == "") {
			return pbt.Failf(c.Entry+"/panic-differs", "%s panics with one reader and not with the other: in-memory %q, chunked %q", c.Entry, ref.Panic, got.Panic)
		}
		return nil
	}
	if got.Err != ref.Err {
		return pbt.Failf(c.Entry+"/error", "%s on a %d-byte %s input: in-memory reader -> error %q, reader delivering chunks %v (data with EOF: %v) -> error %q", c.Entry, len(c.Input), c.Origin, ref.Err, c.Chunks, c.DataEOF, got.Err)
	}
	if got.Digest != ref.Digest {
		return pbt.Failf(c.Entry+"/value", "%s on a %d-byte %s input returns different values for an in-memory reader and a reader delivering chunks %v (data with EOF: %v): %s", c.Entry, len(c.Input), c.Origin, c.Chunks, c.DataEOF, firstDiff(ref.Digest, got.Digest))
	}
	return nil
}

func firstDiff(a, b string) string {
	la, lb := strings.Split(a, "\n"), strings.Split(b, "\n")
	for i := 0; i < len(la) && i < len(lb); i++ {
		if la[i] != lb[i] {
			return fmt.Sprintf("%q vs %q", la[i], lb[i])
		}
	}
	return fmt.Sprintf("%d vs %d lines", len(la), len(lb))
}

func genChunks(rt *rapid.T) []int {
	switch rapid.IntRange(0, 6).Draw(rt, "sched") {
	case 0:
		return []int{1}
	case 1:
		return rapid.SliceOfN(rapid.IntRange(1, 7), 1, 12).Draw(rt, "small")
	case 2:
		return rapid.SliceOfN(rapid.IntRange(1, 4096), 1, 12).Draw(rt, "wide")
	case 3:
		return []int{1, 4095}
	case 4: // exactly up to the buffer boundaries the readers use
		return rapid.SliceOfN(rapid.SampledFrom([]int{2, 4, 8, 12, 16, 24, 31, 32, 33, 1023, 1024, 1025, 4095, 4096, 4097}), 1, 6).Draw(rt, "boundary")
	case 5:
		return []int{rapid.IntRange(2, 64).Draw(rt, "fixed")}
	default: // half of what is asked, approximated by small powers of two
		return []int{2048, 1024, 512, 256, 128, 64, 32, 16, 8, 4, 2, 1}
	}
}

func genCase(rt *rapid.T) Case {
	in := gen.GenInput(rt, nil)
	c := Case{Input: in.Data, Origin: in.Kind, Chunks: genChunks(rt), DataEOF: rapid.Bool().Draw(rt, "dataEOF")}
	if gen.Chance(rt, "entry.any", 0.1) {
		c.Entry = rapid.SampledFrom(gen.AllEntries).Draw(rt, "entry")
	} else {
		c.Entry = rapid.SampledFrom(gen.EntriesFor(in.Kind)).Draw(rt, "entryk")
	}
	switch rapid.IntRange(0, 5).Draw(rt, "mode") {
	case 0, 1, 2:
		c.Origin += "+asis"
	case 3:
		c.Input = in.Data[:rapid.IntRange(0, len(in.Data)).Draw(rt, "trunc")]
		c.Origin += "+truncated"
	default:
		c.Input, c.Ops = gen.Mutate(rt, in.Data, in.Sites)
		c.Origin += "+mutated"
	}
	return c
}

var chk = pbt.Check[Case]{Name: "chunking-independence", Gen: genCase, Eval: eval}

func init() { pbt.Register(chk) }

func TestMain(m *testing.M) { os.Exit(m.Run()) }

func TestProp(t *testing.T) {
	defer rec.MustWrite()
	rec.Rule("inputs: repository samples (first 256 KiB) and encoder output in every container, as they are, truncated, or with 1-4 hostile edits (so that error paths are compared too); every entry point incl. PreviewCR3, ScanPngHeader, exif2.Parse, the JPEG / ISOBMFF / TIFF scanners and sniffing; " +
		"chunk schedules (legal per io.Reader: n > 0 or an error): all one byte, random 1..7, random 1..4096, alternating 1/4095, sizes on and around the 32/1024/4096-byte buffer boundaries, a fixed small size, halving sizes; optionally the last bytes delivered together with io.EOF; exhaustive: every uniform chunk size 1..1100 (quick) / 4200 (thorough) on one generated record in each of the five containers, through every entry point of the container. " +
		"oracle: result digest and error text equal those obtained with an in-memory reader. non-trivial = at least one Read returned fewer bytes than asked while more were available AND the decode got past type identification; distinct by (entry, input, schedule)")
	rec.Assume("inputs on which the in-memory call panics are C01's subject; here only that both readers behave alike is compared")
	pbt.RegressDir(t, rec)
	// every small well-formed file x every entry x the two extreme schedules, deterministically
	n := 0
	for _, s := range gen.Corpus() {
		kind := kindOf(s.Data)
		for _, entry := range gen.EntriesFor(kind) {
			for _, sc := range []struct {
				ch  []int
				eof bool
			}{{[]int{1}, false}, {[]int{1}, true}, {[]int{3, 5, 7}, true}, {[]int{1, 4095}, false}} {
				n++
				if n%rec.Env.Shards != rec.Env.Shard {
					continue
				}
				data := s.Data
				if len(data) > 40000 && len(sc.ch) == 1 {
					data = data[:40000]
				}
				c := Case{Entry: entry, Input: data, Chunks: sc.ch, DataEOF: sc.eof, Origin: "sample:" + s.Name}
				if f := eval(c); f != nil {
					if pbt.Report(t, rec, chk.Name, c, f) {
						return
					}
				}
			}
		}
	}
	// every uniform chunk size 1..N for one generated record in every container (block behind ~3 KB of filler, so
	// that the file spans more than one reader buffer)
	{
		base := rapid.Custom(func(rt *rapid.T) *gen.ExifFile {
			return gen.GenExif(rt, gen.Options{Unbuffered: true, MaxForeign: 3})
		}).Example(int(rec.Env.Seed%100000)*4 + 1)
		files := []struct {
			kind string
			data []byte
		}{{"tiff", base.Reencode(3000).Enc.II}, {"jpeg", gen.PadJPEG(base.Enc.MM, 3000)}, {"png", gen.PadPNG(base.Enc.II, 3000)}, {"cr3", gen.PadCR3(base.Enc.II, 3000, 1)}, {"heif", gen.PadHEIF(base.Enc.MM, 3000, 2)}}
		idx := 0
		for _, fl := range files {
			if fl.kind == "jpeg" && len(base.Enc.MM) > 60000 {
				continue
			}
			for _, entry := range gen.EntriesFor(fl.kind) {
				for sz := 1; sz <= rec.Env.Pick(1100, 4200); sz++ {
					idx++
					if idx%rec.Env.Shards != rec.Env.Shard {
						continue
					}
					c := Case{Entry: entry, Input: fl.data, Chunks: []int{sz}, DataEOF: sz%2 == 0, Origin: "uniform-chunk-sweep:" + fl.kind}
					if f := eval(c); f != nil {
						if pbt.Report(t, rec, chk.Name, c, f) {
							return
						}
					}
				}
			}
		}
	}
	// the two entry points that are handed a reader by another package's scanner, called directly with the caller's reader
	// (behind a scanner they only ever see a bufio.Reader): preview.RenderPreview and exif2.DecodeJPEGIfd
	{
		base := rapid.Custom(func(rt *rapid.T) *gen.ExifFile {
			return gen.GenExif(rt, gen.Options{Unbuffered: true, MaxForeign: 2})
		}).Example(int(rec.Env.Seed%100000)*4 + 2)
		prev := make([]byte, 5000)
		for i := range prev {
			prev[i] = byte(i * 13)
		}
		for _, in := range []struct {
			entry string
			data  []byte
		}{{"RenderPreview", prev}, {"RenderPreview", prev[:2048]}, {"RenderPreview", prev[:1]}, {"ExifJPEGIfd", base.Enc.II}, {"ExifJPEGIfd", base.Enc.MM}} {
			for _, ch := range [][]int{{1}, {7}, {2048}, {2047, 1}, {4096}, {1 << 20}} {
				for _, eof := range []bool{false, true} {
					c := Case{Entry: in.entry, Input: in.data, Chunks: ch, DataEOF: eof, Origin: "direct-callback-entry"}
					if f := eval(c); f != nil {
						if pbt.Report(t, rec, chk.Name, c, f) {
							return
						}
					}
				}
			}
		}
	}
	// a box handed to a callback that is the last thing in the stream (nothing behind it): the bytes that arrive together with
	// io.EOF are the end of its payload; read by a consumer with a large buffer (BMFFRaw) and by the library's own (BMFF)
	{
		for _, n := range []int{1, 100, 4095, 4096, 4097, 9000, 20000} {
			payload := make([]byte, n)
			for i := range payload {
				payload[i] = byte('a' + i%23)
			}
			xp := &gen.Box{Type: "uuid", Data: append(append([]byte{}, gen.UUIDXPacket...), payload...)}
			canon := &gen.Box{Type: "uuid", Data: append([]byte{}, gen.UUIDCanon...), Kids: []*gen.Box{{Type: "CNCV", Data: make([]byte, 30)}}}
			var file []byte
			for _, b := range []*gen.Box{gen.Ftyp("crx ", 1, "crx ", "isom"), {Type: "moov", Kids: []*gen.Box{canon}}, xp} {
				file = append(file, b.Serialise(len(file))...)
			}
			for _, entry := range []string{"BMFFRaw", "BMFF"} {
				for _, ch := range [][]int{{1}, {512}, {4096}, {4096, 1}, {1 << 20}} {
					c := Case{Entry: entry, Input: file, Chunks: ch, DataEOF: true, Origin: "callback-box-at-end-of-stream"}
					if f := eval(c); f != nil {
						if pbt.Report(t, rec, chk.Name, c, f) {
							return
						}
					}
				}
			}
		}
	}
	pbt.Run(t, rec, chk, rec.Env.Pick(5000, 150000), 1)
}

func kindOf(b []byte) string {
	switch {
	case len(b) > 2 && b[0] == 0xff && b[1] == 0xd8:
		return "jpeg"
	case len(b) > 4 && (string(b[:4]) == "II*\x00" || string(b[:4]) == "MM\x00*"):
		return "tiff"
	case len(b) > 12 && string(b[4:8]) == "ftyp" && string(b[8:12]) == "crx ":
		return "cr3"
	case len(b) > 12 && string(b[4:8]) == "ftyp" && string(b[8:12]) == "avif":
		return "avif"
	case len(b) > 12 && string(b[4:8]) == "ftyp":
		return "heif"
	case len(b) > 4 && string(b[1:4]) == "PNG":
		return "png"
	case len(b) > 10 && (string(b[:10]) == "<x:xmpmeta" || string(b[:5]) == "<?xpa"):
		return "xmp"
	}
	return "other"
}

func TestReplay(t *testing.T) { pbt.Replay(t, rec) }
