// C18 — the vectorised DCT kernels equal the portable kernels bit for bit,
// stay inside their argument, and both match the unscaled DCT-II within the
// float32 rounding bound; the float64 kernels match within the float64 bound.
package c18

import (
	"fmt"
	"image"
	"image/color"
	"math"
	"runtime/debug"
	"syscall"
	"testing"
	"unsafe"

	"pgregory.net/rapid"

	"github.com/evanoberholster/imagemeta/imagehash"
	"github.com/evanoberholster/imagemeta/imagehash/transforms"
	"github.com/evanoberholster/imagemeta/imagehash/transforms32"

	"verif/internal/ev"
	"verif/internal/pbt"
)

var rec = ev.New("C18")

// Case: one input for one kernel. Bits are float32 bit patterns (float64 kernels
// take the float64 conversion of the same values).
type Case struct {
	Kernel string   `json:"kernel"` // dct64 | dct256 | dct2d | f64-2d64 | f64-2d256 | hash64 | hash256
	Bits   []uint32 `json:"bits,omitempty"`
	Offset int      `json:"offset"` // start of the argument inside its backing array, in floats (0..7)
	Class  string   `json:"class"`
	Sparse []sparse `json:"sparse,omitempty"` // compact form for 2-D / image inputs: position -> value, rest = Fill
	Fill   uint32   `json:"fill,omitempty"`
	Len    int      `json:"len,omitempty"`
	// compact 2-D contents (expanded by vector()): a few distinct rows repeated, a smooth function, or seeded noise
	Rows   [][]uint32 `json:"rows,omitempty"`
	Smooth []float64  `json:"smooth,omitempty"` // a, b, d, phase
	Noise  uint32     `json:"noise_seed,omitempty"`
	N      int        `json:"n,omitempty"` // side length for the compact forms
}

type sparse struct {
	At  int    `json:"at"`
	Val uint32 `json:"v"`
}

func (c Case) vector() []float32 {
	if c.Bits != nil {
		v := make([]float32, len(c.Bits))
		for i, b := range c.Bits {
			v[i] = math.Float32frombits(b)
		}
		return v
	}
	if len(c.Rows) > 0 {
		n := len(c.Rows[0])
		v := make([]float32, 0, n*n)
		for r := 0; r < n; r++ {
			for _, b := range c.Rows[(r*7)%len(c.Rows)] {
				v = append(v, math.Float32frombits(b))
			}
		}
		return v
	}
	if len(c.Smooth) == 4 && c.N > 0 {
		n := c.N
		a, b, d, ph := c.Smooth[0], c.Smooth[1], c.Smooth[2], c.Smooth[3]
		v := make([]float32, n*n)
		for i := range v {
			x, y := float64(i%n), float64(i/n)
			v[i] = float32(math.Floor(math.Mod(math.Abs(a+b*x+d*y+20*math.Sin(x/9+ph)*math.Cos(y/13)), 256)))
		}
		return v
	}
	if c.Noise != 0 && c.N > 0 {
		v := make([]float32, c.N*c.N)
		s := c.Noise | 1
		for i := range v {
			s ^= s << 13
			s ^= s >> 17
			s ^= s << 5
			v[i] = float32(s % 65536)
		}
		return v
	}
	v := make([]float32, c.Len)
	f := math.Float32frombits(c.Fill)
	for i := range v {
		v[i] = f
	}
	for _, s := range c.Sparse {
		if s.At >= 0 && s.At < len(v) {
			v[s.At] = math.Float32frombits(s.Val)
		}
	}
	return v
}

const canaryLen = 64

func canary(i int) float32 { return math.Float32frombits(0x7fc00000 | uint32(0x1234+i)) }

// carve returns a slice of n floats at the given float offset inside a larger
// backing array whose other elements are canaries, plus a verifier.
func carve(x []float32, off int) (arg []float32, check func() string) {
	back := make([]float32, canaryLen+8+len(x)+canaryLen+8)
	for i := range back {
		back[i] = canary(i)
	}
	start := canaryLen + off
	arg = back[start : start+len(x) : start+len(x)]
	copy(arg, x)
	return arg, func() string {
		for i := range back {
			if (i < start || i >= start+len(x)) && math.Float32bits(back[i]) != math.Float32bits(canary(i)) {
				return fmt.Sprintf("guard word at %+d relative to the argument changed to %08x", i-start, math.Float32bits(back[i]))
			}
		}
		return ""
	}
}

var cosTab = map[int][]float64{}

func cosines(n int) []float64 {
	if t, ok := cosTab[n]; ok {
		return t
	}
	t := make([]float64, n*n)
	for k := 0; k < n; k++ {
		for i := 0; i < n; i++ {
			t[k*n+i] = math.Cos(math.Pi * (float64(i) + 0.5) * float64(k) / float64(n))
		}
	}
	cosTab[n] = t
	return t
}

// dct2 is the unscaled DCT-II by definition, in float64.
func dct2(x []float64, kmax int) []float64 {
	n := len(x)
	t := cosines(n)
	out := make([]float64, kmax)
	for k := 0; k < kmax; k++ {
		s := 0.0
		row := t[k*n : k*n+n]
		for i, v := range x {
			s += v * row[i]
		}
		out[k] = s
	}
	return out
}

func l1(x []float32) (sum float64, nnz int, minAbs float64, finite bool) {
	minAbs = math.Inf(1)
	finite = true
	for _, v := range x {
		a := math.Abs(float64(v))
		if math.IsNaN(a) || math.IsInf(a, 0) {
			finite = false
		}
		if a != 0 {
			nnz++
			if a < minAbs {
				minAbs = a
			}
		}
		sum += a
	}
	return
}

func sameBits(a, b float32) bool {
	return math.Float32bits(a) == math.Float32bits(b) || (a != a && b != b)
}

// accuracy clause applies when no intermediate can overflow and no input is so
// small that float32 cannot hold 1e-5 of it
func accuracyApplies(sum, minAbs float64, finite bool) bool {
	return finite && sum > 0 && sum <= 1e30 && minAbs >= 1e-30
}

const (
	bound32      = 1e-5  // the property's bound, x ||x||_1
	ceiling256   = 5e-5  // known finding: the 256-point float32 kernels stay below this (worst observed 3.1e-5 in 5 M vectors)
	bound64      = 1e-12 // float64 kernels
	asmAvailable = true
)

// compareBits: any difference other than the sign of a zero is reported under "bits:";
// a difference confined to +0 vs -0 under "zero-sign:" (a recorded finding, see known_findings.txt).
func compareBits(c Case, g, a []float32) *pbt.Fail {
	var zs *pbt.Fail
	for i := range g {
		if sameBits(g[i], a[i]) {
			continue
		}
		if g[i] == 0 && a[i] == 0 {
			if zs == nil {
				zs = pbt.Failf("zero-sign:"+c.Kernel, "%s: assembly and portable kernels differ in the sign of a zero at coefficient %d: asm %08x vs go %08x (class %s, offset %d)",
					c.Kernel, i, math.Float32bits(a[i]), math.Float32bits(g[i]), c.Class, c.Offset)
			}
			continue
		}
		return pbt.Failf("bits:"+c.Kernel, "%s: assembly and portable kernels differ at coefficient %d: asm %08x (%g) vs go %08x (%g) (class %s, offset %d)",
			c.Kernel, i, math.Float32bits(a[i]), a[i], math.Float32bits(g[i]), g[i], c.Class, c.Offset)
	}
	return zs
}

// ---- arguments fenced by inaccessible pages: a kernel that reads (or writes) outside its argument faults ----

type fence struct {
	mem  []byte
	data int // offset of the accessible region
	size int // its size in bytes
}

var fences = map[int]*fence{}

// fenced returns a float32 slice of n elements that ends at (atEnd) or starts at an inaccessible page.
func fenced(n int, atEnd bool) []float32 {
	const page = 4096
	size := (n*4 + page - 1) / page * page
	f := fences[size]
	if f == nil {
		mem, err := syscall.Mmap(-1, 0, size+2*page, syscall.PROT_READ|syscall.PROT_WRITE, syscall.MAP_ANON|syscall.MAP_PRIVATE)
		if err != nil {
			return nil
		}
		if syscall.Mprotect(mem[:page], syscall.PROT_NONE) != nil || syscall.Mprotect(mem[page+size:], syscall.PROT_NONE) != nil {
			return nil
		}
		f = &fence{mem: mem, data: page, size: size}
		fences[size] = f
	}
	off := f.data
	if atEnd {
		off = f.data + f.size - n*4
	}
	return unsafe.Slice((*float32)(unsafe.Pointer(&f.mem[off])), n)
}

// runFenced runs k and turns a memory fault into a message.
func runFenced(k func()) (msg string) {
	old := debug.SetPanicOnFault(true)
	defer debug.SetPanicOnFault(old)
	defer func() {
		if r := recover(); r != nil {
			msg = fmt.Sprint(r)
		}
	}()
	k()
	return ""
}

// fenceCheck runs a 1-D kernel on the same input placed directly below and directly above an inaccessible page and
// compares the result with the one obtained in ordinary memory.
func fenceCheck(c Case, x []float32, which string, k func([]float32), want []float32) *pbt.Fail {
	for _, atEnd := range []bool{true, false} {
		arg := fenced(len(x), atEnd)
		if arg == nil {
			return nil // (no mmap: nothing to check)
		}
		copy(arg, x)
		if msg := runFenced(func() { k(arg) }); msg != "" {
			return pbt.Failf("fence:"+c.Kernel+":"+which, "%s %s kernel touched memory outside its argument: with the argument ending/starting at an inaccessible page (at end: %v) it faulted: %s", which, c.Kernel, atEnd, msg)
		}
		for i := range arg {
			if math.Float32bits(arg[i]) != math.Float32bits(want[i]) && !(arg[i] != arg[i] && want[i] != want[i]) {
				return pbt.Failf("fence-result:"+c.Kernel+":"+which, "%s %s kernel gives another result next to an inaccessible page (at end: %v): coefficient %d is %08x, in ordinary memory %08x", which, c.Kernel, atEnd, i, math.Float32bits(arg[i]), math.Float32bits(want[i]))
			}
		}
	}
	return nil
}

func eval1D(c Case, n int, goK, asmK func([]float32)) *pbt.Fail {
	var zeroSign *pbt.Fail
	x := c.vector()
	if len(x) != n {
		return pbt.Failf("", "case has %d elements, kernel wants %d", len(x), n)
	}
	gArg, gCheck := carve(x, c.Offset)
	goK(gArg)
	if msg := gCheck(); msg != "" {
		return pbt.Failf("canary:"+c.Kernel+":go", "portable %s kernel wrote outside its argument: %s", c.Kernel, msg)
	}
	if transforms32.VerifAsmAvailable() {
		aArg, aCheck := carve(x, c.Offset)
		asmK(aArg)
		if msg := aCheck(); msg != "" {
			return pbt.Failf("canary:"+c.Kernel+":asm", "assembly %s kernel wrote outside its argument (offset %d floats): %s", c.Kernel, c.Offset, msg)
		}
		if f := compareBits(c, gArg, aArg); f != nil {
			zeroSign = f
		}
		if zeroSign != nil && zeroSign.Key != "zero-sign:"+c.Kernel {
			return zeroSign
		}
	}
	if f := fenceCheck(c, x, "portable", goK, gArg); f != nil {
		return f
	}
	if transforms32.VerifAsmAvailable() {
		aRef, _ := carve(x, 0)
		asmK(aRef)
		if f := fenceCheck(c, x, "assembly", asmK, aRef); f != nil {
			return f
		}
	}
	sum, nnz, minAbs, finite := l1(x)
	if !accuracyApplies(sum, minAbs, finite) {
		return zeroSign
	}
	x64 := make([]float64, n)
	for i, v := range x {
		x64[i] = float64(v)
	}
	ref := dct2(x64, n)
	worst, at := 0.0, 0
	for k := range ref {
		if d := math.Abs(float64(gArg[k]) - ref[k]); d > worst || math.IsNaN(d) {
			worst, at = d, k
			if math.IsNaN(d) {
				worst = math.Inf(1)
				break
			}
		}
	}
	ratio := worst / sum
	noteRatio(c.Kernel, ratio)
	if ratio > bound32 {
		key := "acc:" + c.Kernel
		if n == 256 && ratio <= ceiling256 {
			key = "acc256-le-5e-5" // the recorded finding: see known_findings.txt
		}
		f := pbt.Failf(key, "%s: |kernel - DCT-II| = %.3g at coefficient %d = %.3g x ||x||_1 (bound 1e-5); %d non-zero inputs, class %s", c.Kernel, worst, at, ratio, nnz, c.Class)
		if key != "acc256-le-5e-5" || zeroSign == nil {
			return f
		}
		// both recorded findings on one input: surface the accuracy one through the filter, then the zero sign
		if pbt.Filter(rec, f) != nil {
			return f
		}
	}
	return zeroSign
}

var maxRatio = map[string]float64{}

func noteRatio(k string, r float64) {
	if r > maxRatio[k] {
		maxRatio[k] = r
	}
}

// ref2D: low kxk block of the separable 2-D DCT-II of an n x n image, laid out [k*j+i] = (vertical j, horizontal i)
func ref2D(x []float64, n, k int) []float64 {
	t := cosines(n)
	h := make([]float64, n*k) // per row: k horizontal coefficients
	for r := 0; r < n; r++ {
		row := x[r*n : r*n+n]
		for i := 0; i < k; i++ {
			s := 0.0
			cr := t[i*n : i*n+n]
			for c, v := range row {
				s += v * cr[c]
			}
			h[r*k+i] = s
		}
	}
	out := make([]float64, k*k)
	for j := 0; j < k; j++ {
		cj := t[j*n : j*n+n]
		for i := 0; i < k; i++ {
			s := 0.0
			for r := 0; r < n; r++ {
				s += h[r*k+i] * cj[r]
			}
			out[k*j+i] = s
		}
	}
	return out
}

func eval2D(c Case) *pbt.Fail {
	var zeroSign *pbt.Fail
	x := c.vector()
	if len(x) != 4096 {
		return pbt.Failf("", "2-D case has %d elements", len(x))
	}
	transforms32.VerifUseGo()
	gArg, gCheck := carve(x, c.Offset)
	gOut := transforms32.DCT2DHash64(gArg)
	transforms32.VerifUsePlatform()
	if msg := gCheck(); msg != "" {
		return pbt.Failf("canary:dct2d:go", "portable 2-D kernel wrote outside its argument: %s", msg)
	}
	if transforms32.VerifAsmAvailable() {
		aArg, aCheck := carve(x, c.Offset)
		aOut := transforms32.VerifDCT2DHash64Asm(aArg)
		if msg := aCheck(); msg != "" {
			return pbt.Failf("canary:dct2d:asm", "assembly 2-D kernel wrote outside its argument (offset %d floats): %s", c.Offset, msg)
		}
		if f := compareBits(c, gOut[:], aOut[:]); f != nil {
			if f.Key != "zero-sign:"+c.Kernel {
				return f
			}
			zeroSign = f
		}
		// the selected entry point must be the assembly kernel's result too
		pArg, _ := carve(x, c.Offset)
		pOut := transforms32.DCT2DHash64(pArg)
		for i := range pOut {
			if !sameBits(pOut[i], aOut[i]) && !(pOut[i] == 0 && aOut[i] == 0) {
				return pbt.Failf("bits:dct2d-entry", "DCT2DHash64 (platform selection) differs from the assembly kernel at coefficient %d", i)
			}
		}
	}
	// the same input directly below / above an inaccessible page
	if transforms32.VerifAsmAvailable() {
		for _, atEnd := range []bool{true, false} {
			arg := fenced(len(x), atEnd)
			if arg == nil {
				break
			}
			copy(arg, x)
			var out [64]float32
			if msg := runFenced(func() { out = transforms32.VerifDCT2DHash64Asm(arg) }); msg != "" {
				return pbt.Failf("fence:dct2d:assembly", "assembly 2-D kernel touched memory outside its argument: with the argument ending/starting at an inaccessible page (at end: %v) it faulted: %s", atEnd, msg)
			}
			_ = out
		}
	}
	sum, _, minAbs, finite := l1(x)
	if !accuracyApplies(sum, minAbs, finite) {
		return zeroSign
	}
	x64 := make([]float64, len(x))
	for i, v := range x {
		x64[i] = float64(v)
	}
	ref := ref2D(x64, 64, 8)
	worst, at := 0.0, 0
	for k := range ref {
		d := math.Abs(float64(gOut[k]) - ref[k])
		if math.IsNaN(d) {
			d = math.Inf(1)
		}
		if d > worst {
			worst, at = d, k
		}
	}
	noteRatio("dct2d", worst/sum)
	if worst/sum > bound32 {
		return pbt.Failf("acc:dct2d", "2-D kernel: |kernel - DCT-II| = %.3g at coefficient %d = %.3g x ||x||_1 (bound 1e-5), class %s", worst, at, worst/sum, c.Class)
	}
	return zeroSign
}

func evalF64(c Case, n, k int) *pbt.Fail {
	x := c.vector()
	if len(x) != n*n {
		return pbt.Failf("", "float64 2-D case has %d elements, want %d", len(x), n*n)
	}
	x64 := make([]float64, len(x))
	for i, v := range x {
		x64[i] = float64(v)
	}
	in := append([]float64{}, x64...)
	var out []float64
	if n == 64 {
		o := transforms.DCT2DHash64(&in)
		out = o[:]
	} else {
		o := transforms.DCT2DHash256(&in)
		out = o[:]
	}
	sum, _, minAbs, finite := l1(x)
	if !accuracyApplies(sum, minAbs, finite) {
		return nil
	}
	ref := ref2D(x64, n, k)
	for i := range ref {
		if d := math.Abs(out[i] - ref[i]); !(d <= bound64*sum) {
			return pbt.Failf("acc:"+c.Kernel, "%s: returned coefficient %d differs from the 2-D DCT-II by %.3g = %.3g x ||x||_1 (bound 1e-12)", c.Kernel, i, d, d/sum)
		}
	}
	// each row now holds its own 1-D transform (the kernels work in place): check a few rows against the definition
	for _, r := range []int{0, 1, n / 2, n - 1} {
		row := x64[r*n : r*n+n]
		rs := 0.0
		for _, v := range row {
			rs += math.Abs(v)
		}
		if rs == 0 {
			continue
		}
		rr := dct2(row, n)
		for i := range rr {
			if d := math.Abs(in[r*n+i] - rr[i]); !(d <= bound64*rs) {
				return pbt.Failf("acc:"+c.Kernel+"-row", "%s: 1-D transform of row %d, coefficient %d, differs from DCT-II by %.3g = %.3g x ||row||_1 (bound 1e-12)", c.Kernel, r, i, d, d/rs)
			}
		}
	}
	return nil
}

// evalHash: the kernel selection never changes a hash (images whose gray conversion does not depend on the selection)
func evalHash(c Case, n int) *pbt.Fail {
	x := c.vector()
	if len(x) != n*n {
		return pbt.Failf("", "hash case has %d elements, want %d", len(x), n*n)
	}
	var img image.Image
	if c.Offset%2 == 0 {
		g := image.NewGray(image.Rect(0, 0, n, n))
		for i, v := range x {
			g.Pix[i] = uint8(math.Float32bits(v))
		}
		img = g
	} else {
		g := image.NewRGBA(image.Rect(0, 0, n, n))
		for i, v := range x {
			b := math.Float32bits(v)
			g.SetRGBA(i%n, i/n, color.RGBA{uint8(b), uint8(b >> 8), uint8(b >> 16), 255})
		}
		img = g
	}
	hash := func() (string, error) {
		if n == 64 {
			h, err := imagehash.NewPHash64Alt(img)
			return h.String(), err
		}
		h, err := imagehash.NewPHash256Alt(img)
		return h.String(), err
	}
	transforms32.VerifUseGo()
	hg, eg := hash()
	transforms32.VerifUsePlatform()
	hp, ep := hash()
	if eg != nil || ep != nil {
		return pbt.Failf("hash-err", "hashing a %dx%d image failed: portable %v, platform %v", n, n, eg, ep)
	}
	if hg != hp {
		return pbt.Failf("hash:"+c.Kernel, "%s: hash with the portable kernels %s differs from the hash with the platform's kernels %s (class %s)", c.Kernel, hg, hp, c.Class)
	}
	return nil
}

func eval(c Case) (f *pbt.Fail) {
	defer func() {
		transforms32.VerifUsePlatform()
		if r := recover(); r != nil {
			f = pbt.Failf("panic:"+c.Kernel, "%s panicked: %v", c.Kernel, r)
		}
	}()
	if c.Offset < 0 || c.Offset > 7 {
		c.Offset = 0
	}
	switch c.Kernel {
	case "dct64":
		return eval1D(c, 64, transforms32.VerifForwardDCT64Go, transforms32.VerifForwardDCT64Asm)
	case "dct256":
		return eval1D(c, 256, transforms32.VerifForwardDCT256Go, transforms32.VerifForwardDCT256Asm)
	case "dct2d":
		return eval2D(c)
	case "f64-2d64":
		return evalF64(c, 64, 8)
	case "f64-2d256":
		return evalF64(c, 256, 16)
	case "hash64":
		return evalHash(c, 64)
	case "hash256":
		return evalHash(c, 256)
	}
	return pbt.Failf("", "unknown kernel %q", c.Kernel)
}

// ------------------------------------------------------------- generators ----

func fb(v float32) uint32 { return math.Float32bits(v) }

func genVector(rt *rapid.T, n int) ([]uint32, string) {
	out := make([]uint32, n)
	scale := float32(math.Pow(10, rapid.Float64Range(-6, 6).Draw(rt, "scale")))
	class := rapid.SampledFrom([]string{"random", "random", "mixed-scale", "sparse", "sparse", "pixel", "ramp", "alternating", "constant+flip", "extremes", "denormal", "mirror-symmetric-broken"}).Draw(rt, "class")
	val := func(label string) float32 {
		return float32(rapid.Float64Range(-1, 1).Draw(rt, label)) * scale
	}
	switch class {
	case "random":
		for i := range out {
			out[i] = fb(val("v"))
		}
	case "mixed-scale":
		for i := range out {
			s := float32(math.Pow(10, float64(rapid.IntRange(-6, 6).Draw(rt, "es"))))
			out[i] = fb(float32(rapid.Float64Range(-1, 1).Draw(rt, "v")) * s)
		}
	case "sparse":
		k := rapid.IntRange(1, 4).Draw(rt, "nnz")
		for j := 0; j < k; j++ {
			at := rapid.IntRange(0, n-1).Draw(rt, "at")
			if rapid.Bool().Draw(rt, "mid") { // near the middle, where Lee's recursion divides by the smallest cosine
				at = n/2 + rapid.IntRange(-3, 3).Draw(rt, "dmid")
			}
			out[at] = fb(val("sv"))
		}
	case "pixel":
		for i := range out {
			out[i] = fb(float32(rapid.IntRange(0, 65535).Draw(rt, "px")))
		}
	case "ramp":
		a, b := val("a"), val("b")
		for i := range out {
			out[i] = fb(a + b*float32(i))
		}
	case "alternating":
		a := val("a")
		for i := range out {
			if i%2 == 0 {
				out[i] = fb(a)
			} else {
				out[i] = fb(-a)
			}
		}
		if rapid.Bool().Draw(rt, "break") {
			out[rapid.IntRange(0, n-1).Draw(rt, "bat")] = fb(val("bv"))
		}
	case "constant+flip":
		a := val("a")
		for i := range out {
			out[i] = fb(a)
		}
		out[rapid.IntRange(0, n-1).Draw(rt, "flipat")] = fb(-a)
	case "extremes":
		m := rapid.SampledFrom([]float32{1e30 / 512, 3e37 / 512, 1e-20, 65535, 1}).Draw(rt, "mag")
		for i := range out {
			switch rapid.IntRange(0, 3).Draw(rt, "e") {
			case 0:
				out[i] = fb(m)
			case 1:
				out[i] = fb(-m)
			case 2:
				out[i] = 0
			default:
				out[i] = fb(m / 3)
			}
		}
	case "denormal":
		for i := range out {
			out[i] = uint32(rapid.IntRange(0, 0x7fffff).Draw(rt, "dn")) | uint32(rapid.IntRange(0, 1).Draw(rt, "sign"))<<31
		}
	default: // symmetric about the middle except for one element: x[i]+x[n-1-i] not all equal
		for i := 0; i < n/2; i++ {
			v := val("v")
			out[i], out[n-1-i] = fb(v), fb(v)
		}
		out[rapid.IntRange(0, n-1).Draw(rt, "bat")] = fb(val("bv"))
	}
	return out, class
}

func nontrivialVec(bits []uint32) bool {
	seen := map[uint32]bool{}
	for _, b := range bits {
		if a := b &^ (1 << 31); a != 0 {
			seen[a] = true
		}
	}
	return len(seen) >= 2
}

func hashBits(bits []uint32) []byte {
	b := make([]byte, 4*len(bits))
	for i, v := range bits {
		b[4*i], b[4*i+1], b[4*i+2], b[4*i+3] = byte(v), byte(v>>8), byte(v>>16), byte(v>>24)
	}
	return b
}

func genCase(rt *rapid.T) Case {
	k := rapid.SampledFrom([]string{"dct64", "dct64", "dct64", "dct256", "dct256", "dct256", "dct2d", "dct2d", "f64-2d64", "f64-2d256", "hash64", "hash256"}).Draw(rt, "kernel")
	c := Case{Kernel: k, Offset: rapid.IntRange(0, 7).Draw(rt, "offset")}
	switch k {
	case "dct64":
		c.Bits, c.Class = genVector(rt, 64)
	case "dct256":
		c.Bits, c.Class = genVector(rt, 256)
	default:
		n := 64
		if k == "f64-2d256" || k == "hash256" {
			n = 256
		}
		c.Len = n * n
		mode := rapid.SampledFrom([]string{"rows-of-vectors", "sparse2d", "smooth", "noise"}).Draw(rt, "mode2d")
		if (k == "f64-2d256" || k == "hash256") && mode == "rows-of-vectors" {
			mode = "smooth"
		}
		c.Class = mode
		switch mode {
		case "rows-of-vectors":
			// a full image made of a handful of distinct generated rows
			c.Rows = make([][]uint32, rapid.IntRange(1, 4).Draw(rt, "nrows"))
			for i := range c.Rows {
				c.Rows[i], _ = genVector(rt, n)
			}
			c.Len = 0
		case "sparse2d":
			c.Fill = fb(float32(rapid.SampledFrom([]float64{0, 0, 1, 128}).Draw(rt, "fill")))
			for i, m := 0, rapid.IntRange(1, 6).Draw(rt, "nnz"); i < m; i++ {
				c.Sparse = append(c.Sparse, sparse{rapid.IntRange(0, n*n-1).Draw(rt, "at"), fb(float32(rapid.Float64Range(-70000, 70000).Draw(rt, "sv")))})
			}
		case "smooth":
			c.Smooth = []float64{rapid.Float64Range(0, 255).Draw(rt, "a"), rapid.Float64Range(-1, 1).Draw(rt, "b"), rapid.Float64Range(-1, 1).Draw(rt, "d"), rapid.Float64Range(0, 6).Draw(rt, "ph")}
			c.N, c.Len = n, 0
		default:
			c.Noise = rapid.Uint32().Draw(rt, "noiseSeed") | 1
			c.N, c.Len = n, 0
		}
	}
	var key uint64
	nt := true
	if c.Bits != nil {
		key = ev.Hash([]byte(c.Kernel), hashBits(c.Bits), []byte{byte(c.Offset)})
		nt = nontrivialVec(c.Bits)
	} else {
		key = ev.HashS(c.Kernel, fmt.Sprint(c.Sparse, c.Fill, c.Offset, c.Rows, c.Smooth, c.Noise, c.N))
		nt = len(c.Sparse) >= 2 || len(c.Rows) > 0 || len(c.Smooth) > 0 || c.Noise != 0
	}
	rec.Case(nt, key, "kernel:"+c.Kernel, "class:"+c.Class, fmt.Sprintf("offset:%d", c.Offset))
	if nt && (len(c.Bits) <= 64 || c.Bits == nil) {
		rec.Sample(c.Kernel, c)
	}
	return c
}

var chk = pbt.Check[Case]{Name: "dct-kernels", Gen: genCase, Eval: eval}

func init() { pbt.Register(chk); pbt.CrashGuard = true }

func impulse(n, at int, v float32) []uint32 {
	b := make([]uint32, n)
	b[at] = fb(v)
	return b
}

func TestProp(t *testing.T) {
	defer rec.MustWrite()
	rec.Rule("exhaustive: every unit impulse (+1 and -1) of the 64- and 256-point kernels at every slice offset 0..7, every unit impulse of the 64x64 2-D kernel (4096 positions, both signs), all-equal / alternating / single-sign-flip vectors at every position; " +
		"random: vectors scaled over 12 decades, per-element mixed scales, 1-4 spikes (biased to the middle), pixel-range data, ramps, extremes near the overflow limit, denormals, mirror-symmetric vectors broken in one place; 2-D inputs built from generated rows, sparse, smooth and noisy images; " +
		"every argument is also placed directly below and directly above an inaccessible page (mmap + mprotect): a read or write outside it faults; oracles: asm(x) and go(x) bit-identical (1-D kernels in place, 2-D returned block, and the selected entry point), NaN-payload guard words around the argument intact, |go(x) - DCT-II(x)|_inf <= 1e-5 ||x||_1 against a direct float64 evaluation of the definition " +
		"(float64 kernels: returned block and in-place rows within 1e-12 ||x||_1), hashes of Gray/RGBA images identical with portable and platform kernels. non-trivial = >= 2 non-zero elements of different magnitude; distinct by (kernel, input, offset)")
	rec.Assume("inputs are finite; the accuracy clause is evaluated when ||x||_1 <= 1e30 and every non-zero |x_i| >= 1e-30 (outside that range float32 cannot represent 1e-5 of the input, or intermediates overflow); bit equality and guard words are checked on every input")
	rec.Assume("hash comparison uses Gray and RGBA images only: for YCbCr images the platform selection also switches the gray conversion, which is C20's subject")
	rec.Extra("asm_available", transforms32.VerifAsmAvailable())
	if !transforms32.VerifAsmAvailable() {
		rec.Assume("this CPU lacks AVX2: the assembly halves of the comparison were skipped")
	}
	pbt.RegressDir(t, rec)
	complete := true
	run := func(c Case, nt bool) bool {
		if c.Bits != nil {
			rec.Case(nt, ev.Hash([]byte(c.Kernel), hashBits(c.Bits), []byte{byte(c.Offset)}), "exhaustive:"+c.Class)
		} else {
			rec.Case(nt, ev.HashS(c.Kernel, fmt.Sprint(c.Sparse, c.Offset)), "exhaustive:"+c.Class)
		}
		pbt.MarkInflight(rec, chk.Name, c) // a kernel that faults kills the process: the driver reports this case
		if f := eval(c); f != nil {
			if pbt.Report(t, rec, chk.Name, c, f) {
				complete = false
				return false
			}
		}
		return true
	}
	idx := 0
	mine := func() bool { idx++; return idx%rec.Env.Shards == rec.Env.Shard }
outer:
	for _, kn := range []struct {
		k string
		n int
	}{{"dct64", 64}, {"dct256", 256}} {
		for at := 0; at < kn.n; at++ {
			for _, s := range []float32{1, -1} {
				for off := 0; off < 8; off++ {
					if !mine() {
						continue
					}
					if !run(Case{Kernel: kn.k, Bits: impulse(kn.n, at, s), Offset: off, Class: "unit-impulse"}, true) {
						break outer
					}
				}
			}
			// all-equal with one sign flip at `at`; alternating with a break at `at`
			if mine() {
				b := make([]uint32, kn.n)
				for i := range b {
					b[i] = fb(3.25)
				}
				b[at] = fb(-3.25)
				if !run(Case{Kernel: kn.k, Bits: b, Offset: at % 8, Class: "constant+flip"}, true) {
					break outer
				}
			}
			if mine() {
				b := make([]uint32, kn.n)
				for i := range b {
					b[i] = fb(float32(1 - 2*(i%2)))
				}
				b[at] = fb(0.5)
				if !run(Case{Kernel: kn.k, Bits: b, Offset: (at + 3) % 8, Class: "alternating"}, true) {
					break outer
				}
			}
		}
	}
	if complete {
		for at := 0; at < 4096; at++ {
			for _, s := range []float32{1, -1} {
				if !mine() {
					continue
				}
				if !run(Case{Kernel: "dct2d", Len: 4096, Sparse: []sparse{{at, fb(s)}}, Offset: at % 8, Class: "unit-impulse-2d"}, true) {
					goto done
				}
			}
		}
	}
done:
	rec.Exhaustive(complete)
	if t.Failed() {
		return
	}
	pbt.Run(t, rec, chk, rec.Env.Pick(12000, 400000), 1)
	for k, v := range maxRatio {
		rec.Extra("max_error_over_l1_"+k, v)
	}
}

func TestReplay(t *testing.T) { pbt.Replay(t, rec) }
