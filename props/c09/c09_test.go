// C09 — image-type sniffing is a total, prefix-only, signature-correct
// classification. Oracle: an independently written signature table
// (necessary / sufficient predicate per format) plus agreement of the five
// sniffing entry points, suffix independence and stream preservation.
package c09

import (
	"bufio"
	"bytes"
	"encoding/hex"
	"fmt"
	"io"
	"os"
	"testing"

	"pgregory.net/rapid"

	"github.com/evanoberholster/imagemeta/imagetype"
	"verif/internal/ev"
	"verif/internal/pbt"
)

var rec = ev.New("C09")

// ---- independent signature table (format specifications, not the package) --

type sig struct {
	name string
	t    imagetype.ImageType
	nec  func(b []byte) bool // F may be reported only if nec holds
	suf  func(b []byte) bool // if suf holds and no competing format matches, F must be reported
	over []string            // formats this one is documented to win over
}

func at(b []byte, off int, s string) bool {
	return len(b) >= off+len(s) && string(b[off:off+len(s)]) == s
}
func isFtyp(b []byte) bool    { return at(b, 4, "ftyp") }
func smallFtyp(b []byte) bool { return isFtyp(b) && b[0] == 0 && b[1] == 0 }
func tiffSig(b []byte) bool   { return at(b, 0, "II*\x00") || at(b, 0, "MM\x00*") }
func anyBrand(b []byte, brands ...string) bool {
	for _, off := range []int{8, 16, 20} {
		for _, br := range brands {
			if at(b, off, br) {
				return true
			}
		}
	}
	return false
}

const jp2sig = "\x00\x00\x00\x0cjP  \r\n\x87\n"

var table = []sig{
	{"jpeg", imagetype.ImageJPEG,
		// SOI; the JPEG-2000 signature box is pinned to image/jpeg by TestScanImageType.
		func(b []byte) bool { return at(b, 0, "\xff\xd8") || at(b, 0, jp2sig) },
		func(b []byte) bool { return at(b, 0, "\xff\xd8\xff") || at(b, 0, jp2sig) }, nil},
	{"png", imagetype.ImagePNG,
		func(b []byte) bool { return at(b, 0, "\x89PNG\r\n\x1a\n") },
		func(b []byte) bool { return at(b, 0, "\x89PNG\r\n\x1a\n") }, nil},
	{"gif", imagetype.ImageGIF,
		func(b []byte) bool { return at(b, 0, "GIF87a") || at(b, 0, "GIF89a") },
		func(b []byte) bool { return at(b, 0, "GIF87a") || at(b, 0, "GIF89a") }, nil},
	{"bmp", imagetype.ImageBMP,
		func(b []byte) bool { return at(b, 0, "BM") },
		func(b []byte) bool { return at(b, 0, "BM") }, nil},
	{"webp", imagetype.ImageWebP,
		func(b []byte) bool { return at(b, 0, "RIFF") && at(b, 8, "WEBP") },
		func(b []byte) bool { return at(b, 0, "RIFF") && at(b, 8, "WEBP") }, nil},
	{"heif", imagetype.ImageHEIF,
		func(b []byte) bool {
			return isFtyp(b) && anyBrand(b, "heic", "heix", "hevc", "hevx", "heim", "heis", "hevm", "hevs", "mif1", "msf1")
		},
		func(b []byte) bool {
			return smallFtyp(b) && (at(b, 8, "heic") || at(b, 8, "heix") ||
				(at(b, 8, "mif1") && (at(b, 16, "heic") || at(b, 20, "heic"))) ||
				(at(b, 8, "msf1") && (at(b, 16, "hevc") || at(b, 20, "hevc"))))
		}, nil},
	{"avif", imagetype.ImageAVIF,
		func(b []byte) bool { return isFtyp(b) && anyBrand(b, "avif", "avis") },
		func(b []byte) bool {
			// (the order of the compatible brands is the writer's choice: either of the two slots inside the first 24 bytes)
			return smallFtyp(b) && (at(b, 8, "avif") || (at(b, 8, "mif1") && (at(b, 16, "avif") || at(b, 20, "avif"))))
		}, []string{"heif"}},
	{"cr3", imagetype.ImageCR3,
		func(b []byte) bool { return isFtyp(b) && at(b, 8, "crx ") },
		func(b []byte) bool { return smallFtyp(b) && at(b, 8, "crx ") }, []string{"heif", "avif"}},
	{"tiff", imagetype.ImageTiff, tiffSig, tiffSig, nil},
	{"cr2", imagetype.ImageCR2,
		func(b []byte) bool { return tiffSig(b) && at(b, 8, "CR\x02\x00") },
		func(b []byte) bool { return tiffSig(b) && at(b, 8, "CR\x02\x00") }, []string{"tiff"}},
	{"rw2", imagetype.ImagePanaRAW,
		func(b []byte) bool { return at(b, 0, "IIU\x00") },
		func(b []byte) bool { return at(b, 0, "IIU\x00") && at(b, 8, "\x88\xe7\x74\xd8") }, []string{"tiff"}},
	{"crw", imagetype.ImageCRW,
		func(b []byte) bool { return at(b, 0, "II") && at(b, 6, "HEAPCCDR") },
		func(b []byte) bool { return at(b, 0, "II") && at(b, 6, "HEAPCCDR") }, []string{"tiff", "cr2"}},
	{"psd", imagetype.ImagePSD,
		func(b []byte) bool { return at(b, 0, "8BPS") },
		func(b []byte) bool { return at(b, 0, "8BPS") }, nil},
	{"xmp", imagetype.ImageXMP,
		func(b []byte) bool { return at(b, 0, "<x:xmpmeta") },
		func(b []byte) bool { return at(b, 0, "<x:xmpmeta") }, nil},
	{"ppm", imagetype.ImagePPM,
		func(b []byte) bool {
			return len(b) > 2 && b[0] == 'P' && (b[1] == '3' || b[1] == '6') && (b[2] == ' ' || b[2] == '\t' || b[2] == '\n' || b[2] == '\r')
		},
		func(b []byte) bool {
			return len(b) > 2 && b[0] == 'P' && (b[1] == '3' || b[1] == '6') && (b[2] == ' ' || b[2] == '\t' || b[2] == '\n' || b[2] == '\r')
		}, nil},
}

func sigByType(t imagetype.ImageType) *sig {
	for i := range table {
		if table[i].t == t {
			return &table[i]
		}
	}
	return nil
}

// expected returns the type a 24-byte header must get, if the table
// determines it: exactly one sufficient signature once the formats it
// overrides are removed and nothing else even necessarily matches.
func expected(b []byte) (imagetype.ImageType, bool) {
	var sufs []*sig
	for i := range table {
		if table[i].suf(b) {
			sufs = append(sufs, &table[i])
		}
	}
	if len(sufs) == 0 {
		return 0, false
	}
	// pick the one that overrides all other matching (necessary) formats
	for _, s := range sufs {
		ok := true
		for i := range table {
			g := &table[i]
			if g == s || !g.nec(b) {
				continue
			}
			over := false
			for _, o := range s.over {
				if o == g.name {
					over = true
				}
			}
			if !over {
				ok = false
			}
		}
		if ok {
			return s.t, true
		}
	}
	return 0, false
}

// ---- canonical headers ---------------------------------------------------------

type header struct {
	Name string
	Hex  string
	want imagetype.ImageType
}

func pad24(s string) []byte {
	b := make([]byte, 24)
	copy(b, s)
	for i := len(s); i < 24; i++ {
		b[i] = byte(0x30 + i) // harmless filler
	}
	return b
}

func canon() []header {
	mk := func(name, s string, t imagetype.ImageType) header {
		return header{name, hex.EncodeToString(pad24(s)), t}
	}
	hs := []header{
		mk("jpeg-jfif", "\xff\xd8\xff\xe0\x00\x10JFIF\x00\x01\x01\x00\x00\x48\x00\x48\x00\x00\xff\xdb\x00\x43", imagetype.ImageJPEG),
		mk("jpeg-exif", "\xff\xd8\xff\xe1\x12\x34Exif\x00\x00II*\x00\x08\x00\x00\x00\x0b\x00\x0f\x01", imagetype.ImageJPEG),
		mk("jp2", jp2sig+"\x00\x00\x00\x14ftypjp2 \x00\x00\x00\x00", imagetype.ImageJPEG),
		mk("png", "\x89PNG\r\n\x1a\n\x00\x00\x00\x0dIHDR\x00\x00\x01\x00\x00\x00\x01\x00", imagetype.ImagePNG),
		mk("gif87", "GIF87a\x10\x00\x10\x00\x80\x00\x00", imagetype.ImageGIF),
		mk("gif89", "GIF89a\x10\x00\x10\x00\x80\x00\x00", imagetype.ImageGIF),
		mk("bmp", "BM\x66\xb4\x00\x00\x00\x00\x00\x00\x36\x00\x00\x00\x28\x00\x00\x00", imagetype.ImageBMP),
		mk("webp", "RIFF\x44\xb3\x02\x00WEBPVP8 \x38\xb3\x02\x00", imagetype.ImageWebP),
		mk("heic", "\x00\x00\x00\x18ftypheic\x00\x00\x00\x00mif1heic", imagetype.ImageHEIF),
		mk("heix", "\x00\x00\x00\x1cftypheix\x00\x00\x00\x00mif1heix", imagetype.ImageHEIF),
		mk("mif1-heic16", "\x00\x00\x00\x1cftypmif1\x00\x00\x00\x00heicmiaf", imagetype.ImageHEIF),
		mk("mif1-heic20", "\x00\x00\x00\x1cftypmif1\x00\x00\x00\x00mif1heic", imagetype.ImageHEIF),
		mk("msf1-hevc20", "\x00\x00\x00\x1cftypmsf1\x00\x00\x00\x00msf1hevc", imagetype.ImageHEIF),
		mk("avif", "\x00\x00\x00\x1cftypavif\x00\x00\x00\x00avifmif1", imagetype.ImageAVIF),
		mk("mif1-avif20", "\x00\x00\x00\x1cftypmif1\x00\x00\x00\x00mif1avif", imagetype.ImageAVIF),
		mk("mif1-avif16", "\x00\x00\x00\x1cftypmif1\x00\x00\x00\x00avifmif1", imagetype.ImageAVIF),
		mk("msf1-hevc16", "\x00\x00\x00\x1cftypmsf1\x00\x00\x00\x00hevcmsf1", imagetype.ImageHEIF),
		mk("cr3", "\x00\x00\x00\x18ftypcrx \x00\x00\x00\x01crx isom", imagetype.ImageCR3),
		mk("tiff-ii", "II*\x00\x08\x00\x00\x00\x13\x00\xfe\x00\x04\x00\x01\x00\x00\x00\x01\x00\x00\x00\x03\x01", imagetype.ImageTiff),
		mk("tiff-mm", "MM\x00*\x00\x00\x00\x08\x00\x1b\x00\xfe\x00\x04\x00\x00\x00\x01\x00\x00\x00\x01\x01\x00", imagetype.ImageTiff),
		mk("cr2", "II*\x00\x10\x00\x00\x00CR\x02\x00\x34\x18\x01\x00\x12\x00\x00\x01\x03\x00\x01\x00", imagetype.ImageCR2),
		mk("cr2-mm", "MM\x00*\x00\x00\x00\x10CR\x02\x00\x00\x01\x18\x34\x00\x12\x01\x00\x00\x03\x00\x00", imagetype.ImageCR2),
		mk("rw2", "IIU\x00\x18\x00\x00\x00\x88\xe7\x74\xd8\xf8\x25\x1d\x4d\x94\x7a\x6e\x77\x82\x2b\x5d\x6a", imagetype.ImagePanaRAW),
		mk("crw", "II\x1a\x00\x00\x00HEAPCCDR\x02\x00\x01\x00\x00\x00\x00\x00\x00\x00", imagetype.ImageCRW),
		mk("psd", "8BPS\x00\x01\x00\x00\x00\x00\x00\x00\x00\x03\x00\x00\x02\x58\x00\x00\x03\x20\x00\x08", imagetype.ImagePSD),
		mk("xmp", "<x:xmpmeta xmlns:x=\"adob", imagetype.ImageXMP),
		mk("ppm-p6", "P6\n640 480\n255\n", imagetype.ImagePPM),
		mk("ppm-p3", "P3 2 2 255 0 0 0 1 1 1 2", imagetype.ImagePPM),
		mk("unknown-zero", "\x00\x00\x00\x00\x00\x00\x00\x00\x00\x00\x00\x00\x00\x00\x00\x00\x00\x00\x00\x00\x00\x00\x00\x00", imagetype.ImageUnknown),
		mk("unknown-text", "hello, this is no image.", imagetype.ImageUnknown),
	}
	// the 32-byte headers of real files shipped with the package
	if dat, err := os.ReadFile("/repo/imagetype/test.dat"); err == nil {
		for i := 0; i+32 <= len(dat); i += 32 {
			h := dat[i : i+24]
			t, ok := expected(h)
			if !ok {
				t = imagetype.ImageUnknown
				if got, err := imagetype.Buf(h); err == nil {
					t = got // not determined by the table: only the cross-checks apply
				}
			}
			hs = append(hs, header{fmt.Sprintf("test.dat[%d]", i/32), hex.EncodeToString(h), t})
		}
	}
	return hs
}

// ---- the oracle ------------------------------------------------------------------

type Case struct {
	Hex    string `json:"hex"`    // the stream
	Origin string `json:"origin"` // which header / generator produced it
}

type oneByte struct{ r io.Reader }

func (o oneByte) Read(p []byte) (int, error) {
	if len(p) == 0 {
		return 0, nil
	}
	return o.r.Read(p[:1])
}

func errClass(t imagetype.ImageType, err error) string {
	switch {
	case err == nil:
		return "nil"
	case err == imagetype.ErrImageTypeNotFound:
		return "notfound"
	default:
		return "other"
	}
}

func eval(c Case) (f *pbt.Fail) {
	b, err := hex.DecodeString(c.Hex)
	if err != nil {
		return pbt.Failf("", "bad case hex: %v", err)
	}
	defer func() {
		if r := recover(); r != nil {
			f = pbt.Failf("panic", "sniffing panicked on %x: %v", b, r)
		}
	}()
	tBuf, eBuf := imagetype.Buf(b)
	type res struct {
		name string
		t    imagetype.ImageType
		e    error
	}
	var rs []res
	rs = append(rs, res{"Buf", tBuf, eBuf})
	if len(b) >= 24 {
		t, e := imagetype.Buf(b[:24])
		rs = append(rs, res{"Buf[:24]", t, e})
		// suffix independence: different tails
		alt := append(append([]byte{}, b[:24]...), []byte("\xff\xd8\xffII*\x00ftypcrx <x:xmpmeta")...)
		t, e = imagetype.Buf(alt)
		rs = append(rs, res{"Buf(prefix+othertail)", t, e})
		// suffix independence against tails built from every signature fragment at every alignment
		// (a classifier that looks for a brand or magic beyond byte 24 would be swayed by one of them)
		for ti, tl := range sigTails() {
			copy(tailBuf[:24], b[:24])
			n := copy(tailBuf[24:], tl)
			if t2, e2 := imagetype.Buf(tailBuf[:24+n]); t2 != t || e2 != e {
				return pbt.Failf("suffix", "Buf(prefix ++ tail #%d %q) = (%v, %v) but Buf(prefix) = (%v, %v) on %x", ti, tl, t2, e2, t, e, b[:24])
			}
		}
	}
	t, e := imagetype.Scan(bytes.NewReader(b))
	rs = append(rs, res{"Scan(bytes.Reader)", t, e})
	t, e = imagetype.Scan(oneByte{bytes.NewReader(b)})
	rs = append(rs, res{"Scan(one-byte reader)", t, e})
	t, e = imagetype.ReadAt(bytes.NewReader(b))
	if len(b) == 24 && e == io.EOF {
		// bytes.Reader.ReadAt never returns EOF with a full read; nothing to normalise
	}
	rs = append(rs, res{"ReadAt", t, e})
	// io.ReaderAt: "if the n = len(p) bytes returned are at the end of the input source, ReadAt may return either err == EOF or err == nil"
	t, e = imagetype.ReadAt(eofAt{b})
	rs = append(rs, res{"ReadAt(reader that returns the last bytes with io.EOF)", t, e})
	for _, size := range []int{24, 64, 4096} {
		br := bufio.NewReaderSize(oneByte{bytes.NewReader(b)}, size)
		t, e = imagetype.ScanBuf(br)
		rs = append(rs, res{fmt.Sprintf("ScanBuf(size %d)", size), t, e})
		rest, _ := io.ReadAll(br)
		if !bytes.Equal(rest, b) {
			return pbt.Failf("consumed", "ScanBuf consumed the stream: %d of %d bytes left for the caller", len(rest), len(b))
		}
		br = bufio.NewReaderSize(bytes.NewReader(b), size)
		t, e = imagetype.Scan(br)
		rs = append(rs, res{fmt.Sprintf("Scan(bufio %d)", size), t, e})
		rest, _ = io.ReadAll(br)
		if !bytes.Equal(rest, b) {
			return pbt.Failf("consumed", "Scan(*bufio.Reader) consumed the stream: %d of %d bytes left", len(rest), len(b))
		}
	}
	// a reader that does not stand at its beginning (a file positioned at an embedded image, a section of a larger stream):
	// the stream to be sniffed is what the reader still has to give, not the underlying data from offset 0
	for _, lead := range []string{"\xff\xd8\xff\xe1\x00\x10JFIF", "\x89PNG\r\n\x1a\n\x00\x00\x00\rIHDR\x00\x00\x00\x01\x00\x00\x00\x01\x08"} {
		rd := bytes.NewReader(append([]byte(lead), b...))
		if _, err := rd.Seek(int64(len(lead)), io.SeekStart); err != nil {
			return pbt.Failf("", "seek: %v", err)
		}
		t, e = imagetype.Scan(rd)
		rs = append(rs, res{fmt.Sprintf("Scan(bytes.Reader standing %d bytes into its data)", len(lead)), t, e})
		sr := io.NewSectionReader(bytes.NewReader(append([]byte(lead), b...)), int64(len(lead)), int64(len(b)))
		t, e = imagetype.Scan(sr)
		rs = append(rs, res{"Scan(io.SectionReader)", t, e})
		t, e = imagetype.ReadAt(io.NewSectionReader(bytes.NewReader(append([]byte(lead), b...)), int64(len(lead)), int64(len(b))))
		rs = append(rs, res{"ReadAt(io.SectionReader)", t, e})
	}
	if len(b) < 24 {
		for _, r := range rs {
			if r.t != imagetype.ImageUnknown || r.e == nil {
				return pbt.Failf("short", "%s on a %d-byte stream returned (%v, %v); want (unknown, error)", r.name, len(b), r.t, r.e)
			}
		}
		if eBuf != imagetype.ErrDataLength {
			return pbt.Failf("short", "Buf on %d bytes returned error %v, want ErrDataLength", len(b), eBuf)
		}
		return nil
	}
	for _, r := range rs {
		if r.t != tBuf || errClass(r.t, r.e) != errClass(tBuf, eBuf) {
			return pbt.Failf("disagree", "%s = (%v, %v) but Buf = (%v, %v) on %x", r.name, r.t, r.e, tBuf, eBuf, b[:24])
		}
		if (r.t == imagetype.ImageUnknown) != (r.e == imagetype.ErrImageTypeNotFound) {
			return pbt.Failf("notfound", "%s = (%v, %v): 'not found' must be reported exactly when the type is unknown", r.name, r.t, r.e)
		}
	}
	h := b[:24]
	if tBuf != imagetype.ImageUnknown {
		s := sigByType(tBuf)
		if s == nil {
			return pbt.Failf("sig:"+tBuf.String(), "header %x classified as %v, which has no signature in the table", h, tBuf)
		}
		if !s.nec(h) {
			return pbt.Failf("sig:"+s.name, "header %x classified as %v but does not carry the %s signature", h, tBuf, s.name)
		}
	}
	if want, ok := expected(h); ok && want != tBuf {
		return pbt.Failf("miss:"+want.String(), "header %x carries the signature of %v (no competing format) but was classified %v", h, want, tBuf)
	}
	return nil
}

var tailBuf [24 + 64]byte
var sigTailCache [][]byte

// sigTails: every fragment repeated over 32 bytes, shifted by 0..3 bytes.
func sigTails() [][]byte {
	if sigTailCache != nil {
		return sigTailCache
	}
	for _, f := range fragments {
		if len(f) < 2 {
			continue
		}
		for shift := 0; shift < 4; shift++ {
			tl := make([]byte, 0, 40)
			for i := 0; i < shift; i++ {
				tl = append(tl, 0)
			}
			for len(tl) < 32 {
				tl = append(tl, f...)
			}
			sigTailCache = append(sigTailCache, tl[:32])
		}
	}
	return sigTailCache
}

func nontrivial(b []byte, origType imagetype.ImageType) bool {
	if len(b) < 24 {
		return false
	}
	n := 0
	for i := range table {
		if table[i].nec(b[:24]) {
			n++
		}
	}
	got, _ := imagetype.Buf(b)
	return n >= 2 || got != origType
}

var chk = pbt.Check[Case]{Name: "sniff", Eval: eval, Gen: genCase}

var fragments = []string{"II*\x00", "MM\x00*", "IIU\x00", "II", "MM", "\xff\xd8", "\xff\xd8\xff", "ftyp", "\x00\x00\x00\x18", "\x00\x00\x00\x0c",
	"heic", "heix", "mif1", "msf1", "hevc", "avif", "crx ", "isom", "CR\x02\x00", "HEAPCCDR", "\x88\xe7\x74\xd8", "\x89PNG", "\r\n\x1a\n", "\x89PNG\r\n\x1a\n",
	"8BPS", "BM", "RIFF", "WEBP", "<x:xmpmeta", "GIF87a", "GIF89a", "GIF8", "P6\n", "P3 ", "jP  ", "\r\n\x87\n", "\x00", "\x00\x00", "JFIF"}

func genCase(rt *rapid.T) Case {
	mode := rapid.IntRange(0, 3).Draw(rt, "mode")
	var b []byte
	switch mode {
	case 0: // assembled from signature fragments at the offsets signatures use
		b = make([]byte, 24)
		fill := rapid.SliceOfN(rapid.Byte(), 24, 24).Draw(rt, "fill")
		copy(b, fill)
		n := rapid.IntRange(1, 5).Draw(rt, "nfrag")
		for i := 0; i < n; i++ {
			fr := rapid.SampledFrom(fragments).Draw(rt, "frag")
			off := rapid.SampledFrom([]int{0, 0, 0, 2, 4, 6, 8, 8, 12, 16, 20}).Draw(rt, "off")
			copy(b[off:], fr)
		}
		b = append(b, rapid.SliceOfN(rapid.Byte(), 0, 40).Draw(rt, "tail")...)
	case 1: // arbitrary bytes, any length 0..64
		b = rapid.SliceOfN(rapid.Byte(), 0, 64).Draw(rt, "bytes")
	case 2: // canonical header, 1..3 perturbed bytes, random tail or truncation
		hs := canon()
		h := rapid.SampledFrom(hs).Draw(rt, "header")
		b, _ = hex.DecodeString(h.Hex)
		k := rapid.IntRange(0, 3).Draw(rt, "k")
		for i := 0; i < k; i++ {
			b[rapid.IntRange(0, 23).Draw(rt, "pos")] = rapid.Byte().Draw(rt, "val")
		}
		if rapid.Bool().Draw(rt, "truncate") {
			b = b[:rapid.IntRange(0, 24).Draw(rt, "len")]
		} else {
			b = append(b, rapid.SliceOfN(rapid.Byte(), 0, 5000).Draw(rt, "tail")...)
		}
	case 3: // two signatures overlaid
		b = make([]byte, 24)
		hs := canon()
		a, _ := hex.DecodeString(rapid.SampledFrom(hs).Draw(rt, "h1").Hex)
		c, _ := hex.DecodeString(rapid.SampledFrom(hs).Draw(rt, "h2").Hex)
		cut := rapid.IntRange(0, 24).Draw(rt, "cut")
		copy(b, a[:cut])
		copy(b[cut:], c[cut:])
	}
	cs := Case{Hex: hex.EncodeToString(b), Origin: fmt.Sprintf("gen-mode-%d", mode)}
	rec.Case(nontrivial(b, imagetype.ImageUnknown), ev.Hash(b), cs.Origin)
	rec.Sample(cs.Origin, cs)
	return cs
}

// eofAt is an io.ReaderAt that reports io.EOF together with a read that reaches the end of the data.
type eofAt struct{ b []byte }

func (r eofAt) ReadAt(p []byte, off int64) (int, error) {
	if off >= int64(len(r.b)) {
		return 0, io.EOF
	}
	n := copy(p, r.b[off:])
	if int(off)+n == len(r.b) {
		return n, io.EOF
	}
	return n, nil
}

func TestProp(t *testing.T) {
	defer rec.MustWrite()
	rec.Rule("exhaustive: every single-byte perturbation (24 positions x 256 values) of every canonical header (format specifications + imagetype/test.dat); " +
		"thorough adds every two-byte perturbation inside the first 12 bytes of the TIFF-family and ftyp headers; " +
		"random: headers assembled from signature fragments, arbitrary strings of length 0..64, perturbed/truncated/extended canonical headers, overlays of two headers. " +
		"non-trivial = the header matches >= 2 table signatures, or the perturbation changed the classification; distinct by stream bytes")
	rec.Assume("signature table written from the format specifications; JPEG-2000 signature box => image/jpeg because TestScanImageType pins it")
	rec.Assume("ScanBuf and the non-consumption clause are exercised with bufio.Readers of size >= 24: a smaller reader cannot look 24 bytes ahead, so ScanBuf reports bufio.ErrBufferFull and Scan has to re-wrap it (and thereby consumes what it read)")
	pbt.Register(chk)
	pbt.RegressDir(t, rec)

	hs := canon()
	// shard the exhaustive part over headers
	complete := true
	for hi, h := range hs {
		if hi%rec.Env.Shards != rec.Env.Shard {
			continue
		}
		base, _ := hex.DecodeString(h.Hex)
		// the canonical header itself must get its type
		if got, _ := imagetype.Buf(base); got != h.want {
			c := Case{Hex: h.Hex, Origin: h.Name}
			if pbt.Report(t, rec, chk.Name, c, pbt.Failf("canon:"+h.Name, "canonical header %s (%x) classified %v, want %v", h.Name, base, got, h.want)) {
				complete = false
			}
		}
		for pos := 0; pos < 24; pos++ {
			for v := 0; v < 256; v++ {
				b := append([]byte{}, base...)
				b[pos] = byte(v)
				c := Case{Hex: hex.EncodeToString(b), Origin: h.Name}
				nt := nontrivial(b, h.want)
				rec.Case(nt, ev.Hash(b), "perturb1")
				if nt {
					rec.Sample("perturb1-nontrivial", c)
				}
				if f := eval(c); f != nil {
					if pbt.Report(t, rec, chk.Name, c, f) {
						complete = false
						goto nextHeader
					}
				}
			}
		}
		if rec.Env.Thorough() && (tiffSig(base) || isFtyp(base) || at(base, 0, "II")) {
			for p1 := 0; p1 < 12; p1++ {
				for p2 := p1 + 1; p2 < 12; p2++ {
					for v1 := 0; v1 < 256; v1 += 1 {
						for _, v2 := range interesting(base, p2) {
							b := append([]byte{}, base...)
							b[p1], b[p2] = byte(v1), v2
							rec.Case(nontrivial(b, h.want), ev.Hash(b), "perturb2")
							c := Case{Hex: hex.EncodeToString(b), Origin: h.Name}
							if f := eval(c); f != nil {
								if pbt.Report(t, rec, chk.Name, c, f) {
									complete = false
									goto nextHeader
								}
							}
						}
					}
				}
			}
		}
	nextHeader:
	}
	rec.Exhaustive(complete)
	if t.Failed() {
		return
	}
	pbt.Run(t, rec, chk, rec.Env.Pick(20000, 400000), 1)
}

// interesting second-byte values: bytes of all signatures at that position
// plus neighbours of the original byte.
func interesting(base []byte, pos int) []byte {
	set := map[byte]bool{base[pos] ^ 1: true, base[pos] + 1: true, 0: true, 0xff: true}
	for _, f := range fragments {
		for off := 0; off <= pos; off++ {
			if pos-off < len(f) {
				set[f[pos-off]] = true
			}
		}
	}
	var out []byte
	for v := 0; v < 256; v++ {
		if set[byte(v)] {
			out = append(out, byte(v))
		}
	}
	return out
}

func TestReplay(t *testing.T) {
	pbt.Register(chk)
	pbt.Replay(t, rec)
}
