// C15 — logging is neutral: configuring any log level and writer never changes
// the value or error an entry point returns and never causes a panic; with the
// default configuration the library writes nothing to fd 1 or fd 2.
package c15

import (
	"bytes"
	"encoding/binary"
	"fmt"
	"os"
	"strings"
	"testing"

	"pgregory.net/rapid"

	"verif/internal/ev"
	"verif/internal/gen"
	"verif/internal/pbt"
	"verif/internal/worker"
)

var rec = ev.New("C15")
var cl = &worker.Client{VLimitKB: 16 << 20}

func TestMain(m *testing.M) {
	worker.MaybeServe()
	code := m.Run()
	cl.Close()
	os.Exit(code)
}

type Case struct {
	Entry  string   `json:"entry"`
	Input  []byte   `json:"input"`
	K      int      `json:"k,omitempty"`
	Origin string   `json:"origin"`
	Ops    []string `json:"ops,omitempty"`
	// Reader: the reader in front of the input (default: bytes.Reader); fault readers fail with a non-EOF error at a fixed offset
	Reader worker.ReaderSpec `json:"reader"`
}

var levels = []string{"trace", "debug", "info", "warn", "error", "fatal", "disabled", "panic"}

func eval(c Case) *pbt.Fail {
	wd := worker.Watchdog(len(c.Input))
	def := cl.Do(worker.Req{Entry: c.Entry, Input: c.Input, K: c.K, Reader: c.Reader}, wd)
	if def.Hung || def.Aborted != "" {
		rec.Inconclusive(1)
		return nil
	}
	if def.Died || def.Panic != "" {
		rec.Class("default-config-crashes(C01)", 1)
		return nil // C01's subject
	}
	if def.OutFD1 != 0 || def.OutFD2 != 0 {
		return pbt.Failf(c.Entry+"/stdout", "%s under the default logger configuration wrote %d bytes to fd 1 and %d bytes to fd 2 (a bare worker process: every byte is the library's) on a %d-byte %s input", c.Entry, def.OutFD1, def.OutFD2, len(c.Input), c.Origin)
	}
	records := 0
	for _, lv := range levels {
		r := cl.Do(worker.Req{Entry: c.Entry, Input: c.Input, K: c.K, Log: lv, Reader: c.Reader}, wd)
		if r.Hung || r.Aborted != "" {
			rec.Inconclusive(1)
			continue
		}
		if r.Panic != "" {
			return pbt.Failf(c.Entry+"/panic@"+lv+"/"+r.PanicFrame, "%s panics at log level %s (it returns under the default configuration): %s in %s\n%s", c.Entry, lv, r.Panic, r.PanicFrame, r.PanicStack)
		}
		if r.Died {
			return pbt.Failf(c.Entry+"/died@"+lv, "%s kills the process at log level %s; stderr tail:\n%s", c.Entry, lv, r.Stderr)
		}
		if r.Err != def.Err {
			return pbt.Failf(c.Entry+"/error@"+lv, "%s returns error %q at log level %s and %q under the default configuration", c.Entry, r.Err, lv, def.Err)
		}
		if r.Digest != def.Digest {
			return pbt.Failf(c.Entry+"/value@"+lv, "%s returns a different value at log level %s than under the default configuration: %s", c.Entry, lv, firstDiff(def.Digest, r.Digest))
		}
		if r.OutFD1 != 0 || r.OutFD2 != 0 {
			return pbt.Failf(c.Entry+"/stdout@"+lv, "%s with the logger set to an in-memory writer at level %s still wrote %d/%d bytes to fd 1/2", c.Entry, lv, r.OutFD1, r.OutFD2)
		}
		if lv == "trace" {
			records = r.LogRecords
		}
	}
	errPath := def.Err != "<nil>"
	nt := records > 0 || errPath
	cls := []string{"entry:" + c.Entry, "origin:" + c.Origin}
	if c.Reader.Mode != "" {
		cls = append(cls, "reader:"+c.Reader.Mode+"/"+c.Reader.FaultErr)
	}
	if records > 0 {
		cls = append(cls, "trace-produced-records")
	}
	if errPath {
		cls = append(cls, "error-path")
	}
	rec.Case(nt, ev.Hash([]byte(c.Entry), c.Input), cls...)
	if nt {
		rec.Sample(c.Origin, map[string]any{"entry": c.Entry, "origin": c.Origin, "input_len": len(c.Input), "trace_records": records, "default_err": def.Err})
	}
	return nil
}

func firstDiff(a, b string) string {
	la, lb := strings.Split(a, "\n"), strings.Split(b, "\n")
	for i := 0; i < len(la) && i < len(lb); i++ {
		if la[i] != lb[i] {
			return fmt.Sprintf("%q vs %q", la[i], lb[i])
		}
	}
	return fmt.Sprintf("%d vs %d lines", len(la), len(lb))
}

// cr3Counts builds CR3 trees whose CTBO / iloc / infe counts sit at and beyond the arrays the loggers index.
func cr3Counts(rt *rapid.T) []byte {
	n := rapid.SampledFrom([]int{0, 1, 3, 4, 5, 6, 7, 8, 9, 16, 255, 65535}).Draw(rt, "ctbo.count")
	recs := rapid.IntRange(0, 8).Draw(rt, "ctbo.records")
	ctbo := []byte{byte(n >> 24), byte(n >> 16), byte(n >> 8), byte(n)}
	for i := 0; i < recs; i++ {
		idx := uint32(rapid.SampledFrom([]int{0, 1, 2, 3, 4, 5, 6, 7, 255, 1 << 31}).Draw(rt, "ctbo.idx"))
		r := make([]byte, 20)
		r[0], r[1], r[2], r[3] = byte(idx>>24), byte(idx>>16), byte(idx>>8), byte(idx)
		r[11], r[19] = byte(100*i), 50
		ctbo = append(ctbo, r...)
	}
	canon := &gen.Box{Type: "uuid", Data: append([]byte{}, gen.UUIDCanon...), Kids: []*gen.Box{{Type: "CTBO", Data: ctbo}}}
	if rapid.Bool().Draw(rt, "cmt") {
		f := gen.GenExif(rt, gen.Options{Unbuffered: true, MaxForeign: 1})
		canon.Kids = append(canon.Kids, &gen.Box{Type: "CMT1", Data: f.Enc.II})
	}
	moov := &gen.Box{Type: "moov", Kids: []*gen.Box{canon}}
	out := gen.Ftyp("crx ", 1, "crx ", "isom").Serialise(0)
	out = append(out, moov.Serialise(len(out))...)
	mdat := &gen.Box{Type: "mdat", Data: make([]byte, 64)}
	return append(out, mdat.Serialise(len(out))...)
}

// lyingWrapper: a HEIF or CR3 file in which a run of metadata boxes sits inside a box with a wrong size: whether the
// reader stops at it or reads on inside it must not depend on the log level.
func lyingWrapper(rt *rapid.T) ([]byte, string) {
	f := gen.GenExif(rt, gen.Options{Unbuffered: true, MaxForeign: 1})
	var desc string
	if rapid.Bool().Draw(rt, "heif") {
		data := gen.HEIFWrap(rt, func(meta *gen.Box) { desc = gen.WrapLying(rt, meta) })(f.Enc.II)
		return data, "heif " + desc
	}
	data, _ := gen.CR3Wrap(rt, func(moov, canon *gen.Box) {
		if rapid.Bool().Draw(rt, "in.canon") {
			desc = gen.WrapLying(rt, canon)
		} else {
			desc = gen.WrapLying(rt, moov)
		}
	})([4][]byte{f.Enc.II, nil, nil, nil})
	return data, "cr3 " + desc
}

// previewCR3: a CR3 with an honest preview box (the only place the preview package logs is a failed read inside it).
func previewCR3(rt *rapid.T) ([]byte, int, int) {
	jpegLen := rapid.SampledFrom([]int{10, 300, 3000, 9000}).Draw(rt, "have")
	f := make([]byte, 16)
	binary.BigEndian.PutUint16(f[4:], 1)
	binary.BigEndian.PutUint16(f[6:], 160)
	binary.BigEndian.PutUint16(f[8:], 120)
	binary.BigEndian.PutUint16(f[10:], 1)
	binary.BigEndian.PutUint32(f[12:], uint32(jpegLen))
	prvw := &gen.Box{Type: "PRVW", Data: append(f, bytes.Repeat([]byte{0xd5}, jpegLen)...)}
	pre := &gen.Box{Type: "uuid", Data: append(append([]byte{}, gen.UUIDPreview...), 0, 0, 0, 0, 0, 0, 0, 1), Kids: []*gen.Box{prvw}}
	canon := &gen.Box{Type: "uuid", Data: append([]byte{}, gen.UUIDCanon...), Kids: []*gen.Box{{Type: "CNCV", Data: make([]byte, 30)}}}
	if rapid.Bool().Draw(rt, "cmt") {
		e := gen.GenExif(rt, gen.Options{Unbuffered: true, MaxForeign: 1})
		canon.Kids = append(canon.Kids, &gen.Box{Type: "CMT1", Data: e.Enc.II})
	}
	moov := &gen.Box{Type: "moov", Kids: []*gen.Box{canon}}
	xp := &gen.Box{Type: "uuid", Data: append(append([]byte{}, gen.UUIDXPacket...), []byte("<x:xmpmeta xmlns:x=\"adobe:ns:meta/\"></x:xmpmeta>")...)}
	var out []byte
	start := 0
	for _, b := range []*gen.Box{gen.Ftyp("crx ", 1, "crx ", "isom"), moov, xp, pre, {Type: "mdat", Data: make([]byte, 64)}} {
		if b == pre {
			start = len(out)
		}
		out = append(out, b.Serialise(len(out))...)
	}
	return out, start, start + 8 + 24 + 24 + jpegLen
}

// faultReader: the reader fails with a non-EOF error (or ends) at a drawn offset.
func faultReader(rt *rapid.T, lo, hi int) worker.ReaderSpec {
	if hi < lo {
		hi = lo
	}
	return worker.ReaderSpec{Mode: "fault", FaultAt: rapid.IntRange(lo, hi).Draw(rt, "fault.at"), FaultErr: rapid.SampledFrom([]string{"custom", "custom", "unexpected", "zero-then-eof"}).Draw(rt, "fault.err")}
}

func genCase(rt *rapid.T) Case {
	if gen.Chance(rt, "previewfault?", 0.1) {
		data, from, to := previewCR3(rt)
		c := Case{Input: data, Origin: "cr3-preview", K: 4, Entry: rapid.SampledFrom([]string{"PreviewCR3", "PreviewCR3", "BMFF", "Decode"}).Draw(rt, "entry")}
		switch rapid.IntRange(0, 3).Draw(rt, "where") {
		case 0: // intact
		case 1:
			c.Reader = faultReader(rt, 0, len(data))
		default:
			c.Reader = faultReader(rt, from, to)
		}
		return c
	}
	if gen.Chance(rt, "lyingwrapper?", 0.15) {
		data, desc := lyingWrapper(rt)
		c := Case{Input: data, Origin: "lying-wrapper", K: 4, Ops: []string{desc}}
		c.Entry = rapid.SampledFrom([]string{"BMFF", "BMFF", "Decode", "DecodeCR3", "DecodeHeif", "PreviewCR3"}).Draw(rt, "entry")
		return c
	}
	if gen.Chance(rt, "cr3counts?", 0.15) {
		c := Case{Input: cr3Counts(rt), Origin: "cr3-counts", K: 3}
		c.Entry = rapid.SampledFrom([]string{"Decode", "DecodeCR3", "PreviewCR3", "BMFF"}).Draw(rt, "entry")
		return c
	}
	in := gen.GenInput(rt, nil)
	c := Case{Input: in.Data, Origin: in.Kind}
	if gen.Chance(rt, "entry.any", 0.1) {
		c.Entry = rapid.SampledFrom(gen.AllEntries).Draw(rt, "entry")
	} else {
		c.Entry = rapid.SampledFrom(gen.EntriesFor(in.Kind)).Draw(rt, "entryk")
	}
	switch rapid.IntRange(0, 4).Draw(rt, "mode") {
	case 0, 1:
		c.Origin += "+asis"
	case 2:
		c.Input = in.Data[:rapid.IntRange(0, len(in.Data)).Draw(rt, "trunc")]
		c.Origin += "+truncated"
	default:
		c.Input, c.Ops = gen.Mutate(rt, in.Data, in.Sites)
		c.Origin += "+mutated"
	}
	if gen.Chance(rt, "fault?", 0.15) {
		c.Reader = faultReader(rt, 0, len(c.Input))
	}
	return c
}

var chk = pbt.Check[Case]{Name: "logging-neutral", Gen: genCase, Eval: eval}

func init() { pbt.Register(chk) }

func TestProp(t *testing.T) {
	defer rec.MustWrite()
	rec.Rule("inputs: repository samples and encoder output in every container (as is, truncated, with 1-4 hostile edits) and CR3 trees whose CTBO count / record indices sit at and beyond the fixed arrays the log marshallers index; every entry point; " +
		"each input is decoded in an isolated worker under the default configuration and then with imagemeta.SetLogger(in-memory writer, L) for L in {trace, debug, info, warn, error, fatal, disabled, panic}. " +
		"oracle: digest and error text under every level equal those under the default, no panic / process death at any level, and the bytes that appeared on the worker's fd 1 and fd 2 during the call == 0 (the worker is a bare main: every byte is the library's). " +
		"non-trivial = the trace-level run produced >= 1 log record (guarded code executed) or the input drives an error path; distinct by (entry, input)")
	rec.Assume("inputs on which the default configuration itself panics are C01's subject and are skipped here (counted as a class)")
	pbt.RegressDir(t, rec)
	// every sample x every entry for its kind, deterministically
	n := 0
	for _, s := range gen.Corpus() {
		for _, entry := range gen.EntriesFor(kindOf(s.Data)) {
			n++
			if n%rec.Env.Shards != rec.Env.Shard {
				continue
			}
			c := Case{Entry: entry, Input: s.Data, Origin: "sample:" + s.Name}
			if f := eval(c); f != nil {
				if pbt.Report(t, rec, chk.Name, c, f) {
					return
				}
			}
		}
	}
	pbt.Run(t, rec, chk, rec.Env.Pick(1500, 60000), 1)
	rec.Extra("worker_restarts", cl.Restarts)
}

func kindOf(b []byte) string {
	switch {
	case len(b) > 2 && b[0] == 0xff && b[1] == 0xd8:
		return "jpeg"
	case len(b) > 4 && (string(b[:4]) == "II*\x00" || string(b[:4]) == "MM\x00*"):
		return "tiff"
	case len(b) > 12 && string(b[4:8]) == "ftyp" && string(b[8:12]) == "crx ":
		return "cr3"
	case len(b) > 12 && string(b[4:8]) == "ftyp" && string(b[8:12]) == "avif":
		return "avif"
	case len(b) > 12 && string(b[4:8]) == "ftyp":
		return "heif"
	case len(b) > 4 && string(b[1:4]) == "PNG":
		return "png"
	case len(b) > 10 && (string(b[:10]) == "<x:xmpmeta" || string(b[:5]) == "<?xpa"):
		return "xmp"
	}
	return "other"
}

func TestReplay(t *testing.T) { pbt.Replay(t, rec) }
