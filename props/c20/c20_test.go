// C20 — the YCbCr-to-gray conversion is layout-correct and memory-safe for
// every accepted image: any chroma subsampling, any rectangle origin, any
// stride; it reads only inside the planes and writes only inside the
// destination.
package c20

import (
	"fmt"
	"image"
	"math"
	"runtime/debug"
	"sort"
	"testing"
	"unsafe"

	"pgregory.net/rapid"

	"github.com/evanoberholster/imagemeta/imagehash"
	"github.com/evanoberholster/imagemeta/imagehash/transforms"
	"github.com/evanoberholster/imagemeta/imagehash/transforms32"

	"verif/internal/ev"
	"verif/internal/imgen"
	"verif/internal/pbt"
)

var rec = ev.New("C20")

// Case describes one YCbCr image layout and destination placement.
type Case struct {
	N       int    `json:"n"`     // 64 | 256
	Ratio   string `json:"ratio"` // 444 422 420 440 411 410
	OX      int    `json:"ox"`
	OY      int    `json:"oy"`
	PadL    int    `json:"pad_left"` // extra pixels of the parent image on each side (stride > width when > 0)
	PadT    int    `json:"pad_top"`
	PadR    int    `json:"pad_right"`
	PadB    int    `json:"pad_bottom"`
	Content string `json:"content"`
	Seed    uint32 `json:"seed"`
	DestOff int    `json:"dest_offset"` // 0 = 32-byte aligned destination; 1..7 = shifted by that many floats
}

func ratioOf(s string) image.YCbCrSubsampleRatio {
	switch s {
	case "422":
		return image.YCbCrSubsampleRatio422
	case "420":
		return image.YCbCrSubsampleRatio420
	case "440":
		return image.YCbCrSubsampleRatio440
	case "411":
		return image.YCbCrSubsampleRatio411
	case "410":
		return image.YCbCrSubsampleRatio410
	}
	return image.YCbCrSubsampleRatio444
}

func mix(seed uint32, a, b int) uint32 {
	h := seed ^ uint32(a)*0x85ebca6b ^ uint32(b)*0xc2b2ae35
	h ^= h >> 16
	h *= 0x7feb352d
	h ^= h >> 15
	h *= 0x846ca68b
	h ^= h >> 16
	return h
}

const guardBytes = 4096

// build makes the image. The visible pixels depend on (Content, Seed) only; everything
// else the planes' backing arrays contain - pixels of the parent image outside the visible
// rectangle and the filler before / after each plane - depends on variant.
func (c Case) build(variant uint32) *image.YCbCr {
	vis := image.Rect(c.OX, c.OY, c.OX+c.N, c.OY+c.N)
	full := image.Rect(vis.Min.X-c.PadL, vis.Min.Y-c.PadT, vis.Max.X+c.PadR, vis.Max.Y+c.PadB)
	m := image.NewYCbCr(full, ratioOf(c.Ratio))
	spec := imgen.Spec{Content: c.Content, Seed: c.Seed}
	for y := full.Min.Y; y < full.Max.Y; y++ {
		for x := full.Min.X; x < full.Max.X; x++ {
			h := mix(variant^0xabcdef, x, y)
			m.Y[m.YOffset(x, y)] = uint8(h)
			ci := m.COffset(x, y)
			m.Cb[ci], m.Cr[ci] = uint8(h>>8), uint8(h>>16)
		}
	}
	// visible pixels: luma per pixel; a chroma cell takes the colour of its first visible pixel
	// (cells that straddle the rectangle's edge belong to the image and carry visible colour)
	cellDone := map[int]bool{}
	for y := vis.Min.Y; y < vis.Max.Y; y++ {
		for x := vis.Min.X; x < vis.Max.X; x++ {
			r, g, b := spec.RGB(x-vis.Min.X, y-vis.Min.Y)
			m.Y[m.YOffset(x, y)] = r
			ci := m.COffset(x, y)
			if !cellDone[ci] {
				cellDone[ci] = true
				m.Cb[ci], m.Cr[ci] = g, b
			}
		}
	}
	sub := m.SubImage(vis).(*image.YCbCr)
	rehome := func(p []uint8, tag int) []uint8 {
		back := make([]uint8, guardBytes+len(p)+guardBytes)
		for i := range back {
			back[i] = uint8(mix(variant, i, tag) >> 8)
		}
		copy(back[guardBytes:], p)
		return back[guardBytes : guardBytes+len(p) : guardBytes+len(p)]
	}
	sub.Y, sub.Cb, sub.Cr = rehome(sub.Y, 1), rehome(sub.Cb, 2), rehome(sub.Cr, 3)
	return sub
}

const canaryFloats = 64

func canary32(i int) float32 { return math.Float32frombits(0x7fc00000 | uint32(0x2000+i)) }

// dest32 carves an n-float destination, 32-byte aligned plus off floats, out of a canary-filled array.
func dest32(n, off int) (d []float32, check func() string) {
	back := make([]float32, n+2*canaryFloats+16)
	for i := range back {
		back[i] = canary32(i)
	}
	start := canaryFloats
	for uintptr(unsafe.Pointer(&back[start]))%32 != 0 {
		start++
	}
	start += off
	d = back[start : start+n : start+n]
	return d, func() string {
		for i := range back {
			if (i < start || i >= start+n) && math.Float32bits(back[i]) != math.Float32bits(canary32(i)) {
				return fmt.Sprintf("guard word %+d floats from the destination changed to %08x", i-start, math.Float32bits(back[i]))
			}
		}
		return ""
	}
}

func dest64(n int) (d []float64, check func() string) {
	back := make([]float64, n+2*canaryFloats)
	for i := range back {
		back[i] = math.Float64frombits(0x7ff8000000000000 | uint64(0x3000+i))
	}
	d = back[canaryFloats : canaryFloats+n : canaryFloats+n]
	return d, func() string {
		for i := range back {
			if (i < canaryFloats || i >= canaryFloats+n) && math.Float64bits(back[i]) != 0x7ff8000000000000|uint64(0x3000+i) {
				return fmt.Sprintf("guard word %+d doubles from the destination changed", i-canaryFloats)
			}
		}
		return ""
	}
}

type conv struct {
	name string
	run  func(img *image.YCbCr, d []float32)
}

var convs = []conv{
	{"YCbCrToGray(platform)", func(img *image.YCbCr, d []float32) { transforms32.YCbCrToGray(img, d) }},
	{"AsmYCbCrToGray", func(img *image.YCbCr, d []float32) { transforms32.VerifYCbCrToGrayAsm(img, d) }},
	{"portable", func(img *image.YCbCr, d []float32) { transforms32.VerifYCbCrToGrayGo(img, d) }},
	{"ImageToGray", func(img *image.YCbCr, d []float32) { transforms32.ImageToGray(img, &d) }},
}

func layout(c Case) string {
	return fmt.Sprintf("%dx%d 4:%s origin (%d,%d) parent +%d/+%d/+%d/+%d dest+%d", c.N, c.N, c.Ratio, c.OX, c.OY, c.PadL, c.PadT, c.PadR, c.PadB, c.DestOff)
}

func eval(c Case) (f *pbt.Fail) {
	defer func() {
		if r := recover(); r != nil {
			f = pbt.Failf("panic", "conversion of a %s image panicked: %v\n%s", layout(c), r, debug.Stack())
		}
	}()
	n := c.N
	if n != 64 && n != 256 {
		return pbt.Failf("", "bad case: n = %d", n)
	}
	imgA, imgB := c.build(1), c.build(0x5eed)
	ref := imgen.Luma(imgA)
	refB := imgen.Luma(imgB)
	for i := range ref {
		if ref[i] != refB[i] {
			return pbt.Failf("", "harness: the two variants of the image do not have the same visible pixels (pixel %d)", i)
		}
	}
	for _, cv := range convs {
		dA, chkA := dest32(n*n, c.DestOff)
		cv.run(imgA, dA)
		if msg := chkA(); msg != "" {
			return pbt.Failf("write-oob:"+cv.name, "%s on a %s image wrote outside the destination: %s", cv.name, layout(c), msg)
		}
		for i, g := range dA {
			if d := math.Abs(float64(g) - ref[i]); !(d <= 2.0) {
				return pbt.Failf("value:"+cv.name, "%s on a %s image: pixel (%d,%d) converted to %.3f, the portable formula at that pixel's plane offsets gives %.3f (tolerance 2.0)", cv.name, layout(c), i%n, i/n, g, ref[i])
			}
		}
		dB, chkB := dest32(n*n, c.DestOff)
		cv.run(imgB, dB)
		if msg := chkB(); msg != "" {
			return pbt.Failf("write-oob:"+cv.name, "%s on a %s image wrote outside the destination: %s", cv.name, layout(c), msg)
		}
		for i := range dA {
			if math.Float32bits(dA[i]) != math.Float32bits(dB[i]) {
				return pbt.Failf("read-oob:"+cv.name, "%s on a %s image: pixel (%d,%d) is %.3f with one content outside the visible rectangle / around the planes and %.3f with another: the result depends on bytes outside the image", cv.name, layout(c), i%n, i/n, dA[i], dB[i])
			}
		}
	}
	// float64 conversion of the primary hash
	d64, chk64 := dest64(n * n)
	transforms.Rgb2GrayFast(imgA, &d64)
	if msg := chk64(); msg != "" {
		return pbt.Failf("write-oob:float64", "the float64 conversion on a %s image wrote outside the destination: %s", layout(c), msg)
	}
	for i, g := range d64 {
		if d := math.Abs(g - ref[i]); !(d <= 2.0) {
			return pbt.Failf("value:float64", "float64 conversion on a %s image: pixel (%d,%d) converted to %.3f, reference %.3f", layout(c), i%n, i/n, g, ref[i])
		}
	}
	// hashes: same luminance as a tightly packed 4:4:4 image at the origin => same hash up to bits at the threshold
	flat := image.NewYCbCr(image.Rect(0, 0, n, n), image.YCbCrSubsampleRatio444)
	b := imgA.Bounds()
	for y := 0; y < n; y++ {
		for x := 0; x < n; x++ {
			flat.Y[y*n+x] = imgA.Y[imgA.YOffset(b.Min.X+x, b.Min.Y+y)]
			flat.Cb[y*n+x] = imgA.Cb[imgA.COffset(b.Min.X+x, b.Min.Y+y)]
			flat.Cr[y*n+x] = imgA.Cr[imgA.COffset(b.Min.X+x, b.Min.Y+y)]
		}
	}
	k := 8
	if n == 256 {
		k = 16
	}
	l1 := 0.0
	for _, v := range ref {
		l1 += math.Abs(v)
	}
	t := 4e-5 * l1
	if n == 256 {
		t = 2e-4 * l1
	}
	coef := imgen.LowBlock(ref, n, k)
	sorted := append([]float64{}, coef...)
	sort.Float64s(sorted)
	mLo, mHi := sorted[k*k/2-1], sorted[k*k/2]
	hashOf := func(img image.Image) (p, a [4]uint64, err error) {
		if n == 64 {
			x, e1 := imagehash.NewPHash64(img)
			y, e2 := imagehash.NewPHash64Alt(img)
			if e1 != nil {
				return p, a, e1
			}
			return [4]uint64{uint64(x)}, [4]uint64{uint64(y)}, e2
		}
		x, e1 := imagehash.NewPHash256(img)
		y, e2 := imagehash.NewPHash256Alt(img)
		if e1 != nil {
			return p, a, e1
		}
		return x, y, e2
	}
	p1, a1, err1 := hashOf(imgA)
	p2, a2, err2 := hashOf(flat)
	if err1 != nil || err2 != nil {
		return pbt.Failf("hash-err", "hashing an accepted %s image failed: %v / %v", layout(c), err1, err2)
	}
	bit := func(h [4]uint64, i int) bool {
		if n == 64 {
			return h[0]>>(63-uint(i))&1 == 1
		}
		return h[i/64]>>(63-uint(i%64))&1 == 1
	}
	for name, pair := range map[string][2][4]uint64{"primary": {p1, p2}, "alternative": {a1, a2}} {
		for i, v := range coef {
			if bit(pair[0], i) != bit(pair[1], i) && !(v >= mLo-2*t && v <= mHi+2*t) {
				return pbt.Failf("hash:"+name, "%s hash of a %s image is %016x, the same luminance as a packed 4:4:4 image at the origin hashes to %016x (bit %d differs; its coefficient %.6g is not within 2 x %.3g of the median interval [%.6g, %.6g])",
					name, layout(c), pair[0], pair[1], i, v, t, mLo, mHi)
			}
		}
	}
	// the average hash reads the luminance of the first 8 x 8 pixels through At(): pixel for pixel the packed image at the
	// origin has the same Y, Cb and Cr, hence the same colours, hence exactly the same hash
	h1, e1 := imagehash.NewAHash(imgA)
	h2, e2 := imagehash.NewAHash(flat)
	if e1 != nil || e2 != nil || h1 != h2 {
		return pbt.Failf("ahash", "average hash of a %s image is %016x (err %v), the same pixels as a packed 4:4:4 image at the origin hash to %016x (err %v)", layout(c), uint64(h1), e1, uint64(h2), e2)
	}
	return nil
}

func nontrivial(c Case) bool {
	return c.Ratio != "444" || c.OX != 0 || c.OY != 0 || c.PadL+c.PadR+c.PadT+c.PadB > 0 || c.DestOff != 0
}

func genCase(rt *rapid.T) Case {
	c := Case{N: rapid.SampledFrom([]int{64, 64, 64, 64, 64, 256}).Draw(rt, "n"),
		Ratio:   rapid.SampledFrom([]string{"444", "422", "420", "440", "411", "410"}).Draw(rt, "ratio"),
		Content: rapid.SampledFrom([]string{"noise", "noise", "smooth", "extremes", "blocks", "stripes", "checker", "constant"}).Draw(rt, "content"),
		Seed:    rapid.Uint32().Draw(rt, "seed")}
	if rapid.Bool().Draw(rt, "moved") {
		c.OX = rapid.SampledFrom([]int{0, 0, 1, 2, 3, 4, 7, 8, 64, -1, -2, -3, -8, -64, 100, 1000}).Draw(rt, "ox")
		c.OY = rapid.SampledFrom([]int{0, 1, 2, 3, 5, 8, -1, -2, -7, -64, 33}).Draw(rt, "oy")
	}
	if c.Ratio != "444" && (c.OX < 0 || c.OY < 0) {
		// image.YCbCr's own COffset truncates towards zero, so subsampled images that reach into negative
		// coordinates are not representable by the standard library itself; they are not generated
		if c.OX < 0 {
			c.OX = -c.OX
		}
		if c.OY < 0 {
			c.OY = -c.OY
		}
	}
	if rapid.Bool().Draw(rt, "sub") {
		c.PadL = rapid.SampledFrom([]int{0, 1, 2, 3, 4, 8, 9}).Draw(rt, "pl")
		c.PadR = rapid.SampledFrom([]int{0, 1, 2, 3, 8, 24}).Draw(rt, "pr")
		c.PadT = rapid.SampledFrom([]int{0, 1, 2, 3}).Draw(rt, "pt")
		c.PadB = rapid.SampledFrom([]int{0, 1, 2, 5}).Draw(rt, "pb")
	}
	if c.Ratio != "444" {
		if c.OX-c.PadL < 0 {
			c.OX = c.PadL
		}
		if c.OY-c.PadT < 0 {
			c.OY = c.PadT
		}
	}
	if rapid.IntRange(0, 4).Draw(rt, "misalign") == 0 {
		c.DestOff = rapid.IntRange(1, 7).Draw(rt, "destoff")
	}
	nt := nontrivial(c)
	rec.Case(nt, ev.HashS(fmt.Sprint(c)), "ratio:"+c.Ratio, fmt.Sprintf("n:%d", c.N), fmt.Sprintf("moved:%v", c.OX != 0 || c.OY != 0), fmt.Sprintf("stride>width:%v", c.PadL+c.PadR > 0), fmt.Sprintf("dest-misaligned:%v", c.DestOff != 0), "content:"+c.Content)
	if nt {
		rec.Sample("layout:"+c.Ratio, c)
	}
	return c
}

var chk = pbt.Check[Case]{Name: "ycbcr-to-gray", Gen: genCase, Eval: eval}

func init() { pbt.Register(chk); pbt.CrashGuard = true }

func TestProp(t *testing.T) {
	defer rec.MustWrite()
	rec.Rule("accepted sizes (64x64, 256x256) x chroma subsampling {4:4:4, 4:2:2, 4:2:0, 4:4:0, 4:1:1, 4:1:0} x rectangle origin (0,0) / odd / negative / large x tight image or SubImage of a larger parent (YStride, CStride > width; different margins on the four sides) x seven content classes x destination 32-byte aligned or shifted by 1..7 floats; " +
		"every conversion entry (platform-selected YCbCrToGray, AsmYCbCrToGray, the portable routine, ImageToGray, the float64 Rgb2GrayFast). Oracles: |gray - reference| <= 2.0 per pixel where the reference evaluates the portable formula at YOffset/COffset of the pixel's image coordinates; NaN-payload guard words on both sides of the destination unchanged; " +
		"read containment by metamorphosis: the planes live inside larger arrays, and changing everything outside the visible pixels (parent pixels outside the rectangle, 4 KiB before and after each plane) must leave the destination bit-identical; primary and alternative hashes equal those of the same luminance packed as 4:4:4 at the origin up to bits within 2 tau of the median. " +
		"A fatal fault (SIGSEGV from a wild load/store) is attributed to the case in flight. non-trivial = any layout other than 4:4:4 / origin (0,0) / stride == width / aligned destination; distinct by case")
	rec.Assume("subsampled images never reach into negative coordinates: image.YCbCr.COffset truncates towards zero there, so the standard library itself cannot represent them (4:4:4 images are generated at negative origins)")
	rec.Assume("chroma cells that straddle the visible rectangle's edge carry the visible pixels' colour (a cell's value is part of the image)")
	rec.Extra("asm_available", transforms32.VerifAsmAvailable())
	pbt.RegressDir(t, rec)
	// every ratio x a fixed set of hostile layouts, deterministically
	idx := 0
	for _, n := range []int{64, 256} {
		for _, ratio := range []string{"444", "422", "420", "440", "411", "410"} {
			for _, lay := range []Case{{}, {OX: 1, OY: 1}, {OX: 0, OY: 8}, {OX: 8, OY: 0}, {OX: 3, OY: 2}, {OX: 1, OY: 1, PadL: 1, PadR: 2, PadT: 1, PadB: 1}, {OX: 8, OY: 0, PadL: 8, PadR: 8}, {DestOff: 1}, {OX: 64, OY: 64, PadL: 3, PadT: 2, PadR: 1, PadB: 0, DestOff: 4}} {
				idx++
				if idx%rec.Env.Shards != rec.Env.Shard || n == 256 && !rec.Env.Thorough() && idx%3 != 0 {
					continue
				}
				c := lay
				c.N, c.Ratio, c.Content, c.Seed = n, ratio, "noise", uint32(idx)*2654435761
				rec.Case(nontrivial(c), ev.HashS(fmt.Sprint(c)), "fixed-layouts")
				pbt.MarkInflight(rec, chk.Name, c)
				if f := eval(c); f != nil {
					if pbt.Report(t, rec, chk.Name, c, f) {
						return
					}
				}
			}
		}
	}
	pbt.Run(t, rec, chk, rec.Env.Pick(700, 40000), 1)
}

func TestReplay(t *testing.T) { pbt.Replay(t, rec) }
