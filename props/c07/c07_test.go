// C07 — byte order is transparent: the II and MM encodings of the same
// logical record and layout decode identically in every container.
package c07

import (
	"fmt"
	"strings"
	"testing"

	"pgregory.net/rapid"

	"verif/internal/ev"
	"verif/internal/exifcheck"
	"verif/internal/gen"
	"verif/internal/pbt"
)

var rec = ev.New("C07")

type Case struct {
	Rec    *gen.Record     `json:"rec"`
	Ctx    exifcheck.Ctx   `json:"ctx"`
	Embeds []gen.Embedding `json:"embeddings"`
	Order  string          `json:"block_order"`
}

func eval(c Case) *pbt.Fail {
	for _, em := range c.Embeds {
		for _, entry := range em.Entries {
			key := "container:" + em.Name
			a, errA, panA := exifcheck.Decode(entry, em.II)
			b, errB, panB := exifcheck.Decode(entry, em.MM)
			if panA != "" || panB != "" {
				return pbt.Failf(key, "%s via %s panicked: II %q MM %q", em.Name, entry, panA, panB)
			}
			if errA != nil || errB != nil {
				return pbt.Failf(key, "%s via %s returned errors on well-formed files: II %v, MM %v", em.Name, entry, errA, errB)
			}
			da, db := exifcheck.MaskedDigest(a), exifcheck.MaskedDigest(b)
			if da != db || a.ImageType != b.ImageType {
				return pbt.Failf(key, "%s via %s: little- and big-endian encodings decode differently: %s (image types %v / %v)", em.Name, entry, exifcheck.FirstDiff(da, db), a.ImageType, b.ImageType)
			}
			for i, e := range []struct {
				n string
				d []string
			}{{"II", exifcheck.Compare(a, c.Rec, c.Ctx)}, {"MM", exifcheck.Compare(b, c.Rec, c.Ctx)}} {
				_ = i
				if len(e.d) > 0 {
					return pbt.Failf(key, "%s/%s via %s: %s", em.Name, e.n, entry, strings.Join(e.d, "; "))
				}
			}
		}
	}
	return nil
}

func genWith(o gen.Options) func(rt *rapid.T) Case {
	return func(rt *rapid.T) Case {
		f := gen.GenExif(rt, o)
		c := Case{Rec: f.Rec, Ctx: exifcheck.CtxOf(f), Embeds: gen.Embed(rt, f), Order: f.Enc.BlockOrder}
		nt := f.EmbShort >= 1 && f.EmbASCII >= 1 && f.OutRational >= 1
		cls := append([]string{}, f.Classes...)
		cls = append(cls, fmt.Sprintf("embShort>=1:%v", f.EmbShort >= 1), fmt.Sprintf("embASCII>=1:%v", f.EmbASCII >= 1))
		rec.Case(nt, ev.Hash(f.Enc.II, f.Enc.MM, c.Embeds[1].II), cls...)
		if nt {
			rec.Sample("pair", map[string]any{"rec": f.Rec, "embedded_short": f.EmbShort, "embedded_ascii": f.EmbASCII, "out_of_line_rationals": f.OutRational, "len": len(f.Enc.II)})
		}
		return c
	}
}

var chk = pbt.Check[Case]{Name: "byte-order-transparent", Gen: genWith(gen.Options{Unbuffered: true, Split: true, MaxForeign: 4, Arrays: true, MistypedText: true}), Eval: eval}

func init() { pbt.Register(chk) }

func TestProp(t *testing.T) {
	defer rec.MustWrite()
	rec.Rule("the same (record, layout) of C03's generator encoded little- and big-endian, embedded with identical surroundings in TIFF, JPEG, PNG, CR3 (CMT1 and split CMT1/2/4) and HEIF; " +
		"covers every type that can sit in the 4-byte slot for the fields read embedded (1-3 character strings, SHORT/LONG dimensions, orientation, ISO, refs, sub-seconds, program/mode/metering/flash, BYTE altitude ref), and text tags written with a numeric type (SHORT x 1 / x 2, LONG in the slot, SHORT x 6 out of line: not text, the field stays empty in either byte order); " +
		"oracle: digest(II) == digest(MM) per container and entry point, and both equal the record. non-trivial = >= 1 embedded SHORT, >= 1 embedded ASCII and >= 1 out-of-line rational; distinct by (II bytes, MM bytes, JPEG embedding)")
	rec.Assume("same soundness exclusions as C03/C06 (signature-free HEIF prefix, JPEG payload <= 65000 bytes, forward layout)")
	pbt.RegressDir(t, rec)
	pbt.Run(t, rec, chk, rec.Env.Pick(1500, 50000), 1)
}

func TestReplay(t *testing.T) { pbt.Replay(t, rec) }
