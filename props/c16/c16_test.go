// C16 — value types survive text / JSON / MessagePack round trips; their
// parsers are total.
//
//	(i)   MessagePack: MarshalMsg -> UnmarshalMsg and EncodeMsg -> DecodeMsg are the
//	      identity for EVERY value, nothing is left over, len(encoded) <= Msgsize();
//	(ii)  text / JSON: documented members and numbers representable at the printed
//	      precision come back exactly; for every value v, if Unmarshal(Marshal(v))
//	      succeeds giving v' then Marshal(v') == Marshal(v); the receiver is pre-set
//	      to a different value (a decoder must overwrite);
//	(iii) hash Encode/Decode and UUID binary forms are the identity;
//	(iv)  every decoder that has an error result returns (never panics) on
//	      arbitrary and near-valid input.
package c16

import (
	"bytes"
	"encoding"
	"encoding/json"
	"fmt"
	"io"
	"math"
	"strings"
	"testing"

	"github.com/tinylib/msgp/msgp"
	"pgregory.net/rapid"

	"github.com/evanoberholster/imagemeta/imagehash"
	"github.com/evanoberholster/imagemeta/imagetype"
	"github.com/evanoberholster/imagemeta/meta"
	"github.com/evanoberholster/imagemeta/meta/canon"

	"verif/internal/ev"
	"verif/internal/pbt"
)

var rec = ev.New("C16")

// ---------------------------------------------------------------- helpers ----

type msgpPtr[T any] interface {
	*T
	msgp.Marshaler
	msgp.Unmarshaler
	msgp.Encodable
	msgp.Decodable
	msgp.Sizer
}

func guard(name string, f func() *pbt.Fail) (out *pbt.Fail) {
	defer func() {
		if r := recover(); r != nil {
			out = pbt.Failf("panic:"+name, "%s panicked: %v", name, r)
		}
	}()
	return f()
}

// msgpRT checks clause (i) for one value. same reports equality (NaN-aware for floats).
func msgpRT[T any, P msgpPtr[T]](name string, v, other T, same func(a, b T) bool) *pbt.Fail {
	return guard(name+" msgp", func() *pbt.Fail {
		src := v
		b, err := P(&src).MarshalMsg(nil)
		if err != nil {
			return pbt.Failf("msgp:"+name, "%s: MarshalMsg(%v) failed: %v", name, v, err)
		}
		if sz := P(&src).Msgsize(); len(b) > sz {
			return pbt.Failf("msgsize:"+name, "%s: encoding of %v takes %d bytes but Msgsize() promises at most %d", name, v, len(b), sz)
		}
		dst := other
		left, err := P(&dst).UnmarshalMsg(b)
		if err != nil || len(left) != 0 || !same(dst, v) {
			return pbt.Failf("msgp:"+name, "%s: UnmarshalMsg(MarshalMsg(%v)) = %v, leftover %d bytes, err %v", name, v, dst, len(left), err)
		}
		// with trailing bytes: they must be returned untouched
		left, err = P(&dst).UnmarshalMsg(append(append([]byte{}, b...), 0xc0, 0x01))
		if err != nil || !bytes.Equal(left, []byte{0xc0, 0x01}) || !same(dst, v) {
			return pbt.Failf("msgp:"+name, "%s: UnmarshalMsg with 2 trailing bytes: value %v, leftover %x, err %v", name, dst, left, err)
		}
		var buf bytes.Buffer
		w := msgp.NewWriter(&buf)
		if err := P(&src).EncodeMsg(w); err != nil {
			return pbt.Failf("msgp:"+name, "%s: EncodeMsg(%v) failed: %v", name, v, err)
		}
		_ = w.Flush()
		if !bytes.Equal(buf.Bytes(), b) {
			return pbt.Failf("msgp:"+name, "%s: EncodeMsg and MarshalMsg disagree on %v: %x vs %x", name, v, buf.Bytes(), b)
		}
		dst2 := other
		if err := P(&dst2).DecodeMsg(msgp.NewReader(bytes.NewReader(buf.Bytes()))); err != nil || !same(dst2, v) {
			return pbt.Failf("msgp:"+name, "%s: DecodeMsg(EncodeMsg(%v)) = %v, err %v", name, v, dst2, err)
		}
		// the stream decoder must not depend on how the source chunks its data: one byte per Read, and a small reader buffer
		dst3 := other
		if err := P(&dst3).DecodeMsg(msgp.NewReaderSize(oneByteReader{bytes.NewReader(buf.Bytes())}, 18)); err != nil || !same(dst3, v) {
			return pbt.Failf("msgp-stream:"+name, "%s: DecodeMsg(EncodeMsg(%v)) through a reader that delivers one byte per Read = %v, err %v", name, v, dst3, err)
		}
		return nil
	})
}

// oneByteReader delivers one byte per Read call.
type oneByteReader struct{ r io.Reader }

func (o oneByteReader) Read(p []byte) (int, error) {
	if len(p) == 0 {
		return 0, nil
	}
	return o.r.Read(p[:1])
}

type textPtr[T any] interface {
	*T
	UnmarshalText([]byte) error
	MarshalText() ([]byte, error)
}

// textRT checks clause (ii) for one value. member: the value must come back exactly.
func textRT[T any, P textPtr[T]](name string, v, other T, member bool, same func(a, b T) bool) *pbt.Fail {
	return guard(name+" text", func() *pbt.Fail {
		src := v
		tx, err := P(&src).MarshalText()
		if err != nil {
			return pbt.Failf("text:"+name, "%s: MarshalText(%v) failed: %v", name, v, err)
		}
		dst := other
		err = P(&dst).UnmarshalText(tx)
		if err != nil {
			// Marshal(Unmarshal(Marshal(v))) == Marshal(v) is stated for every v: the decoder reads what the encoder writes
			return pbt.Failf("text:"+name, "%s: UnmarshalText(%q), the text of value %v (documented member: %v), failed: %v", name, tx, v, member, err)
		}
		if member && !same(dst, v) {
			return pbt.Failf("text:"+name, "%s: UnmarshalText(MarshalText(%v) = %q) = %v (receiver was pre-set to %v)", name, v, tx, dst, other)
		}
		tx2, err := P(&dst).MarshalText()
		if err != nil || !bytes.Equal(tx2, tx) {
			return pbt.Failf("text-idem:"+name, "%s: %v marshals to %q, which decodes to %v, which marshals to %q (err %v); receiver pre-set to %v", name, v, tx, dst, tx2, err, other)
		}
		// through encoding/json as a struct field
		type wrap struct{ V T }
		jb, err := json.Marshal(wrap{v})
		if err != nil {
			if f, ok := any(v).(interface{ isFloat() }); ok {
				_ = f
			}
			return nil // json refuses NaN/Inf text etc.; nothing to round-trip
		}
		w := wrap{other}
		if err := json.Unmarshal(jb, &w); err != nil {
			return pbt.Failf("json:"+name, "%s: json.Unmarshal(%s), the output of json.Marshal for %v (documented member: %v), failed: %v", name, jb, v, member, err)
		}
		if member && !same(w.V, v) {
			return pbt.Failf("json:"+name, "%s: json round trip of %v via %s gave %v", name, v, jb, w.V)
		}
		jb2, err := json.Marshal(w)
		if err != nil || !bytes.Equal(jb, jb2) {
			return pbt.Failf("json-idem:"+name, "%s: json %s decodes to %v which encodes to %s (err %v)", name, jb, w.V, jb2, err)
		}
		return nil
	})
}

func eq[T comparable](a, b T) bool { return a == b }

func eqF32[T ~float32](a, b T) bool {
	return math.Float32bits(float32(a)) == math.Float32bits(float32(b)) || (a != a && b != b)
}

// ------------------------------------------------------------------ cases ----

// Case: Kind selects the oracle, Bits the value (raw bits), Text the decoder input.
type Case struct {
	Kind string    `json:"kind"`
	Bits uint64    `json:"bits,omitempty"`
	Hi   uint64    `json:"hi,omitempty"`
	W    [4]uint64 `json:"w,omitempty"`
	Text []byte    `json:"text,omitempty"`
}

var memberMetering = map[uint16]bool{0: true, 1: true, 2: true, 3: true, 4: true, 5: true, 6: true, 255: true}

// int16/uint16/uint8 typed kinds -> evaluation of one value
var intKinds = map[string]struct {
	bits int
	f    func(u uint64) *pbt.Fail
}{
	"imagetype.ImageType": {8, func(u uint64) *pbt.Fail {
		v, o := imagetype.ImageType(u), imagetype.ImageType(u+1)
		if f := msgpRT("imagetype.ImageType", v, o, eq[imagetype.ImageType]); f != nil {
			return f
		}
		return textRT("imagetype.ImageType", v, o, u <= 23, eq[imagetype.ImageType])
	}},
	"meta.ExposureBias": {16, func(u uint64) *pbt.Fail {
		v, o := meta.ExposureBias(int16(u)), meta.ExposureBias(int16(u)+0x0301)
		if f := msgpRT("meta.ExposureBias", v, o, eq[meta.ExposureBias]); f != nil {
			return f
		}
		return textRT("meta.ExposureBias", v, o, true, eq[meta.ExposureBias])
	}},
	"meta.MeteringMode": {16, func(u uint64) *pbt.Fail {
		v, o := meta.MeteringMode(u), meta.MeteringMode(u+1)
		if f := msgpRT("meta.MeteringMode", v, o, eq[meta.MeteringMode]); f != nil {
			return f
		}
		// encoding/json prefers MarshalJSON (a number) for this type; text is checked directly too
		if f := textRT("meta.MeteringMode", v, o, memberMetering[uint16(u)], eq[meta.MeteringMode]); f != nil {
			return f
		}
		return guard("meta.MeteringMode json", func() *pbt.Fail {
			jb, err := v.MarshalJSON()
			if err != nil {
				return pbt.Failf("json:meta.MeteringMode", "MarshalJSON(%d) failed: %v", u, err)
			}
			d := o
			if err := d.UnmarshalJSON(jb); err != nil {
				// (for every v: what the encoder writes, the decoder reads)
				return pbt.Failf("json:meta.MeteringMode", "UnmarshalJSON(%s), the output of MarshalJSON(%d), failed: %v", jb, u, err)
			}
			if jb2, _ := d.MarshalJSON(); !bytes.Equal(jb, jb2) || memberMetering[uint16(u)] && d != v {
				return pbt.Failf("json:meta.MeteringMode", "UnmarshalJSON(MarshalJSON(%d) = %s) = %d", u, jb, d)
			}
			return nil
		})
	}},
	"meta.ExposureMode": {16, func(u uint64) *pbt.Fail {
		v, o := meta.ExposureMode(u), meta.ExposureMode(u+1)
		if f := msgpRT("meta.ExposureMode", v, o, eq[meta.ExposureMode]); f != nil {
			return f
		}
		return textRT("meta.ExposureMode", v, o, u <= 2, eq[meta.ExposureMode])
	}},
	"meta.ExposureProgram": {16, func(u uint64) *pbt.Fail {
		v, o := meta.ExposureProgram(u), meta.ExposureProgram(u+1)
		if f := msgpRT("meta.ExposureProgram", v, o, eq[meta.ExposureProgram]); f != nil {
			return f
		}
		return textRT("meta.ExposureProgram", v, o, u <= 9, eq[meta.ExposureProgram])
	}},
	"meta.Flash": {16, func(u uint64) *pbt.Fail { return msgpRT("meta.Flash", meta.Flash(u), meta.Flash(u+1), eq[meta.Flash]) }},
	"meta.FlashMode": {8, func(u uint64) *pbt.Fail {
		return msgpRT("meta.FlashMode", meta.FlashMode(u), meta.FlashMode(u+1), eq[meta.FlashMode])
	}},
	"meta.Orientation": {16, func(u uint64) *pbt.Fail {
		return msgpRT("meta.Orientation", meta.Orientation(u), meta.Orientation(u+1), eq[meta.Orientation])
	}},
	"meta.Compression": {16, func(u uint64) *pbt.Fail {
		return msgpRT("meta.Compression", meta.Compression(u), meta.Compression(u+1), eq[meta.Compression])
	}},
	"canon.ContinuousDrive": {16, func(u uint64) *pbt.Fail {
		return msgpRT("canon.ContinuousDrive", canon.ContinuousDrive(int16(u)), canon.ContinuousDrive(int16(u)+1), eq[canon.ContinuousDrive])
	}},
	"canon.FocusMode": {16, func(u uint64) *pbt.Fail {
		return msgpRT("canon.FocusMode", canon.FocusMode(int16(u)), canon.FocusMode(int16(u)+1), eq[canon.FocusMode])
	}},
	"canon.MeteringMode": {16, func(u uint64) *pbt.Fail {
		return msgpRT("canon.MeteringMode", canon.MeteringMode(int16(u)), canon.MeteringMode(int16(u)+1), eq[canon.MeteringMode])
	}},
	"canon.FocusRange": {16, func(u uint64) *pbt.Fail {
		return msgpRT("canon.FocusRange", canon.FocusRange(int16(u)), canon.FocusRange(int16(u)+1), eq[canon.FocusRange])
	}},
	"canon.ExposureMode": {16, func(u uint64) *pbt.Fail {
		return msgpRT("canon.ExposureMode", canon.ExposureMode(int16(u)), canon.ExposureMode(int16(u)+1), eq[canon.ExposureMode])
	}},
	"canon.BracketMode": {16, func(u uint64) *pbt.Fail {
		return msgpRT("canon.BracketMode", canon.BracketMode(int16(u)), canon.BracketMode(int16(u)+1), eq[canon.BracketMode])
	}},
	"canon.AESetting": {16, func(u uint64) *pbt.Fail {
		return msgpRT("canon.AESetting", canon.AESetting(int16(u)), canon.AESetting(int16(u)+1), eq[canon.AESetting])
	}},
	"canon.AFAreaMode": {16, func(u uint64) *pbt.Fail {
		return msgpRT("canon.AFAreaMode", canon.AFAreaMode(int16(u)), canon.AFAreaMode(int16(u)+1), eq[canon.AFAreaMode])
	}},
}

func f32(u uint64) float32 { return math.Float32frombits(uint32(u)) }

func evalFloat(kind string, u uint64, member bool) *pbt.Fail {
	x := f32(u)
	y := f32(u ^ 0x00400001)
	switch kind {
	case "meta.Aperture":
		if f := msgpRT("meta.Aperture", meta.Aperture(x), meta.Aperture(y), eqF32[meta.Aperture]); f != nil {
			return f
		}
		return textRT("meta.Aperture", meta.Aperture(x), meta.Aperture(y), member, eqF32[meta.Aperture])
	case "meta.FocalLength":
		if f := msgpRT("meta.FocalLength", meta.FocalLength(x), meta.FocalLength(y), eqF32[meta.FocalLength]); f != nil {
			return f
		}
		return textRT("meta.FocalLength", meta.FocalLength(x), meta.FocalLength(y), member, eqF32[meta.FocalLength])
	case "meta.ExposureTime":
		if f := msgpRT("meta.ExposureTime", meta.ExposureTime(x), meta.ExposureTime(y), eqF32[meta.ExposureTime]); f != nil {
			return f
		}
		return guard("meta.ExposureTime text", func() *pbt.Fail {
			tx, err := meta.ExposureTime(x).MarshalText()
			if err != nil {
				return pbt.Failf("text:meta.ExposureTime", "MarshalText(%v) failed: %v", x, err)
			}
			if s := meta.ExposureTime(x).String(); s != string(tx) {
				return pbt.Failf("text:meta.ExposureTime", "String() %q differs from MarshalText() %q", s, tx)
			}
			// "1/n" exposure times print as 1/n exactly (the representable-at-printed-precision clause)
			if member {
				n := uint64(math.Round(1 / float64(x)))
				if want := fmt.Sprintf("1/%d", n); x < 1 && x > 0 && string(tx) != want {
					return pbt.Failf("text:meta.ExposureTime", "ExposureTime(1/%d).MarshalText() = %q, want %q", n, tx, want)
				}
			}
			// the type offers a serialised form, so it has to read it back (the Exif struct carries an ExposureTime: without
			// a decoder json.Unmarshal rejects what json.Marshal wrote)
			dst := meta.ExposureTime(y)
			dec, ok := any(&dst).(encoding.TextUnmarshaler)
			if !ok {
				return pbt.Failf("text:meta.ExposureTime:no-decoder", "meta.ExposureTime has MarshalText but no UnmarshalText: %q cannot be decoded", tx)
			}
			if err := dec.UnmarshalText(tx); err != nil {
				return pbt.Failf("text:meta.ExposureTime", "UnmarshalText(%q), the text of %v, failed: %v", tx, x, err)
			}
			if member && math.Float32bits(float32(dst)) != math.Float32bits(x) {
				return pbt.Failf("text:meta.ExposureTime", "UnmarshalText(MarshalText(%v) = %q) = %v", x, tx, float32(dst))
			}
			if tx2, err := dst.MarshalText(); err != nil || !bytes.Equal(tx, tx2) {
				return pbt.Failf("text-idem:meta.ExposureTime", "%v marshals to %q, which decodes to %v, which marshals to %q (err %v)", x, tx, float32(dst), tx2, err)
			}
			type wrap struct{ V meta.ExposureTime }
			if jb, err := json.Marshal(wrap{meta.ExposureTime(x)}); err == nil {
				w := wrap{meta.ExposureTime(y)}
				if err := json.Unmarshal(jb, &w); err != nil {
					return pbt.Failf("json:meta.ExposureTime", "json.Unmarshal(%s), the output of json.Marshal for %v, failed: %v", jb, x, err)
				}
				if member && math.Float32bits(float32(w.V)) != math.Float32bits(x) {
					return pbt.Failf("json:meta.ExposureTime", "json round trip of %v via %s gave %v", x, jb, float32(w.V))
				}
			}
			return nil
		})
	}
	return pbt.Failf("", "unknown float kind %s", kind)
}

func evalCase(c Case) *pbt.Fail {
	if k, ok := intKinds[c.Kind]; ok {
		return k.f(c.Bits)
	}
	switch c.Kind {
	case "meta.Aperture", "meta.FocalLength", "meta.ExposureTime":
		return evalFloat(c.Kind, c.Bits, c.Hi == 1)
	case "meta.Dimensions":
		v := meta.Dimensions{Width: uint32(c.Bits), Height: uint32(c.Bits >> 32)}
		return msgpRT("meta.Dimensions", v, meta.Dimensions{Width: 7, Height: 9}, eq[meta.Dimensions])
	case "canon.FocusDistance":
		v := canon.FocusDistance{int16(c.Bits), int16(c.Bits >> 16)}
		return msgpRT("canon.FocusDistance", v, canon.FocusDistance{-3, 3}, eq[canon.FocusDistance])
	case "imagehash.Ahash":
		return msgpRT("imagehash.Ahash", imagehash.Ahash(c.Bits), imagehash.Ahash(^c.Bits), eq[imagehash.Ahash])
	case "imagehash.PHash64":
		v := imagehash.PHash64(c.Bits)
		if f := msgpRT("imagehash.PHash64", v, ^v, eq[imagehash.PHash64]); f != nil {
			return f
		}
		return guard("PHash64 Encode/Decode", func() *pbt.Fail {
			buf := make([]byte, 12)
			v.Encode(buf[2:]) // sub-slice of a longer buffer
			d := ^v
			d.Decode(buf[2:10])
			if d != v || buf[0] != 0 || buf[1] != 0 || buf[10] != 0 || buf[11] != 0 {
				return pbt.Failf("hash:PHash64", "Decode(Encode(%v)) = %v (guard bytes %x %x)", v, d, buf[:2], buf[10:])
			}
			return nil
		})
	case "imagehash.PHash256":
		v := imagehash.PHash256(c.W)
		o := imagehash.PHash256{^c.W[0], c.W[1] + 1, c.W[2] ^ 5, 9}
		if f := msgpRT("imagehash.PHash256", v, o, eq[imagehash.PHash256]); f != nil {
			return f
		}
		return guard("PHash256 Encode/Decode", func() *pbt.Fail {
			buf := make([]byte, 36)
			v.Encode(buf[2:34])
			d := o
			d.Decode(buf[2:34])
			if d != v || buf[0] != 0 || buf[1] != 0 || buf[34] != 0 || buf[35] != 0 {
				return pbt.Failf("hash:PHash256", "Decode(Encode(%v)) = %v", v, d)
			}
			return nil
		})
	case "meta.UUID":
		return evalUUID(c)
	case "total":
		return evalTotal(c)
	}
	return pbt.Failf("", "unknown kind %q", c.Kind)
}

func evalUUID(c Case) *pbt.Fail {
	return guard("meta.UUID", func() *pbt.Fail {
		var u meta.UUID
		for i := 0; i < 8; i++ {
			u[i] = byte(c.Bits >> (8 * i))
			u[8+i] = byte(c.Hi >> (8 * i))
		}
		canonTx, err := u.MarshalText()
		if err != nil || len(canonTx) != 36 {
			return pbt.Failf("uuid", "MarshalText(%x) = %q, err %v", u[:], canonTx, err)
		}
		if want := fmt.Sprintf("%x-%x-%x-%x-%x", u[0:4], u[4:6], u[6:8], u[8:10], u[10:16]); string(canonTx) != want || u.String() != want {
			return pbt.Failf("uuid", "MarshalText(%x) = %q, String() = %q, want %q", u[:], canonTx, u.String(), want)
		}
		hashlike := strings.ReplaceAll(string(canonTx), "-", "")
		forms := []string{string(canonTx), hashlike, "{" + string(canonTx) + "}", "{" + hashlike + "}", "urn:uuid:" + string(canonTx), "urn:uuid:" + hashlike}
		for _, f := range forms {
			for _, tx := range []string{f, strings.ToUpper(f[len(f)-len(strings.TrimPrefix(f, "urn:uuid:")):])} {
				if strings.HasPrefix(f, "urn:uuid:") && tx != f {
					tx = "urn:uuid:" + tx
				}
				d := meta.UUID{1, 2, 3}
				if err := d.UnmarshalText([]byte(tx)); err != nil || d != u {
					return pbt.Failf("uuid", "UnmarshalText(%q) = %x, err %v; want %x", tx, d[:], err, u[:])
				}
				if meta.UUIDFromString(tx) != u {
					return pbt.Failf("uuid", "UUIDFromString(%q) = %x, want %x", tx, meta.UUIDFromString(tx), u[:])
				}
			}
		}
		b, err := u.MarshalBinary()
		d := meta.UUID{9}
		if err != nil || d.UnmarshalBinary(b) != nil || d != u {
			return pbt.Failf("uuid", "binary round trip of %x failed: %x, err %v", u[:], d[:], err)
		}
		if got, err := meta.UUIDFromBytes(u.Bytes()); err != nil || got != u {
			return pbt.Failf("uuid", "UUIDFromBytes(Bytes()) = %x, err %v", got[:], err)
		}
		type wrap struct{ V meta.UUID }
		jb, _ := json.Marshal(wrap{u})
		w := wrap{meta.UUID{7}}
		if err := json.Unmarshal(jb, &w); err != nil || w.V != u {
			return pbt.Failf("uuid", "json round trip of %x via %s gave %x, err %v", u[:], jb, w.V[:], err)
		}
		return nil
	})
}

// decoders with an error result (clause iv); Bits selects one
var decoders = []struct {
	name string
	f    func(b []byte)
}{
	{"imagetype.ImageType.UnmarshalText", func(b []byte) { var v imagetype.ImageType; _ = v.UnmarshalText(b) }},
	{"meta.FocalLength.UnmarshalText", func(b []byte) { var v meta.FocalLength; _ = v.UnmarshalText(b) }},
	{"meta.Aperture.UnmarshalText", func(b []byte) { var v meta.Aperture; _ = v.UnmarshalText(b) }},
	{"meta.Aperture.ParseString", func(b []byte) { var v meta.Aperture; _ = v.ParseString(b) }},
	{"meta.ExposureBias.UnmarshalText", func(b []byte) { var v meta.ExposureBias; _ = v.UnmarshalText(b) }},
	{"meta.MeteringMode.UnmarshalText", func(b []byte) { var v meta.MeteringMode; _ = v.UnmarshalText(b) }},
	{"meta.MeteringMode.UnmarshalJSON", func(b []byte) { var v meta.MeteringMode; _ = v.UnmarshalJSON(b) }},
	{"meta.ExposureMode.UnmarshalText", func(b []byte) { var v meta.ExposureMode; _ = v.UnmarshalText(b) }},
	{"meta.ExposureTime.UnmarshalText", func(b []byte) {
		var v meta.ExposureTime
		if d, ok := any(&v).(encoding.TextUnmarshaler); ok {
			_ = d.UnmarshalText(b)
		}
	}},
	{"meta.ExposureProgram.UnmarshalText", func(b []byte) { var v meta.ExposureProgram; _ = v.UnmarshalText(b) }},
	{"meta.UUID.UnmarshalText", func(b []byte) { var v meta.UUID; _ = v.UnmarshalText(b) }},
	{"meta.UUID.UnmarshalBinary", func(b []byte) { var v meta.UUID; _ = v.UnmarshalBinary(b) }},
	{"meta.UUIDFromBytes", func(b []byte) { _, _ = meta.UUIDFromBytes(b) }},
	{"meta.UUIDFromString", func(b []byte) { _ = meta.UUIDFromString(string(b)) }},
	{"json(meta types)", func(b []byte) {
		var v struct {
			A meta.Aperture
			F meta.FocalLength
			E meta.ExposureBias
			T meta.ExposureTime
			M meta.MeteringMode
			X meta.ExposureMode
			P meta.ExposureProgram
			U meta.UUID
			I imagetype.ImageType
		}
		_ = json.Unmarshal(b, &v)
	}},
	{"msgp meta.Aperture", func(b []byte) { var v meta.Aperture; msgpTotal(&v, b) }},
	{"msgp meta.ExposureBias", func(b []byte) { var v meta.ExposureBias; msgpTotal(&v, b) }},
	{"msgp meta.ExposureTime", func(b []byte) { var v meta.ExposureTime; msgpTotal(&v, b) }},
	{"msgp meta.FocalLength", func(b []byte) { var v meta.FocalLength; msgpTotal(&v, b) }},
	{"msgp meta.MeteringMode", func(b []byte) { var v meta.MeteringMode; msgpTotal(&v, b) }},
	{"msgp meta.Flash", func(b []byte) { var v meta.Flash; msgpTotal(&v, b) }},
	{"msgp meta.FlashMode", func(b []byte) { var v meta.FlashMode; msgpTotal(&v, b) }},
	{"msgp meta.Orientation", func(b []byte) { var v meta.Orientation; msgpTotal(&v, b) }},
	{"msgp meta.Compression", func(b []byte) { var v meta.Compression; msgpTotal(&v, b) }},
	{"msgp meta.ExposureMode", func(b []byte) { var v meta.ExposureMode; msgpTotal(&v, b) }},
	{"msgp meta.ExposureProgram", func(b []byte) { var v meta.ExposureProgram; msgpTotal(&v, b) }},
	{"msgp meta.Dimensions", func(b []byte) { var v meta.Dimensions; msgpTotal(&v, b) }},
	{"msgp imagetype.ImageType", func(b []byte) { var v imagetype.ImageType; msgpTotal(&v, b) }},
	{"msgp canon.FocusDistance", func(b []byte) { var v canon.FocusDistance; msgpTotal(&v, b) }},
	{"msgp canon.ContinuousDrive", func(b []byte) { var v canon.ContinuousDrive; msgpTotal(&v, b) }},
	{"msgp canon.AFAreaMode", func(b []byte) { var v canon.AFAreaMode; msgpTotal(&v, b) }},
	{"msgp imagehash.Ahash", func(b []byte) { var v imagehash.Ahash; msgpTotal(&v, b) }},
	{"msgp imagehash.PHash64", func(b []byte) { var v imagehash.PHash64; msgpTotal(&v, b) }},
	{"msgp imagehash.PHash256", func(b []byte) { var v imagehash.PHash256; msgpTotal(&v, b) }},
}

type msgpDec interface {
	msgp.Unmarshaler
	msgp.Decodable
}

func msgpTotal(v msgpDec, b []byte) {
	_, _ = v.UnmarshalMsg(b)
	if declaresHuge(b) {
		// the streaming reader of the msgp library allocates a declared bin32 / str32 / ext32 length before
		// reading it: a 10-byte input declaring 2.6 GB returns an error only after seconds of allocation.
		// That is slowness in a dependency, not a panic; such inputs go to UnmarshalMsg only.
		return
	}
	_ = v.DecodeMsg(msgp.NewReader(bytes.NewReader(b)))
}

// declaresHuge: does a 32-bit length prefix (bin32 c6, ext32 c9, str32 db, array32 dd, map32 df) declare more than 1 MiB?
func declaresHuge(b []byte) bool {
	for i := 0; i+5 <= len(b); i++ {
		switch b[i] {
		case 0xc6, 0xc9, 0xdb, 0xdd, 0xdf:
			if uint32(b[i+1])<<24|uint32(b[i+2])<<16|uint32(b[i+3])<<8|uint32(b[i+4]) > 1<<20 {
				return true
			}
		}
	}
	return false
}

func evalTotal(c Case) *pbt.Fail {
	d := decoders[int(c.Bits)%len(decoders)]
	return guard(d.name, func() *pbt.Fail { d.f(c.Text); return nil })
}

// ------------------------------------------------------------- generators ----

var nearValid = []string{"", "0", "1", "5", "m", "mm", "1mm", "12.5mm", ".mm", "mmm", "0/0", "0/", "/", "/0", "1/0", "10/0", "+", "-", "+1", "+1/", "+1/3", "-2/3", "-/3", "+/", "1/", "//", "1//2",
	"1.00", "NaN", "Inf", "-Inf", "1e400", "0x1p-2", "Unknown", "Average", "Auto", "Not Defined", "Bulb", "255", "256", "-1", "99999999999999999999", "null", "\"\"", "{}", "[]",
	"6ba7b810-9dad-11d1-80b4-00c04fd430c8", "{6ba7b810-9dad-11d1-80b4-00c04fd430c8}", "urn:uuid:6ba7b810-9dad-11d1-80b4-00c04fd430c8", "6ba7b8109dad11d180b400c04fd430c8",
	"{6ba7b8109dad11d180b400c04fd430c8}", "urn:uuid:6ba7b8109dad11d180b400c04fd430c8", "6ba7b810-9dad-11d1-80b4-00c04fd430cg", "6ba7b810+9dad-11d1-80b4-00c04fd430c8",
	"image/jpeg", ".jpg", "\xca\x3f\x80\x00\x00", "\xcd\x01\x00", "\xd1\xff\xff", "\x92\x01\x02", "\x82\xa5Width\x01\xa6Height\x02", "\x94\x01\x02\x03\x04", "\xcf\x00\x00\x00\x00\x00\x00\x00\x01", "\xc0", "\xc4\x10"}

// boundaryNums: numbers at the edges of every integer width a text parser could narrow to.
var boundaryNums = []string{"0", "1", "00", "007", "127", "128", "255", "256", "257", "32767", "32768", "65535", "65536", "65537", "131072", "196608", "1048576", "16777216", "2147483647", "2147483648",
	"4294967295", "4294967296", "4294967297", "8589934592", "281474976710656", "9223372036854775807", "9223372036854775808", "18446744073709551615", "18446744073709551616", "18446744073709617152", "340282366920938463463374607431768211456"}

func genText(rt *rapid.T) []byte {
	switch rapid.IntRange(0, 5).Draw(rt, "textmode") {
	case 5: // [sign] boundary [sep boundary] [unit]
		s := rapid.SampledFrom([]string{"", "", "+", "-"}).Draw(rt, "sign") + rapid.SampledFrom(boundaryNums).Draw(rt, "n")
		if sep := rapid.SampledFrom([]string{"/", "/", ".", "", "x", " "}).Draw(rt, "sep"); sep != "" {
			s += sep + rapid.SampledFrom(boundaryNums).Draw(rt, "d")
		}
		return []byte(s + rapid.SampledFrom([]string{"", "", "mm", "m", "s"}).Draw(rt, "unit"))
	case 0:
		return []byte(rapid.SampledFrom(nearValid).Draw(rt, "nv"))
	case 1: // prefix / suffix / one edit of a near-valid text
		s := []byte(rapid.SampledFrom(nearValid).Draw(rt, "nv"))
		if len(s) == 0 {
			return s
		}
		switch rapid.IntRange(0, 3).Draw(rt, "edit") {
		case 0:
			return s[:rapid.IntRange(0, len(s)).Draw(rt, "cut")]
		case 1:
			return s[rapid.IntRange(0, len(s)).Draw(rt, "from"):]
		case 2:
			s = append([]byte{}, s...)
			s[rapid.IntRange(0, len(s)-1).Draw(rt, "pos")] = rapid.Byte().Draw(rt, "val")
			return s
		default:
			return append(s, []byte(rapid.SampledFrom(nearValid).Draw(rt, "nv2"))...)
		}
	case 2:
		return []byte(rapid.StringMatching(`[-+]?[0-9]{0,4}[/.]?[0-9]{0,4}(mm)?`).Draw(rt, "numlike"))
	case 3: // msgp-ish: a type byte and a few bytes
		t := rapid.SampledFrom([]byte{0xc0, 0xc2, 0xc3, 0xca, 0xcb, 0xcc, 0xcd, 0xce, 0xcf, 0xd0, 0xd1, 0xd2, 0xd3, 0x90, 0x92, 0x94, 0x80, 0x82, 0xa5, 0xc4, 0xdc, 0xdd, 0xde, 0xd9, 0x7f, 0xff, 0xe0}).Draw(rt, "mt")
		return append([]byte{t}, rapid.SliceOfN(rapid.Byte(), 0, 40).Draw(rt, "mb")...)
	default:
		return rapid.SliceOfN(rapid.Byte(), 0, 64).Draw(rt, "bytes")
	}
}

var floatKinds = []string{"meta.Aperture", "meta.FocalLength", "meta.ExposureTime"}
var wideKinds = []string{"meta.Dimensions", "canon.FocusDistance", "imagehash.Ahash", "imagehash.PHash64", "imagehash.PHash256", "meta.UUID"}

func genCase(rt *rapid.T) Case {
	switch rapid.IntRange(0, 3).Draw(rt, "what") {
	case 0: // decoder totality
		c := Case{Kind: "total", Bits: uint64(rapid.IntRange(0, len(decoders)-1).Draw(rt, "decoder")), Text: genText(rt)}
		rec.Case(len(c.Text) > 0, ev.Hash([]byte(decoders[c.Bits].name), c.Text), "total:"+decoders[c.Bits].name)
		if len(c.Text) > 0 && len(c.Text) < 40 {
			rec.Sample("total", map[string]any{"decoder": decoders[c.Bits].name, "input": string(c.Text)})
		}
		return c
	case 1: // floats: representable-at-precision members and arbitrary bit patterns
		k := rapid.SampledFrom(floatKinds).Draw(rt, "fk")
		c := Case{Kind: k}
		switch rapid.IntRange(0, 2).Draw(rt, "fmode") {
		case 0: // k/100: representable at two decimals
			n := rapid.IntRange(0, 100000).Draw(rt, "hundredths")
			x := float32(float64(n) / 100)
			if k == "meta.ExposureTime" {
				x = float32(1 / float64(rapid.IntRange(2, 8000).Draw(rt, "denominator")))
			}
			c.Bits, c.Hi = uint64(math.Float32bits(x)), 1
		case 1:
			c.Bits = uint64(rapid.Uint32().Draw(rt, "f32bits"))
		default:
			c.Bits = uint64(math.Float32bits(rapid.SampledFrom([]float32{0, float32(math.Copysign(0, -1)), 1, -1, 0.5, 0.005, 0.995, 1.005, 1e-7, 3.4e38, float32(math.Inf(1)), float32(math.Inf(-1)), float32(math.NaN()), 1.0 / 3, 99.995, 1e9, 16777216, 4}).Draw(rt, "special")))
		}
		rec.Case(true, ev.HashS(k, fmt.Sprint(c.Bits, c.Hi)), "float:"+k)
		rec.Sample("float", map[string]any{"type": k, "value": f32(c.Bits), "representable_member": c.Hi == 1})
		return c
	case 2:
		k := rapid.SampledFrom(wideKinds).Draw(rt, "wk")
		c := Case{Kind: k, Bits: rapid.Uint64().Draw(rt, "lo"), Hi: rapid.Uint64().Draw(rt, "hi")}
		if rapid.Bool().Draw(rt, "edge") {
			e := []uint64{0, 1, 0xff, 0x100, 0xffff, 0x10000, 0xffffffff, 0x100000000, math.MaxUint64, 1 << 63, 0x7f, 0x80, 0x7fff, 0x8000}
			c.Bits, c.Hi = rapid.SampledFrom(e).Draw(rt, "elo"), rapid.SampledFrom(e).Draw(rt, "ehi")
		}
		c.W = [4]uint64{c.Bits, c.Hi, c.Bits ^ c.Hi, ^c.Bits}
		rec.Case(true, ev.HashS(k, fmt.Sprint(c.Bits, c.Hi)), "wide:"+k)
		rec.Sample("wide", map[string]any{"type": k, "lo": c.Bits, "hi": c.Hi})
		return c
	default: // random pick among the small integer kinds (also enumerated exhaustively)
		var names []string
		for n := range intKinds {
			names = append(names, n)
		}
		sortStrings(names)
		k := rapid.SampledFrom(names).Draw(rt, "ik")
		c := Case{Kind: k, Bits: uint64(rapid.Uint16().Draw(rt, "v"))}
		if intKinds[k].bits == 8 {
			c.Bits &= 0xff
		}
		rec.Case(false, 0, "int-random")
		return c
	}
}

func sortStrings(s []string) {
	for i := 1; i < len(s); i++ {
		for j := i; j > 0 && s[j] < s[j-1]; j-- {
			s[j], s[j-1] = s[j-1], s[j]
		}
	}
}

var chk = pbt.Check[Case]{Name: "value-types", Gen: genCase, Eval: evalCase}

func init() { pbt.Register(chk) }

func TestProp(t *testing.T) {
	defer rec.MustWrite()
	rec.Rule("exhaustive: every value of the 8/16-bit types (ImageType, all 2^16 ExposureBias encodings, MeteringMode, ExposureMode, ExposureProgram, Flash, FlashMode, Orientation, Compression, the eight Canon int16 enums) through MessagePack (Marshal/Unmarshal, Encode/Decode, leftover, Msgsize) and, where the type has them, text and JSON; every near-valid text through every decoder; " +
		"random: float32 types (k/100 and 1/n members, arbitrary bit patterns, specials), Dimensions, FocusDistance, Ahash/PHash64/PHash256 incl. Encode/Decode on sub-slices, UUID (6 text forms x case, binary, JSON), decoders on arbitrary / near-valid / MessagePack-like bytes. " +
		"oracles: identity for valid values, Marshal(Unmarshal(Marshal(v))) == Marshal(v) for every v whose text decodes, receivers pre-set to a different value, decoders return. " +
		"non-trivial = documented member / representable number / non-empty decoder input; distinct by (type, value or text)")
	rec.Assume("MessagePack inputs that declare a 32-bit length above 1 MiB are given to UnmarshalMsg only: the msgp library's streaming reader allocates the declared length up front (slow, but an error, not a panic)")
	rec.Assume("PHash64/PHash256.Decode(src) and Encode(dst) have no error result and, like encoding/binary, require len >= 8 / 32; they are exercised only within that precondition")
	rec.Assume("documented members: ImageType 0..23, MeteringMode {0..6,255}, ExposureMode 0..2, ExposureProgram 0..9, every ExposureBias encoding, floats that are k/100 (k <= 100000), exposure times 1/n (2 <= n <= 8000, the mechanical-shutter range; beyond n = 11745 float32 storage makes the printed denominator ambiguous) and k/100 s from 1 s up")
	pbt.RegressDir(t, rec)
	complete := true
	var names []string
	for n := range intKinds {
		names = append(names, n)
	}
	sortStrings(names)
	for i, n := range names {
		if i%rec.Env.Shards != rec.Env.Shard {
			continue
		}
		k := intKinds[n]
		bad := 0
		for u := uint64(0); u < 1<<uint(k.bits); u++ {
			member := n == "meta.ExposureBias" || n == "imagetype.ImageType" && u <= 23 || n == "meta.MeteringMode" && memberMetering[uint16(u)] || n == "meta.ExposureMode" && u <= 2 || n == "meta.ExposureProgram" && u <= 9 || u < 16 || u >= 1<<uint(k.bits)-2 || u == 0x7fff || u == 0x8000 || u == 0x7f || u == 0x80 || u == 0xff || u == 0x100
			if member {
				rec.Case(true, ev.HashS(n, fmt.Sprint(u)), "exhaustive:"+n)
			} else {
				rec.Eval(1)
				rec.Class("exhaustive:"+n, 1)
			}
			if f := k.f(u); f != nil {
				if pbt.Report(t, rec, chk.Name, Case{Kind: n, Bits: u}, f) {
					complete = false
					if bad++; bad >= 3 {
						break
					}
				}
			}
		}
	}
	if rec.Env.Shard == 0 {
		for di := range decoders {
			for _, tx := range nearValid {
				c := Case{Kind: "total", Bits: uint64(di), Text: []byte(tx)}
				rec.Case(tx != "", ev.Hash([]byte(decoders[di].name), []byte(tx)), "near-valid-all")
				if f := evalTotal(c); f != nil {
					if pbt.Report(t, rec, chk.Name, c, f) {
						complete = false
					}
				}
			}
		}
	}
	rec.Exhaustive(complete)
	if t.Failed() {
		return
	}
	pbt.Run(t, rec, chk, rec.Env.Pick(50000, 2000000), 1)
}

func TestReplay(t *testing.T) { pbt.Replay(t, rec) }

// FuzzUnmarshal: native coverage-guided totality search (thorough tier).
func FuzzUnmarshal(f *testing.F) {
	for i := range decoders {
		for _, tx := range nearValid {
			f.Add(byte(i), []byte(tx))
		}
	}
	f.Fuzz(func(t *testing.T, sel byte, data []byte) {
		if fl := evalTotal(Case{Kind: "total", Bits: uint64(sel), Text: data}); fl != nil {
			if pbt.Filter(rec, fl) != nil {
				t.Fatalf("%s", fl.Msg)
			}
		}
	})
}
