// C17 — every enum / identifier value formats without panicking; documented
// values map to their documented names, every other value to the fallback.
//
// The domain of every type is finite and enumerated completely (2^8 / 2^16
// values, signed types over their whole range, tag.ID x IfdType, CameraModel
// over the make ranges). Three oracles per value:
//
//	(1) String()/TagName()/Extension() returns (a recovered panic is a violation);
//	(2) a documented value gives the name in a table written in this file from the
//	    type's doc comment / the specification the source cites (tables.go);
//	(3) the complete value->name relation equals the pinned snapshot in
//	    testdata/golden.json (a regression oracle: it detects any change of any
//	    row or of the fallback, it cannot detect errors that predate it - those
//	    are what (2) is for).
//
// plus the parse round trips the property names (image types, XMP namespaces).
package c17

import (
	"encoding/json"
	"fmt"
	"os"
	"sort"
	"strconv"
	"strings"
	"testing"

	"pgregory.net/rapid"

	"github.com/evanoberholster/imagemeta/exif2/ifds"
	"github.com/evanoberholster/imagemeta/exif2/ifds/exififd"
	"github.com/evanoberholster/imagemeta/exif2/ifds/gpsifd"
	"github.com/evanoberholster/imagemeta/exif2/ifds/mknote/apple"
	mkcanon "github.com/evanoberholster/imagemeta/exif2/ifds/mknote/canon"
	"github.com/evanoberholster/imagemeta/exif2/ifds/mknote/nikon"
	"github.com/evanoberholster/imagemeta/exif2/ifds/mknote/sony"
	"github.com/evanoberholster/imagemeta/exif2/tag"
	"github.com/evanoberholster/imagemeta/imagetype"
	"github.com/evanoberholster/imagemeta/isobmff"
	"github.com/evanoberholster/imagemeta/meta"
	"github.com/evanoberholster/imagemeta/meta/canon"
	"github.com/evanoberholster/imagemeta/meta/utils"
	"github.com/evanoberholster/imagemeta/xmp/xmpns"

	"verif/internal/ev"
	"verif/internal/pbt"
)

var rec = ev.New("C17")

// enum is one stringer over an integer domain.
type enum struct {
	Name   string
	Lo, Hi int64
	Str    func(v int64) string
	Doc    map[int64]string // independent table (tables.go); nil = none
	// DocFallback, when set, is the fallback the type documents for values outside Doc
	// (asserted only for values that are not pinned members either).
	DocFallback *string
}

func sp(s string) *string { return &s }

var enums = []enum{
	{Name: "imagetype.ImageType.String", Lo: 0, Hi: 255, Str: func(v int64) string { return imagetype.ImageType(v).String() }, Doc: docImageType, DocFallback: sp("application/octet-stream")},
	{Name: "imagetype.ImageType.Extension", Lo: 0, Hi: 255, Str: func(v int64) string { return imagetype.ImageType(v).Extension() }, Doc: docImageExt},
	{Name: "ifds.IfdType.String", Lo: 0, Hi: 255, Str: func(v int64) string { return ifds.IfdType(v).String() }},
	{Name: "tag.Type.String", Lo: 0, Hi: 255, Str: func(v int64) string { return tag.Type(v).String() }, Doc: docTagType, DocFallback: sp("Unknown")},
	{Name: "tag.ID.String", Lo: 0, Hi: 65535, Str: func(v int64) string { return tag.ID(v).String() }},
	{Name: "ifds.CameraMake.String", Lo: 0, Hi: 65535, Str: func(v int64) string { return ifds.CameraMake(v).String() }, Doc: docCameraMake, DocFallback: sp("")},
	{Name: "meta.MeteringMode.String", Lo: 0, Hi: 65535, Str: func(v int64) string { return meta.MeteringMode(v).String() }, Doc: docMeteringMode, DocFallback: sp("Unknown")},
	{Name: "meta.ExposureMode.String", Lo: 0, Hi: 65535, Str: func(v int64) string { return meta.ExposureMode(v).String() }, Doc: docExposureMode, DocFallback: sp("Unknown")},
	{Name: "meta.ExposureProgram.String", Lo: 0, Hi: 65535, Str: func(v int64) string { return meta.ExposureProgram(v).String() }, Doc: docExposureProgram, DocFallback: sp("Not Defined")},
	{Name: "meta.Flash.String", Lo: 0, Hi: 65535, Str: func(v int64) string { return meta.Flash(v).String() }, Doc: docFlash},
	{Name: "meta.Orientation.String", Lo: 0, Hi: 65535, Str: func(v int64) string { return meta.Orientation(v).String() }, Doc: docOrientation, DocFallback: sp("Unknown")},
	{Name: "meta.Compression.String", Lo: 0, Hi: 65535, Str: func(v int64) string { return meta.Compression(v).String() }, Doc: docCompression},
	{Name: "meta.ExposureBias.String", Lo: -32768, Hi: 32767, Str: func(v int64) string { return meta.ExposureBias(v).String() }},
	{Name: "canon.ContinuousDrive.String", Lo: -32768, Hi: 32767, Str: func(v int64) string { return canon.ContinuousDrive(v).String() }, Doc: docCanonContinuousDrive, DocFallback: sp("Unknown")},
	{Name: "canon.FocusMode.String", Lo: -32768, Hi: 32767, Str: func(v int64) string { return canon.FocusMode(v).String() }, Doc: docCanonFocusMode, DocFallback: sp("Unknown")},
	{Name: "canon.MeteringMode.String", Lo: -32768, Hi: 32767, Str: func(v int64) string { return canon.MeteringMode(v).String() }, Doc: docCanonMeteringMode},
	{Name: "canon.FocusRange.String", Lo: -32768, Hi: 32767, Str: func(v int64) string { return canon.FocusRange(v).String() }, Doc: docCanonFocusRange},
	{Name: "canon.ExposureMode.String", Lo: -32768, Hi: 32767, Str: func(v int64) string { return canon.ExposureMode(v).String() }, Doc: docCanonExposureMode},
	{Name: "canon.BracketMode.String", Lo: -32768, Hi: 32767, Str: func(v int64) string { return canon.BracketMode(v).String() }, Doc: docCanonBracketMode},
	{Name: "canon.AESetting.String", Lo: -32768, Hi: 32767, Str: func(v int64) string { return canon.AESetting(v).String() }, Doc: docCanonAESetting},
	{Name: "canon.AFAreaMode.String", Lo: -32768, Hi: 32767, Str: func(v int64) string { return canon.AFAreaMode(v).String() }, Doc: docCanonAFAreaMode},
	{Name: "xmpns.Namespace.String", Lo: 0, Hi: 255, Str: func(v int64) string { return xmpns.Namespace(v).String() }, Doc: docNamespace},
	{Name: "xmpns.Name.String", Lo: 0, Hi: 255, Str: func(v int64) string { return xmpns.Name(v).String() }},
	{Name: "xmpns.Property.String", Lo: 0, Hi: 65535, Str: func(v int64) string { return xmpns.Property{uint8(v >> 8), uint8(v)}.String() }},
	{Name: "isobmff.Brand.String", Lo: 0, Hi: 255, Str: func(v int64) string { return isobmff.Brand(v).String() }, Doc: docBrand, DocFallback: sp("nnnn")},
	{Name: "utils.ByteOrder.String", Lo: -128, Hi: 127, Str: func(v int64) string { return utils.ByteOrder(v).String() }, Doc: map[int64]string{1: "LittleEndian", 2: "BigEndian"}, DocFallback: sp("UnknownEndian")},
	// CameraModel: the four make ranges and everything around them, completely
	{Name: "ifds.CameraModel.String", Lo: 0, Hi: 0x50000 + 4096, Str: func(v int64) string { return ifds.CameraModel(v).String() }, DocFallback: sp("")},
	{Name: "mknote/canon.CameraModel.String", Lo: 0x10000 - 4096, Hi: 0x10000 + 8192, Str: func(v int64) string { return mkcanon.CameraModel(v).String() }, Doc: docCanonModels, DocFallback: sp("")},
	{Name: "mknote/apple.CameraModel.String", Lo: 0x20000 - 4096, Hi: 0x20000 + 8192, Str: func(v int64) string { return apple.CameraModel(v).String() }, DocFallback: sp("")},
	{Name: "mknote/nikon.CameraModel.String", Lo: 0x30000 - 4096, Hi: 0x30000 + 8192, Str: func(v int64) string { return nikon.CameraModel(v).String() }, DocFallback: sp("")},
	{Name: "mknote/sony.CameraModel.String", Lo: 0x40000 - 4096, Hi: 0x40000 + 8192, Str: func(v int64) string { return sony.CameraModel(v).String() }, DocFallback: sp("")},
}

// ifd types whose TagName is enumerated over all 2^16 ids
func tagNameIfds(thorough bool) []int {
	n := 32
	if thorough {
		n = 256
	}
	var out []int
	for i := 0; i < n; i++ {
		out = append(out, i)
	}
	if !thorough {
		out = append(out, 127, 128, 254, 255)
	}
	return out
}

// ---------------------------------------------------------------- golden ----

type goldenEnum struct {
	Fallback string            `json:"fallback"` // the most frequent result = what non-members get
	Entries  map[string]string `json:"entries"`  // value -> name for every value whose result differs from Fallback
}

type golden struct {
	Note     string                           `json:"note"`
	Enums    map[string]goldenEnum            `json:"enums"`
	TagNames map[string]map[string]string     `json:"tag_names"` // ifd type -> id (hex) -> name, for every name that is not the hex id
	Parse    map[string]map[string]string     `json:"parse"`     // parser -> text -> value (pinned FromString results for member names)
	_        map[string]map[string]goldenEnum // reserved
}

func call(f func(int64) string, v int64) (s string, pan string) {
	defer func() {
		if r := recover(); r != nil {
			pan = fmt.Sprint(r)
		}
	}()
	return f(v), ""
}

func snapshot(e enum) goldenEnum {
	freq := map[string]int{}
	res := map[int64]string{}
	for v := e.Lo; v <= e.Hi; v++ {
		s, pan := call(e.Str, v)
		if pan != "" {
			s = "<panic>"
		}
		res[v] = s
		freq[s]++
	}
	best, bn := "", -1
	for s, n := range freq {
		if n > bn || n == bn && s < best {
			best, bn = s, n
		}
	}
	g := goldenEnum{Fallback: best, Entries: map[string]string{}}
	if e.Name == "tag.ID.String" || e.Name == "meta.ExposureBias.String" || e.Name == "xmpns.Property.String" {
		return goldenEnum{Fallback: "<formula>"} // every value distinct: checked by formula below, not pinned
	}
	for v, s := range res {
		if s != best {
			g.Entries[strconv.FormatInt(v, 10)] = s
		}
	}
	return g
}

func goldenPath() string { return "testdata/golden.json" }

func loadGolden() (*golden, error) {
	b, err := os.ReadFile(goldenPath())
	if err != nil {
		return nil, err
	}
	var g golden
	return &g, json.Unmarshal(b, &g)
}

// TestWriteGolden regenerates the pinned snapshot (maintenance only:
// VERIF_GOLDEN_WRITE=1 go test -tags verif -run TestWriteGolden ./props/c17).
func TestWriteGolden(t *testing.T) {
	if os.Getenv("VERIF_GOLDEN_WRITE") == "" {
		t.Skip("maintenance only")
	}
	g := golden{Note: "Pinned value->name relation of every stringer, generated from the library at the commit recorded in DESIGN.md (C17). Regression oracle only.",
		Enums: map[string]goldenEnum{}, TagNames: map[string]map[string]string{}, Parse: map[string]map[string]string{}}
	for _, e := range enums {
		g.Enums[e.Name] = snapshot(e)
	}
	for it := 0; it < 256; it++ {
		m := map[string]string{}
		for id := 0; id < 65536; id++ {
			s := ifds.IfdType(it).TagName(tag.ID(id))
			if s != fmt.Sprintf("0x%04x", id) {
				m[fmt.Sprintf("%04x", id)] = s
			}
		}
		if len(m) > 0 {
			g.TagNames[strconv.Itoa(it)] = m
		}
	}
	g.Parse = parseSnapshot()
	b, _ := json.MarshalIndent(g, "", " ")
	_ = os.MkdirAll("testdata", 0o755)
	if err := os.WriteFile(goldenPath(), b, 0o644); err != nil {
		t.Fatal(err)
	}
}

// parseSnapshot pins the FromString family on every member name and on a few non-names.
func parseSnapshot() map[string]map[string]string {
	out := map[string]map[string]string{}
	add := func(parser, text, val string) {
		if out[parser] == nil {
			out[parser] = map[string]string{}
		}
		out[parser][text] = val
	}
	texts := []string{"", "Unknown", "unknown", "Canon ", "canon", "CANON", "NIKON", "Nikon ", "iPhone", "x", "image/jpeg ", ".JPG", "jpg", "JPEG", ".tif", ".jpeg", "Xmp", "xmp:"}
	for v := 0; v <= 0xffff; v++ {
		if s := ifds.CameraMake(v).String(); s != "" {
			texts = append(texts, s)
		}
	}
	for k := range docCameraMakeSpellings {
		texts = append(texts, k)
	}
	for v := 0x10000; v < 0x50000; v++ {
		if s := ifds.CameraModel(v).String(); s != "" {
			texts = append(texts, s)
		}
	}
	for v := 0; v < 256; v++ {
		texts = append(texts, imagetype.ImageType(v).String(), "."+imagetype.ImageType(v).Extension(), xmpns.Namespace(v).String(), xmpns.Name(v).String())
	}
	for _, tx := range texts {
		cm, ok := ifds.CameraMakeFromString(tx)
		add("ifds.CameraMakeFromString", tx, fmt.Sprintf("%d,%v", cm, ok))
		c1, ok := mkcanon.CameraModelFromString(tx)
		add("mknote/canon.CameraModelFromString", tx, fmt.Sprintf("%d,%v", c1, ok))
		c2, ok := apple.CameraModelFromString(tx)
		add("mknote/apple.CameraModelFromString", tx, fmt.Sprintf("%d,%v", c2, ok))
		c3, ok := nikon.CameraModelFromString(tx)
		add("mknote/nikon.CameraModelFromString", tx, fmt.Sprintf("%d,%v", c3, ok))
		c4, ok := sony.CameraModelFromString(tx)
		add("mknote/sony.CameraModelFromString", tx, fmt.Sprintf("%d,%v", c4, ok))
		add("imagetype.FromString", tx, fmt.Sprintf("%d", imagetype.FromString(tx)))
		add("xmpns.IdentifyNamespace", tx, fmt.Sprintf("%d", xmpns.IdentifyNamespace([]byte(tx))))
		add("xmpns.IdentifyName", tx, fmt.Sprintf("%d", xmpns.IdentifyName([]byte(tx))))
	}
	return out
}

// ------------------------------------------------------------------ check ----

// Case is one (stringer, value) evaluation, replayable.
type Case struct {
	Enum  string `json:"enum"`            // enums[].Name, or "TagName"
	Value int64  `json:"value"`           // the value; for TagName: ifdType<<16 | id
	Text  string `json:"text,omitempty"`  // for parse cases
	Parse string `json:"parse,omitempty"` // parser name for parse cases
}

var enumByName = map[string]*enum{}
var gold *golden

func init() {
	for i := range enums {
		enumByName[enums[i].Name] = &enums[i]
	}
}

func boundary(e *enum, v int64) bool {
	if v == e.Lo || v == e.Hi || v == -1 || v == 0 {
		return true
	}
	if _, ok := e.Doc[v-1]; ok {
		return true
	}
	if _, ok := e.Doc[v+1]; ok {
		return true
	}
	return false
}

// retention: a returned name is a value; later calls must not rewrite it. The last
// results are kept together with a private copy taken at return time and re-compared
// after every later call (a stringer that formats into shared storage fails here).
type kept struct{ got, copyAtReturn, what string }

var ring [64]kept
var ringN int

func retain(got, what string) *pbt.Fail {
	for i := range ring {
		if k := &ring[i]; k.what != "" && k.got != k.copyAtReturn {
			f := pbt.Failf("retained", "the string returned earlier by %s read %q when it was returned and reads %q after a later call (%s): results share storage", k.what, k.copyAtReturn, k.got, what)
			ring = [64]kept{}
			return f
		}
	}
	ring[ringN%len(ring)] = kept{got, strings.Clone(got), what}
	ringN++
	return nil
}

func evalEnum(e *enum, v int64) *pbt.Fail {
	got, pan := call(e.Str, v)
	if pan != "" {
		return pbt.Failf("panic:"+e.Name, "%s on value %d panicked: %s", e.Name, v, pan)
	}
	if f := retain(got, fmt.Sprintf("%s(%d)", e.Name, v)); f != nil {
		return f
	}
	if want, ok := e.Doc[v]; ok && got != want {
		return pbt.Failf(fmt.Sprintf("doc:%s:%d", e.Name, v), "%s on documented value %d returned %q, documented name is %q", e.Name, v, got, want)
	}
	var pinnedMember bool
	if gold != nil {
		g, ok := gold.Enums[e.Name]
		if ok && g.Fallback != "<formula>" {
			want, member := g.Entries[strconv.FormatInt(v, 10)]
			pinnedMember = member
			if !member {
				want = g.Fallback
			}
			if got != want {
				return pbt.Failf(fmt.Sprintf("pinned:%s:%d", e.Name, v), "%s on value %d returned %q, the pinned relation (testdata/golden.json) says %q", e.Name, v, got, want)
			}
		}
	}
	if _, documented := e.Doc[v]; !documented && !pinnedMember && e.DocFallback != nil && gold != nil {
		if g := gold.Enums[e.Name]; g.Fallback != "<formula>" && got != *e.DocFallback {
			return pbt.Failf(fmt.Sprintf("fallback:%s", e.Name), "%s on undocumented value %d returned %q, the documented fallback is %q", e.Name, v, got, *e.DocFallback)
		}
	}
	// formulas for the stringers whose every value is distinct
	switch e.Name {
	case "tag.ID.String":
		if want := fmt.Sprintf("0x%04x", v); got != want {
			return pbt.Failf("formula:"+e.Name, "tag.ID(%d).String() = %q, want %q", v, got, want)
		}
	case "xmpns.Property.String":
		if want := xmpns.Namespace(v>>8).String() + ":" + xmpns.Name(v&0xff).String(); got != want {
			return pbt.Failf("formula:"+e.Name, "Property{%d,%d}.String() = %q, want namespace:name = %q", v>>8, v&0xff, got, want)
		}
	case "meta.ExposureBias.String":
		if want := expBiasText(int16(v)); got != want {
			return pbt.Failf("formula:"+e.Name, "ExposureBias(%d).String() = %q, want %q (sign, numerator = value>>8, denominator = low byte)", v, got, want)
		}
	case "imagetype.ImageType.String":
		if _, ok := e.Doc[v]; ok && imagetype.FromString(got) != imagetype.ImageType(v) {
			return pbt.Failf("roundtrip:imagetype", "FromString(%q) = %v, want the image type %d that has this name", got, imagetype.FromString(got), v)
		}
	case "imagetype.ImageType.Extension":
		if _, ok := e.Doc[v]; ok && imagetype.FromString("."+got) != imagetype.ImageType(v) {
			return pbt.Failf("roundtrip:imagetype-ext", "FromString(%q) = %v, want the image type %d that has this extension", "."+got, imagetype.FromString("."+got), v)
		}
	case "xmpns.Namespace.String":
		if _, ok := e.Doc[v]; ok && xmpns.IdentifyNamespace([]byte(got)) != xmpns.Namespace(v) {
			return pbt.Failf("roundtrip:namespace", "IdentifyNamespace(%q) = %d, want %d", got, xmpns.IdentifyNamespace([]byte(got)), v)
		}
	}
	return nil
}

// expBiasText is the documented text form of the packed exposure bias: "0/0" for zero,
// otherwise sign ('+' for positive, '-' from the number), numerator = value>>8, '/', denominator = low byte.
func expBiasText(v int16) string {
	if v == 0 {
		return "0/0"
	}
	s := ""
	if v > 0 {
		s = "+"
	}
	return s + strconv.Itoa(int(v>>8)) + "/" + strconv.Itoa(int(uint16(v)&0xff))
}

var directLookups = map[string]struct {
	it int
	f  func(tag.ID) string
}{"ifds.TagString": {int(ifds.IFD0), ifds.TagString}, "exififd.TagString": {int(ifds.ExifIFD), exififd.TagString}, "gpsifd.TagString": {int(ifds.GPSIFD), gpsifd.TagString},
	"canon.TagCanonString": {int(ifds.MkNoteCanonIFD), mkcanon.TagCanonString}, "nikon.TagNikonString": {int(ifds.MkNoteNikonIFD), nikon.TagNikonString},
	"apple.TagAppleString": {int(ifds.MkNoteAppleIFD), apple.TagAppleString}, "sony.TagSonyString": {int(ifds.MkNoteSonyIFD), sony.TagSonyString}}

// evalDirect calls one of the exported lookups behind TagName directly (value = id, for TagSubIfdString ifdType<<16 | id).
func evalDirect(name string, value int64) (fail *pbt.Fail) {
	id := tag.ID(value & 0xffff)
	defer func() {
		if r := recover(); r != nil {
			fail = pbt.Failf("panic:"+name, "%s on value 0x%x panicked: %v", name, value, r)
		}
	}()
	if name == "TagSubIfdString" {
		it := ifds.IfdType(value >> 16)
		got := ifds.TagSubIfdString(id, it)
		if it >= ifds.SubIfd0 && it <= ifds.SubIfd7 && got != it.TagName(id) {
			return pbt.Failf("direct:TagSubIfdString", "TagSubIfdString(0x%04x, %d) = %q, TagName gives %q", id, it, got, it.TagName(id))
		}
		return nil
	}
	d, ok := directLookups[name]
	if !ok {
		return pbt.Failf("", "unknown lookup %q", name)
	}
	if got, want := d.f(id), ifds.IfdType(d.it).TagName(id); got != want {
		return pbt.Failf("direct:"+name, "%s(0x%04x) = %q, IfdType(%d).TagName gives %q", name, id, got, d.it, want)
	}
	return nil
}

func evalTagName(it int, id int) *pbt.Fail {
	var got string
	var pan string
	func() {
		defer func() {
			if r := recover(); r != nil {
				pan = fmt.Sprint(r)
			}
		}()
		got = ifds.IfdType(it).TagName(tag.ID(id))
	}()
	if pan != "" {
		return pbt.Failf("panic:TagName", "IfdType(%d).TagName(0x%04x) panicked: %s", it, id, pan)
	}
	if f := retain(got, fmt.Sprintf("IfdType(%d).TagName(0x%04x)", it, id)); f != nil {
		return f
	}
	if m, ok := docTagNames[it]; ok {
		if want, ok := m[id]; ok && got != want {
			return pbt.Failf(fmt.Sprintf("doc:TagName:%d:%04x", it, id), "IfdType(%d).TagName(0x%04x) = %q, the specification names it %q", it, id, got, want)
		}
	}
	if gold != nil {
		want, member := gold.TagNames[strconv.Itoa(it)][fmt.Sprintf("%04x", id)]
		if !member {
			want = fmt.Sprintf("0x%04x", id) // documented fallback: the id itself
		}
		if got != want {
			return pbt.Failf(fmt.Sprintf("pinned:TagName:%d", it), "IfdType(%d).TagName(0x%04x) = %q, want %q (pinned name, or the hex id for unknown tags)", it, id, got, want)
		}
	}
	return nil
}

func evalParse(parser, text string) *pbt.Fail {
	var got, pan string
	func() {
		defer func() {
			if r := recover(); r != nil {
				pan = fmt.Sprint(r)
			}
		}()
		switch parser {
		case "ifds.CameraMakeFromString":
			v, ok := ifds.CameraMakeFromString(text)
			got = fmt.Sprintf("%d,%v", v, ok)
		case "mknote/canon.CameraModelFromString":
			v, ok := mkcanon.CameraModelFromString(text)
			got = fmt.Sprintf("%d,%v", v, ok)
		case "mknote/apple.CameraModelFromString":
			v, ok := apple.CameraModelFromString(text)
			got = fmt.Sprintf("%d,%v", v, ok)
		case "mknote/nikon.CameraModelFromString":
			v, ok := nikon.CameraModelFromString(text)
			got = fmt.Sprintf("%d,%v", v, ok)
		case "mknote/sony.CameraModelFromString":
			v, ok := sony.CameraModelFromString(text)
			got = fmt.Sprintf("%d,%v", v, ok)
		case "imagetype.FromString":
			got = fmt.Sprintf("%d", imagetype.FromString(text))
		case "xmpns.IdentifyNamespace":
			got = fmt.Sprintf("%d", xmpns.IdentifyNamespace([]byte(text)))
		case "xmpns.IdentifyName":
			got = fmt.Sprintf("%d", xmpns.IdentifyName([]byte(text)))
		default:
			got = "?"
		}
	}()
	if pan != "" {
		return pbt.Failf("panic:"+parser, "%s(%q) panicked: %s", parser, text, pan)
	}
	if gold != nil {
		if want, ok := gold.Parse[parser][text]; ok && got != want {
			return pbt.Failf("pinned:"+parser, "%s(%q) = %s, pinned result is %s", parser, text, got, want)
		}
	}
	// independent: every documented spelling of a make names that make
	if parser == "ifds.CameraMakeFromString" {
		if name, ok := docCameraMakeSpellings[text]; ok {
			v, found := ifds.CameraMakeFromString(text)
			if !found || docCameraMake[int64(v)] != name {
				return pbt.Failf("doc:"+parser, "CameraMakeFromString(%q) = (%d %q, %v), documented make is %q", text, v, v.String(), found, name)
			}
		}
	}
	return nil
}

func eval(c Case) *pbt.Fail {
	switch {
	case c.Parse != "":
		return evalParse(c.Parse, c.Text)
	case strings.HasPrefix(c.Enum, "direct:"):
		return evalDirect(strings.TrimPrefix(c.Enum, "direct:"), c.Value)
	case c.Enum == "TagName":
		return evalTagName(int(c.Value>>16), int(c.Value&0xffff))
	default:
		e := enumByName[c.Enum]
		if e == nil {
			return pbt.Failf("", "unknown enum %q in case", c.Enum)
		}
		return evalEnum(e, c.Value)
	}
}

// random part: uint32 camera models and out-of-domain values through the same oracles
func genCase(rt *rapid.T) Case {
	switch rapid.IntRange(0, 3).Draw(rt, "kind") {
	case 0:
		v := int64(rapid.Uint32().Draw(rt, "model"))
		c := Case{Enum: "ifds.CameraModel.String", Value: v}
		rec.Case(v>>16 >= 1 && v>>16 <= 4, ev.HashS(c.Enum, strconv.FormatInt(v, 10)), "random:CameraModel")
		return c
	case 1:
		names := []string{"mknote/canon.CameraModel.String", "mknote/apple.CameraModel.String", "mknote/nikon.CameraModel.String", "mknote/sony.CameraModel.String"}
		c := Case{Enum: rapid.SampledFrom(names).Draw(rt, "sub"), Value: int64(rapid.Uint32().Draw(rt, "model"))}
		rec.Case(false, 0, "random:subpackage-CameraModel")
		return c
	case 2:
		tx := rapid.StringMatching(`[A-Za-z ./+-]{0,24}`).Draw(rt, "text")
		ps := []string{"ifds.CameraMakeFromString", "mknote/canon.CameraModelFromString", "mknote/apple.CameraModelFromString", "imagetype.FromString", "xmpns.IdentifyNamespace", "xmpns.IdentifyName"}
		c := Case{Parse: rapid.SampledFrom(ps).Draw(rt, "parser"), Text: tx}
		rec.Case(false, 0, "random:parse-text")
		return c
	default:
		it := rapid.IntRange(0, 255).Draw(rt, "ifd")
		id := rapid.IntRange(0, 65535).Draw(rt, "id")
		rec.Case(false, 0, "random:TagName")
		return Case{Enum: "TagName", Value: int64(it)<<16 | int64(id)}
	}
}

var chk = pbt.Check[Case]{Name: "stringers", Gen: genCase, Eval: eval}

func init() { pbt.Register(chk) }

// wrapped makes the golden file mandatory for the check (a missing file is an infrastructure problem, not a pass).
func TestProp(t *testing.T) {
	defer rec.MustWrite()
	rec.Rule("exhaustive: every value of every exported enum / identifier stringer over its whole domain (8-bit and 16-bit types completely, signed types from their minimum, " +
		"CameraModel over the four make ranges +-4096, tag.ID x IfdType through TagName for IfdType 0..31,127,128,254,255 (thorough: all 256)), every member name through the FromString / Identify parsers; " +
		"random: uint32 camera models, parser texts, TagName pairs. Oracles: returns (recover => violation); documented value => documented name (tables written in the check from doc comments / cited specifications); " +
		"a returned string is unchanged by the next 64 calls; whole relation == pinned snapshot, non-members => fallback (hex id for tag names); FromString(String(v)) == v, FromString('.'+Extension(v)) == v for image types, IdentifyNamespace(String(ns)) == ns. " +
		"non-trivial = documented or pinned member, or a boundary neighbour (member+-1, -1, 0, min, max); distinct by (stringer, value)")
	rec.Assume("testdata/golden.json pins the relation as of the commit named in DESIGN.md; it is a regression oracle and is regenerated only together with a reviewed fix")
	rec.Assume("unexported stringers (box types, JPEG markers, hdlr types) are reachable only through logging and are exercised by C15, not here")
	var err error
	if gold, err = loadGolden(); err != nil {
		fmt.Printf("\nINFRA property=C17 cannot load testdata/golden.json: %v\n", err)
		t.FailNow()
	}
	pbt.RegressDir(t, rec)
	complete := true
	report := func(c Case, f *pbt.Fail) bool {
		if f == nil {
			return false
		}
		if pbt.Report(t, rec, chk.Name, c, f) {
			complete = false
			return true
		}
		return false
	}
	shard, shards := rec.Env.Shard, rec.Env.Shards
	for ei := range enums {
		if ei%shards != shard {
			continue
		}
		e := &enums[ei]
		g := gold.Enums[e.Name]
		bad := 0
		var trivial int64
		for v := e.Lo; v <= e.Hi; v++ {
			_, doc := e.Doc[v]
			_, pin := g.Entries[strconv.FormatInt(v, 10)]
			nt := doc || pin || boundary(e, v)
			if nt {
				rec.Case(true, ev.HashS(e.Name, strconv.FormatInt(v, 10)), "enum:"+e.Name)
				if doc {
					rec.Sample("documented", map[string]any{"stringer": e.Name, "value": v, "name": e.Doc[v]})
				} else if !pin {
					s, _ := call(e.Str, v)
					rec.Sample("boundary", map[string]any{"stringer": e.Name, "value": v, "result": s})
				}
			} else {
				trivial++
			}
			if report(Case{Enum: e.Name, Value: v}, evalEnum(e, v)) {
				if bad++; bad >= 3 {
					break
				}
			}
		}
		rec.Eval(trivial)
		rec.Class("enum:"+e.Name, trivial)
	}
	// tag names
	for _, it := range tagNameIfds(rec.Env.Thorough()) {
		if it%shards != shard {
			continue
		}
		bad := 0
		var trivial int64
		pins := gold.TagNames[strconv.Itoa(it)]
		for id := 0; id < 65536; id++ {
			_, pin := pins[fmt.Sprintf("%04x", id)]
			if pin || id == 0 || id == 65535 {
				rec.Case(true, ev.HashS("TagName", strconv.Itoa(it), strconv.Itoa(id)), "TagName")
				if pin {
					rec.Sample("tagname", map[string]any{"ifd_type": it, "id": fmt.Sprintf("0x%04x", id), "name": pins[fmt.Sprintf("%04x", id)]})
				}
			} else {
				trivial++
			}
			if report(Case{Enum: "TagName", Value: int64(it)<<16 | int64(id)}, evalTagName(it, id)) {
				if bad++; bad >= 3 {
					break
				}
			}
		}
		rec.Eval(trivial)
		rec.Class("TagName", trivial)
	}
	// the exported lookups behind TagName, called directly: every one of them over all 2^16 ids (must return, and agree with
	// the dispatching method), and TagSubIfdString also with every one of the 256 directory types (a caller may hand it any)
	if rec.Env.Shard == 0 {
		var n int64
		for name := range directLookups {
			for id := 0; id < 65536; id++ {
				n++
				if f := evalDirect(name, int64(id)); f != nil && report(Case{Enum: "direct:" + name, Value: int64(id)}, f) {
					break
				}
			}
		}
		for it := 0; it < 256; it++ {
			for _, id := range []int{0, 1, 0x00fe, 0x0100, 0x0111, 0x0117, 0x0201, 0x0202, 0x8769, 0xffff} {
				n++
				v := int64(it)<<16 | int64(id)
				if f := evalDirect("TagSubIfdString", v); f != nil && report(Case{Enum: "direct:TagSubIfdString", Value: v}, f) {
					break
				}
			}
		}
		rec.Eval(n)
		rec.Class("direct-tag-lookups", n)
	}
	// tag names again with the id in the outer loop and the directory types in ascending, then descending order: a lookup must
	// not depend on which directory type was asked about the same id just before (every id that has a name anywhere, +-1)
	if shard == 0 {
		idset := map[int]bool{}
		for _, m := range gold.TagNames {
			for h := range m {
				if v, err := strconv.ParseUint(h, 16, 16); err == nil {
					for d := -1; d <= 1; d++ {
						if id := int(v) + d; id >= 0 && id < 65536 {
							idset[id] = true
						}
					}
				}
			}
		}
		ids := make([]int, 0, len(idset))
		for id := range idset {
			ids = append(ids, id)
		}
		sort.Ints(ids)
		types := tagNameIfds(true)
		bad := 0
		for _, id := range ids {
			for pass := 0; pass < 2 && bad < 3; pass++ {
				for k := range types {
					it := types[k]
					if pass == 1 {
						it = types[len(types)-1-k]
					}
					rec.Case(true, ev.HashS("TagName-by-id", strconv.Itoa(it), strconv.Itoa(id), strconv.Itoa(pass)), "TagName:id-outer-order")
					if report(Case{Enum: "TagName", Value: int64(it)<<16 | int64(id)}, evalTagName(it, id)) {
						bad++
					}
				}
			}
		}
	}
	// parsers on every pinned text (member names and near-names)
	if shard == 0 {
		var ps []string
		for p := range gold.Parse {
			ps = append(ps, p)
		}
		sort.Strings(ps)
		for _, p := range ps {
			var txs []string
			for tx := range gold.Parse[p] {
				txs = append(txs, tx)
			}
			sort.Strings(txs)
			for _, tx := range txs {
				rec.Case(true, ev.HashS("parse", p, tx), "parse:"+p)
				report(Case{Parse: p, Text: tx}, evalParse(p, tx))
			}
		}
		for tx := range docCameraMakeSpellings {
			rec.Case(true, ev.HashS("parse-doc", tx), "parse:doc-make-spelling")
			report(Case{Parse: "ifds.CameraMakeFromString", Text: tx}, evalParse("ifds.CameraMakeFromString", tx))
		}
	}
	rec.Exhaustive(complete)
	if t.Failed() {
		return
	}
	pbt.Run(t, rec, chk, rec.Env.Pick(20000, 400000), 1)
}

func TestReplay(t *testing.T) {
	gold, _ = loadGolden()
	pbt.Replay(t, rec)
}
