package c17

// Independent tables: written from the types' doc comments and from the
// specifications the source cites (ExifTool tag tables, TIFF 6.0, Exif 2.32,
// ISO 14496-12 brands), not imported from the packages under test.

import (
	mkcanon "github.com/evanoberholster/imagemeta/exif2/ifds/mknote/canon"
)

// imagetype.ImageType doc comment
var docImageType = map[int64]string{
	0: "application/octet-stream", 1: "image/jpeg", 2: "image/png", 3: "image/gif", 4: "image/bmp", 5: "image/webp", 6: "image/heif", 7: "image/raw",
	8: "image/tiff", 9: "image/x-adobe-dng", 10: "image/x-nikon-nef", 11: "image/x-panasonic-raw", 12: "image/x-sony-arw", 13: "image/x-canon-crw",
	14: "image/x-gopro-gpr", 15: "image/x-canon-cr3", 16: "image/x-canon-cr2", 17: "image/vnd.adobe.photoshop", 18: "application/rdf+xml",
	19: "image/avif", 20: "image/x-portable-pixmap", 21: "image/jp2", 22: "image/svg+xml", 23: "image/magick",
}

// default extensions (the extension table of imagetype, lower/upper case as the package documents them)
var docImageExt = map[int64]string{
	1: "jpg", 2: "png", 3: "gif", 4: "bmp", 5: "webp", 6: "heif", 7: "RAW", 8: "TIFF", 9: "DNG", 10: "NEF", 11: "RW2", 12: "ARW", 13: "CRW",
	14: "GPR", 15: "CR3", 16: "CR2", 17: "PSD", 18: "XMP", 19: "avif", 20: "ppm", 21: "jp2", 22: "svg", 23: "magick",
}

// TIFF 6.0 field types (6 = SBYTE is not a member of the library's type list)
var docTagType = map[int64]string{1: "BYTE", 2: "ASCII", 3: "SHORT", 4: "LONG", 5: "RATIONAL", 7: "UNDEFINED", 8: "SSHORT", 9: "SLONG", 10: "SRATIONAL", 11: "FLOAT", 12: "DOUBLE"}

// ExifTool EXIF MeteringMode
var docMeteringMode = map[int64]string{0: "Unknown", 1: "Average", 2: "Center-weighted average", 3: "Spot", 4: "Multi-spot", 5: "Multi-segment", 6: "Partial", 255: "Other"}

// ExifTool EXIF ExposureMode
var docExposureMode = map[int64]string{0: "Auto", 1: "Manual", 2: "Auto bracket"}

// meta.ExposureProgram doc comment
var docExposureProgram = map[int64]string{0: "Not Defined", 1: "Manual", 2: "Program AE", 3: "Aperture-priority AE", 4: "Shutter speed priority AE",
	5: "Creative (Slow speed)", 6: "Action (High speed)", 7: "Portrait", 8: "Landscape", 9: "Bulb"}

// ExifTool EXIF Flash values
var docFlash = map[int64]string{
	0x00: "No Flash", 0x01: "Fired", 0x05: "Fired, Return not detected", 0x07: "Fired, Return detected", 0x08: "On, Did not fire", 0x09: "On, Fired",
	0x0d: "On, Return not detected", 0x0f: "On, Return detected", 0x10: "Off, Did not fire", 0x14: "Off, Did not fire, Return not detected",
	0x18: "Auto, Did not fire", 0x19: "Auto, Fired", 0x1d: "Auto, Fired, Return not detected", 0x1f: "Auto, Fired, Return detected",
	0x20: "No flash function", 0x30: "Off, No flash function", 0x41: "Fired, Red-eye reduction", 0x45: "Fired, Red-eye reduction, Return not detected",
	0x47: "Fired, Red-eye reduction, Return detected", 0x49: "On, Red-eye reduction", 0x4d: "On, Red-eye reduction, Return not detected",
	0x4f: "On, Red-eye reduction, Return detected", 0x50: "Off, Red-eye reduction", 0x58: "Auto, Did not fire, Red-eye reduction",
	0x59: "Auto, Fired, Red-eye reduction", 0x5d: "Auto, Fired, Red-eye reduction, Return not detected", 0x5f: "Auto, Fired, Red-eye reduction, Return detected",
}

// ExifTool EXIF Orientation (the library abbreviates value 1 to "Horizontal")
var docOrientation = map[int64]string{1: "Horizontal", 2: "Mirror horizontal", 3: "Rotate 180", 4: "Mirror vertical",
	5: "Mirror horizontal and rotate 270 CW", 6: "Rotate 90 CW", 7: "Mirror horizontal and rotate 90 CW", 8: "Rotate 270 CW"}

// ExifTool EXIF Compression (every row of the table)
var docCompression = map[int64]string{1: "Uncompressed", 2: "CCITT 1D", 3: "T4/Group 3 Fax", 4: "T6/Group 4 Fax", 5: "LZW", 6: "JPEG (old-style)", 7: "JPEG",
	8: "Adobe Deflate", 9: "JBIG B&W", 10: "JBIG Color", 99: "JPEG", 262: "Kodak 262", 32766: "Next", 32767: "Sony ARW Compressed", 32769: "Packed RAW",
	32770: "Samsung SRW Compressed", 32771: "CCIRLEW", 32772: "Samsung SRW Compressed 2", 32773: "PackBits", 32809: "Thunderscan", 32867: "Kodak KDC Compressed",
	32895: "IT8CTPAD", 32896: "IT8LW", 32897: "IT8MP", 32898: "IT8BL", 32908: "PixarFilm", 32909: "PixarLog", 32946: "Deflate", 32947: "DCS",
	33003: "Aperio JPEG 2000 YCbCr", 33005: "Aperio JPEG 2000 RGB", 34661: "JBIG", 34676: "SGILog", 34677: "SGILog24", 34712: "JPEG 2000",
	34713: "Nikon NEF Compressed", 34715: "JBIG2 TIFF FX", 34887: "ESRI Lerc", 34892: "Lossy JPEG", 34925: "LZMA2", 34926: "Zstd", 34927: "WebP",
	34933: "PNG", 34934: "JPEG XR", 65000: "Kodak DCR Compressed", 65535: "Pentax PEF Compressed",
	34718: "Microsoft Document Imaging (MDI) Binary Level Codec", 34719: "Microsoft Document Imaging (MDI) Progressive Transform Codec", 34720: "Microsoft Document Imaging (MDI) Vector"}

// meta/canon doc comments
var docCanonContinuousDrive = map[int64]string{0: "Single", 1: "Continuous", 2: "Movie", 3: "Continuous, Speed Priority", 4: "Continuous, Low", 5: "Continuous, High",
	6: "Silent Single", 7: "Unknown", 8: "Unknown", 9: "Single, Silent", 10: "Continuous, Silent"}
var docCanonFocusMode = map[int64]string{0: "One-shot AF", 1: "AI Servo AF", 2: "AI Focus AF", 3: "Manual Focus", 4: "Single", 5: "Continuous", 6: "Manual Focus",
	16: "Pan Focus", 256: "AF + MF", 512: "Movie Snap Focus", 519: "Movie Servo AF"}
var docCanonMeteringMode = map[int64]string{0: "Default", 1: "Spot", 2: "Average", 3: "Evaluative", 4: "Partial", 5: "Center-weighted average"}
var docCanonFocusRange = map[int64]string{0: "Manual", 1: "Auto", 2: "Not Known", 3: "Macro", 4: "Very Close", 5: "Close", 6: "Middle Range", 7: "Far Range",
	8: "Pan Focus", 9: "Super Macro", 10: "Infinity"}
var docCanonExposureMode = map[int64]string{0: "Easy", 1: "Program AE", 2: "Shutter speed priority AE", 3: "Aperture-priority AE", 4: "Manual", 5: "Depth-of-field AE",
	6: "M-Dep", 7: "Bulb", 8: "Flexible-priority AE"}
var docCanonBracketMode = map[int64]string{0: "Off", 1: "AEB", 2: "FEB", 3: "ISO", 4: "WB"}
var docCanonAESetting = map[int64]string{0: "Normal AE", 1: "Exposure Compensation", 2: "AE Lock", 3: "AE Lock + Exposure Compensation", 4: "No AE"}
var docCanonAFAreaMode = map[int64]string{0: "Off (Manual Focus)", 1: "AF Point Expansion (surround)", 2: "Single-point AF", 4: "Auto", 5: "Face Detect AF", 6: "Face + Tracking",
	7: "Zone AF", 8: "AF Point Expansion (4 point)", 9: "Spot AF", 10: "AF Point Expansion (8 point)", 11: "Flexizone Multi (49 point)",
	12: "Flexizone Multi (9 point)", 13: "Flexizone Single", 14: "Large Zone AF"}

// XMP namespace prefixes (the xmlns declarations quoted in xmpns.go), in declaration order starting at 1
var docNamespace = map[int64]string{1: "aux", 2: "crs", 3: "darktable", 4: "dc", 5: "exif", 6: "exifEX", 7: "lr", 8: "photoshop", 9: "pmi", 10: "rdf", 11: "stDim", 12: "stEvt",
	13: "stRef", 14: "tiff", 15: "x", 16: "xap", 17: "xapMM", 18: "xml", 19: "xmlns", 20: "xmp", 21: "xmpDM", 22: "xmpMM"}

// ISOBMFF brands in the order of the brand list of isobmff/ftyp.go, starting at 1
var docBrand = map[int64]string{1: "avci", 2: "avif", 3: "crx ", 4: "heic", 5: "heim", 6: "heis", 7: "heix", 8: "hevc", 9: "hevm", 10: "hevs", 11: "hevx", 12: "iso8",
	13: "isom", 14: "M4A ", 15: "MA1B", 16: "meta", 17: "miaf", 18: "MiAn", 19: "MiBr", 20: "mif1", 21: "mif2", 22: "MiHA", 23: "MiHB", 24: "MiHE", 25: "MiPr",
	26: "mp41", 27: "mp42", 28: "msf1"}

// tag names by directory type (1 = IFD0, 2 = SubIFD, 3 = Exif, 4 = GPS): TIFF 6.0 / Exif 2.32 field names
var tiffNames = map[int]string{0x0100: "ImageWidth", 0x0101: "ImageLength", 0x0102: "BitsPerSample", 0x0103: "Compression", 0x0106: "PhotometricInterpretation",
	0x010e: "ImageDescription", 0x010f: "Make", 0x0110: "Model", 0x0111: "StripOffsets", 0x0112: "Orientation", 0x0115: "SamplesPerPixel", 0x0116: "RowsPerStrip",
	0x0117: "StripByteCounts", 0x011a: "XResolution", 0x011b: "YResolution", 0x011c: "PlanarConfiguration", 0x0128: "ResolutionUnit", 0x0131: "Software",
	0x0132: "DateTime", 0x013b: "Artist", 0x8298: "Copyright"}
var docTagNames = map[int]map[int]string{
	1: tiffNames,
	2: tiffNames,
	3: {0x829a: "ExposureTime", 0x829d: "FNumber", 0x8822: "ExposureProgram", 0x8827: "ISOSpeedRatings", 0x9000: "ExifVersion", 0x9003: "DateTimeOriginal",
		0x9004: "DateTimeDigitized", 0x9201: "ShutterSpeedValue", 0x9202: "ApertureValue", 0x9203: "BrightnessValue", 0x9204: "ExposureBiasValue",
		0x9205: "MaxApertureValue", 0x9206: "SubjectDistance", 0x9207: "MeteringMode", 0x9208: "LightSource", 0x9209: "Flash", 0x920a: "FocalLength",
		0x927c: "MakerNote", 0x9286: "UserComment", 0x9290: "SubSecTime", 0x9291: "SubSecTimeOriginal", 0x9292: "SubSecTimeDigitized", 0xa001: "ColorSpace",
		0xa002: "PixelXDimension", 0xa003: "PixelYDimension", 0xa402: "ExposureMode", 0xa403: "WhiteBalance", 0xa405: "FocalLengthIn35mmFilm",
		0xa431: "BodySerialNumber", 0xa432: "LensSpecification", 0xa433: "LensMake", 0xa434: "LensModel", 0xa435: "LensSerialNumber"},
	4: {0: "GPSVersionID", 1: "GPSLatitudeRef", 2: "GPSLatitude", 3: "GPSLongitudeRef", 4: "GPSLongitude", 5: "GPSAltitudeRef", 6: "GPSAltitude",
		7: "GPSTimeStamp", 8: "GPSSatellites", 9: "GPSStatus", 0x0a: "GPSMeasureMode", 0x0b: "GPSDOP", 0x0c: "GPSSpeedRef", 0x0d: "GPSSpeed",
		0x10: "GPSImgDirectionRef", 0x11: "GPSImgDirection", 0x12: "GPSMapDatum", 0x1b: "GPSProcessingMethod", 0x1d: "GPSDateStamp"},
}

// canon camera models: constant -> documented model string (transcribed from the model list in exif2/ifds/mknote/canon)
var docCanonModels = map[int64]string{
	int64(mkcanon.EOS1DXMarkIII):     "Canon EOS-1D X Mark III",
	int64(mkcanon.EOS90D):            "Canon EOS 90D",
	int64(mkcanon.EOSM200):           "Canon EOS M200",
	int64(mkcanon.EOSM50MarkII):      "Canon EOS M50 Mark II",
	int64(mkcanon.EOSM6MarkII):       "Canon EOS M6 Mark II",
	int64(mkcanon.EOSR10):            "Canon EOS R10",
	int64(mkcanon.EOSR3):             "Canon EOS R3",
	int64(mkcanon.EOSR50):            "Canon EOS R50",
	int64(mkcanon.EOSR5):             "Canon EOS R5",
	int64(mkcanon.EOSR6MarkII):       "Canon EOS R6 Mark II",
	int64(mkcanon.EOSR6):             "Canon EOS R6",
	int64(mkcanon.EOSR7):             "Canon EOS R7",
	int64(mkcanon.EOSR8):             "Canon EOS R8",
	int64(mkcanon.EOSRP):             "Canon EOS RP",
	int64(mkcanon.EOSR):              "Canon EOS R",
	int64(mkcanon.EOS250D):           "Canon EOS SL3",
	int64(mkcanon.EOS6D):             "Canon EOS 6D",
	int64(mkcanon.PowerShotSD300):    "Canon DIGITAL IXUS 40",
	int64(mkcanon.PowerShotS410):     "Canon PowerShot S410",
	int64(mkcanon.PowerShotS500):     "Canon DIGITAL IXUS 500",
	int64(mkcanon.EOS1000D):          "Canon EOS 1000D",
	int64(mkcanon.EOS20D):            "Canon EOS 20D",
	int64(mkcanon.EOS350D):           "Canon EOS 350D DIGITAL",
	int64(mkcanon.EOS400D):           "Canon EOS 400D DIGITAL",
	int64(mkcanon.EOS40D):            "Canon EOS 40D",
	int64(mkcanon.EOS450D):           "Canon EOS 450D",
	int64(mkcanon.EOS50D):            "Canon EOS 50D",
	int64(mkcanon.EOS7D):             "Canon EOS 7D",
	int64(mkcanon.EOS80D):            "Canon EOS 80D",
	int64(mkcanon.EOS550D):           "Canon EOS REBEL T2i",
	int64(mkcanon.EOS1DS):            "Canon EOS-1DS",
	int64(mkcanon.PowerShotSD1300IS): "Canon IXY 200F",
	int64(mkcanon.PowerShotA200):     "Canon PowerShot A200",
	int64(mkcanon.PowerShotA510):     "Canon PowerShot A510",
	int64(mkcanon.PowerShotA540):     "Canon PowerShot A540", // (ExifTool canonModelID 0x1960000; 0x2190000 is the A450)
	int64(mkcanon.PowerShotA590IS):   "Canon PowerShot A590 IS",
	int64(mkcanon.PowerShotA75):      "Canon PowerShot A75",
	int64(mkcanon.PowerShotA80):      "Canon PowerShot A80",
	int64(mkcanon.PowerShotA85):      "Canon PowerShot A85",
	int64(mkcanon.PowerShotG2):       "Canon PowerShot G2",
	int64(mkcanon.PowerShotG9):       "Canon PowerShot G9",
	int64(mkcanon.PowerShotS2IS):     "Canon PowerShot S2 IS",
	int64(mkcanon.PowerShotS5IS):     "Canon PowerShot S5 IS",
	int64(mkcanon.PowerShotSD1000):   "Canon PowerShot SD1000",
	int64(mkcanon.PowerShotSD600):    "Canon PowerShot SD600",
	int64(mkcanon.PowerShotSD950IS):  "Canon PowerShot SD950 IS",
	int64(mkcanon.PowerShotSX30IS):   "Canon PowerShot SX30 IS",
	int64(mkcanon.PowerShotSX50HS):   "Canon PowerShot SX50 HS",
	int64(mkcanon.PowerShotSX60HS):   "Canon PowerShot SX60 HS",
}

// camera makes in declaration order (value = position, CameraMakeUnknown = 0 has the empty name)
var docCameraMake = map[int64]string{
	1:  "Acer",
	2:  "Agfa",
	3:  "Aiptek",
	4:  "Apple",
	5:  "Asus",
	6:  "BenQ",
	7:  "Canon",
	8:  "Casio",
	9:  "DJI",
	10: "FujiFilm",
	11: "Ge",
	12: "Genius",
	13: "Google",
	14: "GoPro",
	15: "Hasselblad",
	16: "HP",
	17: "Hitachi",
	18: "HTC",
	19: "Huawei",
	20: "Insta360",
	21: "Kodak",
	22: "Konica",
	23: "Kyocera",
	24: "Leica",
	25: "LG",
	26: "Mamyia",
	27: "Microsoft",
	28: "Minolta",
	29: "Motorola",
	30: "Nikon",
	31: "Nokia",
	32: "Olympus",
	33: "OnePlus",
	34: "Panasonic",
	35: "Pentax",
	36: "PhaseOne",
	37: "Polaroid",
	38: "RIM",
	39: "Ricoh",
	40: "Samsung",
	41: "Sanyo",
	42: "Sharp",
	43: "Sigma",
	44: "Sony",
	45: "SonyEricsson",
	46: "Toshiba",
	47: "Vivitar",
	48: "Xiamoi",
	49: "ZTE",
	50: "Hisilicon",
}

// every spelling the make table documents -> the make it names
var docCameraMakeSpellings = map[string]string{
	"Acer":              "Acer",
	"Agfa":              "Agfa",
	"Aiptek":            "Aiptek",
	"Apple":             "Apple",
	"Asus":              "Asus",
	"BenQ":              "BenQ",
	"Canon":             "Canon",
	"Casio":             "Casio",
	"DJI":               "DJI",
	"FujiFilm":          "FujiFilm",
	"Ge":                "Ge",
	"Genius":            "Genius",
	"Google":            "Google",
	"GoPro":             "GoPro",
	"Hasselblad":        "Hasselblad",
	"HP":                "HP",
	"Hitachi":           "Hitachi",
	"HTC":               "HTC",
	"HUAWEI":            "Huawei",
	"Insta360":          "Insta360",
	"Kodak":             "Kodak",
	"Konica":            "Konica",
	"Kyocera":           "Kyocera",
	"Leica":             "Leica",
	"LG":                "LG",
	"Mamyia":            "Mamyia",
	"Microsoft":         "Microsoft",
	"Minolta":           "Minolta",
	"Motorola":          "Motorola",
	"Nikon":             "Nikon",
	"NIKON CORPORATION": "Nikon",
	"Nokia":             "Nokia",
	"Olympus":           "Olympus",
	"OnePlus":           "OnePlus",
	"Panasonic":         "Panasonic",
	"Pentax":            "Pentax",
	"PhaseOne":          "PhaseOne",
	"Polaroid":          "Polaroid",
	"RIM":               "RIM",
	"Ricoh":             "Ricoh",
	"Samsung":           "Samsung",
	"Sanyo":             "Sanyo",
	"Sharp":             "Sharp",
	"Sigma":             "Sigma",
	"Sony":              "Sony",
	"SONY":              "Sony",
	"SonyEricsson":      "SonyEricsson",
	"Toshiba":           "Toshiba",
	"Vivitar":           "Vivitar",
	"Xiamoi":            "Xiamoi",
	"ZTE":               "ZTE",
	"Hisilicon":         "Hisilicon",
}
